/-
  Helper lemmas for C16: soundness of the validator against the JSON-schema reading of the table —
  whatever `validate` returns *conforms* to the schema type (bounds, patterns, closedness).
  `Conforms` is the specification side: it is written from JSON-schema semantics
  (minimum / maximum / exclusiveMinimum, pattern, additionalProperties, items, $ref), not from the
  validator.
-/
import Kskm.Config
import KskmProofs.Lemmas.C16Validate
namespace Kskm.C16
open Kskm Kskm.Config

/-- a loaded scalar satisfies one alternative of its schema -/
def ScalarOk (env : Env) : Scalar → CVal → Prop
  | .null, r => r = .null
  | .bool, r => ∃ b, r = .bool b
  | .int ge le gt, r => ∃ i, r = .int i ∧ inBounds ge le gt i = true
  | .str pat, r => ∃ s, r = .str s ∧ ∀ p, pat = some p → matchPattern p s = .ok true
  | .duration, r => ∃ u, r = .td u
  | .datetime, r => ∃ u o, r = .ts u o
  | .filePath, r => ∃ s, r = .str s ∧ env.fileExists s = true
  | .path, r => ∃ s, r = .str s
  | .algByName, r => ∃ name n, r = .int (Int.ofNat n) ∧ List.lookup name env.algNames = some n
  | .enumMember, _ => False

/-- `Conforms env n ty r`: the loaded value `r` is an instance of the schema type `ty`
    (`n` bounds the nesting of `$ref`s that are followed, like the validator's fuel). -/
def Conforms (env : Env) : Nat → STy → CVal → Prop
  | 0, _, _ => False
  | n + 1, ty, r =>
    match ty with
    | .scalar alts => ∃ a ∈ alts, ScalarOk env a r
    | .anyMap => True
    | .list item => ∃ xs, r = .list xs ∧ ∀ x ∈ xs, Conforms env n item x
    | .set _ => False
    | .mapOf ik val => ∃ out, r = .map out ∧ ∀ kv ∈ out,
        (if ik then ∃ i, kv.1 = .int i else keyIsStr kv.1 = true) ∧ Conforms env n val kv.2
    | .model name => ∃ s out, findSchema env.tbl name = some s ∧ r = .map out ∧
        ∀ kv ∈ out, ∃ f ∈ s.fields, kv.1 = .str f.name ∧ (f.default = some kv.2 ∨ Conforms env n f.ty kv.2)

theorem sequenceV_mem {α : Type} (l : List (Res (Option α))) (r : List α)
    (h : sequenceV l = .ok (some r)) : ∀ a ∈ r, ∃ x ∈ l, x = .ok (some a) := by
  induction l generalizing r with
  | nil =>
    simp only [sequenceV, pure, Except.pure, Except.ok.injEq, Option.some.injEq] at h
    subst h; intro a ha; cases ha
  | cons y ys ih =>
    unfold sequenceV at h
    cases hy : y with
    | error e => simp [hy, bind, Except.bind] at h
    | ok a0 =>
      cases hs : sequenceV ys with
      | error e => simp [hy, hs, bind, Except.bind] at h
      | ok rs =>
        simp only [hy, hs, bind, Except.bind, pure, Except.pure] at h
        cases a0 with
        | none => simp at h
        | some a' =>
          cases rs with
          | none => simp at h
          | some rs' =>
            simp only [Except.ok.injEq, Option.some.injEq] at h
            subst h
            intro a ha
            rcases List.mem_cons.mp ha with rfl | ha'
            · exact ⟨_, List.mem_cons_self, rfl⟩
            · obtain ⟨x, hx, hxe⟩ := ih rs' hs a ha'
              exact ⟨x, List.mem_cons_of_mem _ hx, hxe⟩

theorem valScalar_sound (env : Env) (strict : Bool) (sc : Scalar) (v r : CVal)
    (h : valScalar env strict sc v = .ok (some r)) : ScalarOk env sc r := by
  cases sc with
  | null =>
    cases v <;> simp [valScalar, pure, Except.pure] at h
    exact h.symm
  | bool =>
    cases v <;> simp only [valScalar, pure, Except.pure, Except.ok.injEq] at h
    all_goals (try (simp at h))
    all_goals (try (repeat' split at h))
    all_goals (try (simp at h))
    all_goals (try exact ⟨_, h.symm⟩)
    all_goals (try exact ⟨_, h.2.symm⟩)
  | int ge le gt =>
    simp only [valScalar, bind, Except.bind, pure, Except.pure] at h
    split at h
    · simp at h
    · rename_i cand _
      cases cand with
      | none => simp at h
      | some i =>
        simp only [Except.ok.injEq] at h
        split at h
        · rename_i hb
          injection h with h
          exact ⟨i, h.symm, hb⟩
        · simp at h
  | str pat =>
    cases v <;> simp only [valScalar, pure, Except.pure] at h
    all_goals (try (simp at h))
    rename_i s
    cases pat with
    | none =>
      simp only [Except.ok.injEq, Option.some.injEq] at h
      exact ⟨s, h.symm, by intro p hp; cases hp⟩
    | some p =>
      simp only [bind, Except.bind] at h
      cases hm : matchPattern p s with
      | error e => simp [hm] at h
      | ok b =>
        simp only [hm, Except.ok.injEq] at h
        cases b with
        | false => simp at h
        | true =>
          simp only [if_true, Option.some.injEq] at h
          exact ⟨s, h.symm, by intro p' hp'; injection hp' with hp'; subst hp'; exact hm⟩
  | duration =>
    have key : ∀ (q : Res (Option Int)), (do let r ← q; pure (r.map CVal.td) : Res (Option CVal)) = .ok (some r) →
        ∃ u, r = .td u := by
      intro q hq
      cases q with
      | error e => simp [bind, Except.bind] at hq
      | ok o =>
        cases o with
        | none => simp [bind, Except.bind, pure, Except.pure] at hq
        | some u => simp [bind, Except.bind, pure, Except.pure] at hq; exact ⟨u, hq.symm⟩
    cases v <;> simp only [valScalar, pure, Except.pure] at h
    case td u => simp at h; exact ⟨u, h.symm⟩
    all_goals (split at h; · simp at h)
    all_goals (try (simp at h; done))
    case int.isFalse => exact key _ h
    case bool.isFalse => simp at h; exact ⟨_, h.symm⟩
    case str.isFalse => exact key _ h
    case float.isFalse =>
      rename_i t integral _
      cases t with
      | none => simp at h
      | some i =>
        simp only at h
        split at h
        · exact key _ h
        · simp [unsupported] at h
  | datetime =>
    cases v <;> simp only [valScalar, pure, Except.pure] at h
    case ts u o => simp at h; exact ⟨u, o, h.symm⟩
    all_goals (split at h; · simp at h)
    all_goals (try (simp at h; done))
    case date.isFalse => simp at h; exact ⟨_, _, h.symm⟩
    case int.isFalse =>
      simp at h
      obtain ⟨a, b, _, hr⟩ := h
      exact ⟨a, b, hr.symm⟩
    case float.isFalse =>
      rename_i t integral _
      cases t with
      | none => simp at h
      | some i =>
        simp only at h
        split at h
        · simp at h
          obtain ⟨a, b, _, hr⟩ := h
          exact ⟨a, b, hr.symm⟩
        · simp [unsupported] at h
    case str.isFalse =>
      rename_i s _
      split at h
      · split at h
        · simp at h
          obtain ⟨a, b, _, hr⟩ := h
          exact ⟨a, b, hr.symm⟩
        · simp [unsupported] at h
      · cases hq : pydDatetime s with
        | error e => simp [hq, bind, Except.bind] at h
        | ok o =>
          cases o with
          | none => simp [hq, bind, Except.bind] at h
          | some p => simp [hq, bind, Except.bind] at h; exact ⟨_, _, h.symm⟩
  | filePath =>
    cases v <;> simp only [valScalar, pure, Except.pure] at h
    all_goals (try (simp at h; done))
    case str s =>
      split at h
      · simp at h
      · split at h
        · simp at h
        · rename_i hfe
          split at h
          · simp at h; exact ⟨s, h.symm, by simpa using hfe⟩
          · simp [unsupported] at h
  | path =>
    cases v <;> simp only [valScalar, pure, Except.pure] at h
    all_goals (try (simp at h; done))
    case str s =>
      split at h
      · simp at h
      · simp at h; exact ⟨_, h.symm⟩
  | algByName =>
    cases v <;> simp only [valScalar, pure, Except.pure, err] at h
    all_goals (try (simp at h; done))
    case str s =>
      split at h
      · rename_i n hn
        simp at h
        exact ⟨s, n, h.symm, hn⟩
      · simp at h
  | enumMember =>
    simp only [valScalar, pure, Except.pure, unsupported] at h
    split at h <;> simp at h

theorem firstSome_sound (l : List (Res (Option CVal))) (r : CVal)
    (h : firstSome l = .ok (some r)) : ∃ x ∈ l, x = .ok (some r) := by
  induction l with
  | nil => simp [firstSome, pure, Except.pure] at h
  | cons y ys ih =>
    unfold firstSome at h
    cases hy : y with
    | error e => simp [hy, bind, Except.bind] at h
    | ok o =>
      cases o with
      | none =>
        simp only [hy, bind, Except.bind] at h
        obtain ⟨x, hx, hxe⟩ := ih h
        exact ⟨x, List.mem_cons_of_mem _ hx, hxe⟩
      | some v =>
        simp only [hy, bind, Except.bind, pure, Except.pure, Except.ok.injEq, Option.some.injEq] at h
        subst h
        exact ⟨_, List.mem_cons_self, rfl⟩

theorem valUnion_sound (env : Env) (strict : Bool) (alts : List Scalar) (v r : CVal)
    (h : valUnion env strict alts v = .ok (some r)) : ∃ a ∈ alts, ScalarOk env a r := by
  unfold valUnion at h
  obtain ⟨x, hx, hxe⟩ := firstSome_sound _ r h
  rcases List.mem_append.mp hx with hx | hx
  · obtain ⟨a, ha, rfl⟩ := List.mem_map.mp hx
    exact ⟨a, ha, valScalar_sound env true a v r hxe⟩
  · split at hx
    · cases hx
    · obtain ⟨a, ha, rfl⟩ := List.mem_map.mp hx
      exact ⟨a, ha, valScalar_sound env false a v r hxe⟩

theorem valKey_sound (ik : Bool) (k k' : CVal) (h : valKey ik k = .ok (some k')) :
    if ik then ∃ i, k' = .int i else keyIsStr k' = true := by
  unfold valKey at h
  cases ik with
  | true =>
    simp only [if_true] at h ⊢
    cases hl : laxInt k with
    | error e => simp [hl, bind, Except.bind] at h
    | ok o =>
      cases o with
      | none => simp [hl, bind, Except.bind, pure, Except.pure] at h
      | some i => simp [hl, bind, Except.bind, pure, Except.pure] at h; exact ⟨i, h.symm⟩
  | false =>
    simp only [Bool.false_eq_true, if_false, pure, Except.pure, Except.ok.injEq] at h ⊢
    split at h
    · rename_i hk; simp at h; subst h; exact hk
    · simp at h

/-- the after-validator keeps a value inside its schema type: it only turns a `datetime` without
    time zone into a `datetime` with one -/
theorem conforms_after (env : Env) (f : Field) (n : Nat) (ty : STy) (y : CVal)
    (h : Conforms env n ty y) : Conforms env n ty (applyNaiveIsUtc f y) := by
  unfold applyNaiveIsUtc
  split
  · split
    · rename_i us
      cases n with
      | zero => simp [Conforms] at h
      | succ n =>
        unfold Conforms at h ⊢
        cases ty with
        | scalar alts =>
          obtain ⟨a, ha, hok⟩ := h
          cases a <;> simp [ScalarOk] at hok
          exact ⟨.datetime, ha, us, some 0, rfl⟩
        | anyMap => trivial
        | list item => obtain ⟨xs, hx, _⟩ := h; cases hx
        | set item => exact h
        | mapOf ik val => obtain ⟨out, hx, _⟩ := h; cases hx
        | model name => obtain ⟨s, out, _, hx, _⟩ := h; cases hx
    · exact h
  · exact h

/-- **Soundness of the validator**: what it returns is an instance of the schema type. -/
theorem validate_sound (env : Env) :
    ∀ fuel strict ty v r, validate env fuel strict ty v = .ok (some r) → Conforms env fuel ty r := by
  intro fuel
  induction fuel with
  | zero => intro strict ty v r h; simp [validate, unsupported] at h
  | succ n ih =>
    intro strict ty v r h
    unfold validate at h
    unfold Conforms
    cases ty with
    | scalar alts => exact valUnion_sound env strict alts v r h
    | anyMap => trivial
    | set item =>
      simp only at h
      split at h <;> simp [pure, Except.pure, unsupported] at h
    | list item =>
      cases v <;> simp only [pure, Except.pure] at h
      all_goals (try (simp at h; done))
      rename_i xs
      revert h
      generalize hq : sequenceV _ = q
      cases q with
      | error e => simp [bind, Except.bind]
      | ok o =>
        cases o with
        | none => simp [bind, Except.bind]
        | some l =>
          simp only [bind, Except.bind, Option.map_some, Except.ok.injEq, Option.some.injEq]
          intro hr; subst hr
          refine ⟨l, rfl, ?_⟩
          intro a ha
          obtain ⟨x, hx, hxe⟩ := sequenceV_mem _ l hq a ha
          obtain ⟨x0, _, rfl⟩ := List.mem_map.mp hx
          exact ih strict item x0 a hxe
    | mapOf ik val =>
      cases v <;> simp only [pure, Except.pure] at h
      all_goals (try (simp at h; done))
      rename_i kvs
      revert h
      generalize hq : sequenceV _ = q
      cases q with
      | error e => simp [bind, Except.bind]
      | ok o =>
        cases o with
        | none => simp [bind, Except.bind]
        | some l =>
          simp only [bind, Except.bind]
          intro h
          split at h
          · simp [unsupported] at h
          · simp only [Except.ok.injEq, Option.some.injEq] at h
            subst h
            refine ⟨l, rfl, ?_⟩
            intro a ha
            obtain ⟨x, hx, hxe⟩ := sequenceV_mem _ l hq a ha
            obtain ⟨kv, _, rfl⟩ := List.mem_map.mp hx
            obtain ⟨hk, hv⟩ := valEntry_ok _ _ _ _ hxe
            exact ⟨valKey_sound ik kv.1 a.1 hk, ih strict val kv.2 a.2 hv⟩
    | model name =>
      simp only at h
      split at h
      · simp [unsupported] at h
      · rename_i s hs
        cases v <;> simp only [pure, Except.pure] at h
        all_goals (try (simp at h; done))
        rename_i kvs
        revert h
        generalize hq : sequenceV _ = q
        cases q with
        | error e => simp [bind, Except.bind]
        | ok o =>
          cases o with
          | none => simp [bind, Except.bind]
          | some l =>
            simp only [bind, Except.bind]
            intro h
            split at h
            · simp at h
            · simp only [Option.map_some, Except.ok.injEq, Option.some.injEq] at h
              subst h
              refine ⟨s, l, hs, rfl, ?_⟩
              intro a ha
              obtain ⟨x, hx, hxe⟩ := sequenceV_mem _ l hq a ha
              obtain ⟨f, hf, rfl⟩ := List.mem_map.mp hx
              refine ⟨f, hf, ?_⟩
              cases hl : CVal.lookupStr kvs f.name with
              | none =>
                obtain ⟨d, hd, rfl⟩ := valField_absent _ s kvs f a hl hxe
                exact ⟨rfl, Or.inl hd⟩
              | some x0 =>
                obtain ⟨y, hy, rfl⟩ := valField_present _ s kvs f x0 a hl hxe
                exact ⟨rfl, Or.inr (conforms_after env f n f.ty y (ih s.strict f.ty _ y hy))⟩

/-! ### reading a conforming value -/

theorem lookupStr_mem (kvs : List (CVal × CVal)) (n : String) (v : CVal)
    (h : CVal.lookupStr kvs n = some v) : (CVal.str n, v) ∈ kvs := by
  induction kvs with
  | nil => simp [CVal.lookupStr] at h
  | cons p r ih =>
    obtain ⟨k, x⟩ := p
    cases k with
    | str s =>
      simp only [CVal.lookupStr] at h
      split at h
      · rename_i hs
        injection h with h
        subst h; subst hs
        exact List.mem_cons_self
      · exact List.mem_cons_of_mem _ (ih h)
    | _ => simp only [CVal.lookupStr] at h; exact List.mem_cons_of_mem _ (ih h)

theorem field_unique (fields : List Field) (hnd : (fields.map (·.name)).Nodup) (f : Field)
    (hf : f ∈ fields) : fields.find? (fun g => g.name == f.name) = some f := by
  induction fields with
  | nil => cases hf
  | cons g r ih =>
    simp only [List.map_cons, List.nodup_cons] at hnd
    rcases List.mem_cons.mp hf with rfl | hr
    · simp [List.find?]
    · have hne : (g.name == f.name) = false := by
        simp only [beq_eq_false_iff_ne, ne_eq]
        intro heq
        exact hnd.1 (heq ▸ List.mem_map.mpr ⟨f, hr, rfl⟩)
      simp only [List.find?, hne]
      exact ih hnd.2 hr

/-- the value of option `fname` in a loaded object of model `name` is that option's default or an
    instance of that option's schema type -/
theorem loaded_option (env : Env) (hnd : ∀ s ∈ env.tbl, s.fieldNames.Nodup) (n : Nat) (name fname : String)
    (r v : CVal) (hc : Conforms env (n + 1) (.model name) r) (hg : r.get? fname = some v) :
    ∃ s f, findSchema env.tbl name = some s ∧ s.field? fname = some f ∧
      (f.default = some v ∨ Conforms env n f.ty v) := by
  unfold Conforms at hc
  obtain ⟨s, out, hs, rfl, hall⟩ := hc
  simp only [CVal.get?] at hg
  obtain ⟨f, hf, hname, hor⟩ := hall _ (lookupStr_mem _ _ _ hg)
  simp only [CVal.str.injEq] at hname
  subst hname
  exact ⟨s, f, hs, field_unique s.fields (hnd s (findSchema_mem hs)) f hf, hor⟩

theorem conforms_scalar (env : Env) (n : Nat) (alts : List Scalar) (v : CVal)
    (h : Conforms env (n + 1) (.scalar alts) v) : ∃ a ∈ alts, ScalarOk env a v := by
  unfold Conforms at h; exact h

theorem conforms_list (env : Env) (n : Nat) (item : STy) (v : CVal)
    (h : Conforms env (n + 1) (.list item) v) : ∃ xs, v = .list xs ∧ ∀ x ∈ xs, Conforms env n item x := by
  unfold Conforms at h; exact h

theorem conforms_mapOf (env : Env) (n : Nat) (ik : Bool) (val : STy) (v : CVal)
    (h : Conforms env (n + 1) (.mapOf ik val) v) :
    ∃ out, v = .map out ∧ ∀ kv ∈ out, Conforms env n val kv.2 := by
  unfold Conforms at h
  obtain ⟨out, rfl, hall⟩ := h
  exact ⟨out, rfl, fun kv hkv => (hall kv hkv).2⟩

theorem getInt?_some (v : CVal) (i : Int) (h : v.getInt? = some i) : v = .int i := by
  cases v <;> simp [CVal.getInt?] at h; subst h; rfl

theorem getMap?_some (v : CVal) (l : List (CVal × CVal)) (h : v.getMap? = some l) : v = .map l := by
  cases v <;> simp [CVal.getMap?] at h; subst h; rfl

theorem mapM_getInt? (l : List CVal) (is : List Int) (h : l.mapM CVal.getInt? = some is) :
    l = is.map CVal.int := by
  induction l generalizing is with
  | nil => simp at h; subst h; rfl
  | cons x r ih =>
    rw [List.mapM_cons] at h
    cases hx : x.getInt? with
    | none => simp [hx] at h
    | some i =>
      cases hr : r.mapM CVal.getInt? with
      | none => simp [hx, hr] at h
      | some js =>
        simp [hx, hr] at h
        subst h
        rw [ih js hr, getInt?_some x i hx]
        rfl

theorem getIntList?_some (v : CVal) (is : List Int) (h : v.getIntList? = some is) :
    v = .list (is.map CVal.int) := by
  cases v <;> simp [CVal.getIntList?] at h
  rename_i l
  rw [mapM_getInt? l is h]

theorem mapM_getStr? (l : List CVal) (ss : List String) (h : l.mapM CVal.getStr? = some ss) :
    l = ss.map CVal.str := by
  induction l generalizing ss with
  | nil => simp at h; subst h; rfl
  | cons x r ih =>
    rw [List.mapM_cons] at h
    cases hx : x.getStr? with
    | none => simp [hx] at h
    | some i =>
      cases hr : r.mapM CVal.getStr? with
      | none => simp [hx, hr] at h
      | some js =>
        simp [hx, hr] at h
        subst h
        rw [ih js hr]
        cases x <;> simp [CVal.getStr?] at hx
        subst hx
        rfl

theorem getStrList?_some (v : CVal) (ss : List String) (h : v.getStrList? = some ss) :
    v = .list (ss.map CVal.str) := by
  cases v <;> simp [CVal.getStrList?] at h
  rename_i l
  rw [mapM_getStr? l ss h]

/-- what `^[C]+$` means: non-empty and every character in the class -/
theorem matchClassPlus_true (cls : Char → Bool) (uo : Bool) (s : List Char)
    (h : matchClassPlus cls uo s = .ok true) : s ≠ [] ∧ ∀ c ∈ s, isAscii c = true ∧ cls c = true := by
  unfold matchClassPlus at h
  split at h
  · simp [pure, Except.pure] at h
  · rename_i hne
    split at h
    · simp [pure, Except.pure] at h
    · rename_i hcls
      split at h
      · split at h <;> simp [pure, Except.pure, unsupported] at h
      · rename_i hasc
        refine ⟨by intro he; subst he; simp at hne, ?_⟩
        intro c hc
        have h1 : isAscii c = true := by
          cases ha : isAscii c with
          | true => rfl
          | false => exact absurd (List.any_eq_true.mpr ⟨c, hc, by simp [ha]⟩) hasc
        have h2 : cls c = true := by
          cases hcl : cls c with
          | true => rfl
          | false => exact absurd (List.any_eq_true.mpr ⟨c, hc, by simp [h1, hcl]⟩) hcls
        exact ⟨h1, h2⟩

/-! ### from a loaded value back to the value that was validated (used for the after-validator) -/

/-- reading one option of a loaded object back to the object that was validated: the option was absent
    and took its default, or it was present and its loaded value is the validated value after the
    after-validator -/
theorem validate_model_get (env : Env) (hnd : ∀ s ∈ env.tbl, s.fieldNames.Nodup) (n : Nat) (strict : Bool)
    (name fname : String) (v0 loaded v : CVal)
    (h : validate env (n + 1) strict (.model name) v0 = .ok (some loaded))
    (hg : loaded.get? fname = some v) :
    ∃ s f kvs, findSchema env.tbl name = some s ∧ s.field? fname = some f ∧ v0 = .map kvs ∧
      ((CVal.lookupStr kvs fname = none ∧ f.default = some v) ∨
       (∃ x y, CVal.lookupStr kvs fname = some x ∧
          validate env n s.strict f.ty (applyStrToList f x) = .ok (some y) ∧ v = applyNaiveIsUtc f y)) := by
  unfold validate at h
  simp only at h
  split at h
  · simp [unsupported] at h
  · rename_i s hs
    cases v0 <;> simp only [pure, Except.pure] at h
    all_goals (try (simp at h; done))
    rename_i kvs
    revert h
    generalize hq : sequenceV _ = q
    cases q with
    | error e => simp [bind, Except.bind]
    | ok o =>
      cases o with
      | none => simp [bind, Except.bind]
      | some l =>
        simp only [bind, Except.bind]
        intro h
        split at h
        · simp at h
        · simp only [Option.map_some, Except.ok.injEq, Option.some.injEq] at h
          subst h
          simp only [CVal.get?] at hg
          obtain ⟨x, hx, hxe⟩ := sequenceV_mem _ l hq _ (lookupStr_mem _ _ _ hg)
          obtain ⟨f, hf, rfl⟩ := List.mem_map.mp hx
          cases hl : CVal.lookupStr kvs f.name with
          | none =>
            obtain ⟨d, hd, he⟩ := valField_absent _ s kvs f _ hl hxe
            injection he with h1 h2
            injection h1 with h1
            subst h1 h2
            exact ⟨s, f, kvs, hs, field_unique s.fields (hnd s (findSchema_mem hs)) f hf, rfl, Or.inl ⟨hl, hd⟩⟩
          | some x0 =>
            obtain ⟨y, hy, he⟩ := valField_present _ s kvs f x0 _ hl hxe
            injection he with h1 h2
            injection h1 with h1
            subst h1
            exact ⟨s, f, kvs, hs, field_unique s.fields (hnd s (findSchema_mem hs)) f hf, rfl,
              Or.inr ⟨x0, y, hl, hy, h2⟩⟩

/-- every entry of a loaded mapping is the validated form of an entry of the mapping given -/
theorem validate_mapOf_mem (env : Env) (n : Nat) (strict ik : Bool) (val : STy) (v0 : CVal)
    (out : List (CVal × CVal)) (kv' : CVal × CVal)
    (h : validate env (n + 1) strict (.mapOf ik val) v0 = .ok (some (.map out))) (hm : kv' ∈ out) :
    ∃ kvs kv, v0 = .map kvs ∧ kv ∈ kvs ∧ valKey ik kv.1 = .ok (some kv'.1) ∧
      validate env n strict val kv.2 = .ok (some kv'.2) := by
  unfold validate at h
  cases v0 <;> simp only [pure, Except.pure] at h
  all_goals (try (simp at h; done))
  rename_i kvs
  revert h
  generalize hq : sequenceV _ = q
  cases q with
  | error e => simp [bind, Except.bind]
  | ok o =>
    cases o with
    | none => simp [bind, Except.bind]
    | some l =>
      simp only [bind, Except.bind]
      intro h
      split at h
      · simp [unsupported] at h
      · simp only [Except.ok.injEq, Option.some.injEq, CVal.map.injEq] at h
        subst h
        obtain ⟨x, hx, hxe⟩ := sequenceV_mem _ l hq kv' hm
        obtain ⟨kv, hkv, rfl⟩ := List.mem_map.mp hx
        obtain ⟨hk, hv⟩ := valEntry_ok _ _ _ _ hxe
        exact ⟨kvs, kv, rfl, hkv, hk, hv⟩

theorem valKey_str (k k' : CVal) (h : valKey false k = .ok (some k')) : k' = k := by
  unfold valKey at h
  simp only [Bool.false_eq_true, if_false, pure, Except.pure, Except.ok.injEq] at h
  split at h
  · simp at h; exact h.symm
  · simp at h

/-- a `datetime` field given a `datetime`: accepted as it is, in either mode, whatever other
    alternatives the field has -/
theorem validate_datetime_ts (env : Env) (n : Nat) (strict : Bool) (alts : List Scalar) (us : Int) (off : Option Int) :
    validate env (n + 1) strict (.scalar (.datetime :: alts)) (.ts us off) = .ok (some (.ts us off)) := by
  simp [validate, valUnion, firstSome, valScalar, pure, Except.pure, bind, Except.bind]

/-- … given a bare date (lax mode): midnight of that day, without time zone -/
theorem validate_datetime_date (env : Env) (n : Nat) (d : Int) :
    validate env (n + 1) false (.scalar [.datetime]) (.date d) = .ok (some (.ts (d * usPerDay) none)) ∧
    validate env (n + 1) false (.scalar [.datetime, .null]) (.date d) = .ok (some (.ts (d * usPerDay) none)) := by
  constructor <;> simp [validate, valUnion, firstSome, valScalar, pure, Except.pure, bind, Except.bind]

theorem validate_datetime_null (env : Env) (n : Nat) (strict : Bool) :
    validate env (n + 1) strict (.scalar [.datetime, .null]) .null = .ok (some .null) := by
  cases strict <;> simp [validate, valUnion, firstSome, valScalar, pure, Except.pure, bind, Except.bind]

/-- only an options object validates as a model -/
theorem validate_model_input (env : Env) (n : Nat) (strict : Bool) (name : String) (v0 loaded : CVal)
    (h : validate env (n + 1) strict (.model name) v0 = .ok (some loaded)) : ∃ kvs, v0 = .map kvs := by
  unfold validate at h
  simp only at h
  split at h
  · simp [unsupported] at h
  · cases v0 <;> simp only [pure, Except.pure] at h
    all_goals (try (simp at h; done))
    exact ⟨_, rfl⟩

end Kskm.C16
