/-
  C06 helper lemmas: the declared-entry search of `_find_matching_zsk_policy_ecdsa/eddsa_alg`
  characterised with NO hypothesis on the declared entries.  The search strips the SEC 1 prefix
  relative to each declared entry's own algorithm number before it compares; an `<ECDSA>` entry whose
  number is not an ECDSA number makes that raise.  Hence: the search answers `true` exactly when a
  matching entry is met before any ill-formed entry of the same element kind.
-/
import Kskm.KsrPolicy
import KskmProofs.Lemmas.C06
set_option linter.unusedSimpArgs false
set_option linter.unusedVariables false
namespace Kskm.C06L

theorem ecdsaWithoutPrefix_ok_isEcdsa (pk : Bytes) (a : Nat) (p : Bytes)
    (h : ecdsaWithoutPrefix pk a = .ok p) : isAlgorithmEcdsa a = true := by
  unfold ecdsaWithoutPrefix expectedEcdsaKeySize at h
  simp only [isAlgorithmEcdsa, Bool.or_eq_true]
  by_cases h1 : (a == algECDSAP256) = true
  · exact Or.inl h1
  · by_cases h2 : (a == algECDSAP384) = true
    · exact Or.inr h2
    · simp [h1, h2, bind, Except.bind, err] at h

theorem eddsaWithoutPrefix_ok_isEddsa (pk : Bytes) (a : Nat) (p : Bytes)
    (h : eddsaWithoutPrefix pk a = .ok p) : isAlgorithmEddsa a = true := by
  unfold eddsaWithoutPrefix expectedEddsaKeySize at h
  simp only [isAlgorithmEddsa, Bool.or_eq_true]
  by_cases h1 : (a == algED25519) = true
  · exact Or.inl h1
  · by_cases h2 : (a == algED448) = true
    · exact Or.inr h2
    · simp [h1, h2, bind, Except.bind, err] at h

/-- ECDSA, no hypothesis: `true` iff a matching entry is reached before any `<ECDSA>` entry that
    carries a non-ECDSA number. -/
theorem matchEcdsaAlg_true_iff_ordered (key : Key) (pk : Bytes) : ∀ (algs : List AlgPolicy),
    (matchEcdsaAlg algs key pk = .ok true ↔
      ∃ pre a post, algs = pre ++ a :: post ∧
        (∀ x ∈ pre, x.kind = .ecdsa → isAlgorithmEcdsa x.algorithm = true) ∧
        a.kind = .ecdsa ∧ a.algorithm = key.algorithm ∧
        ∃ p, ecdsaWithoutPrefix pk a.algorithm = .ok p ∧ (getEcdsaPubkeySize p : Int) = a.bits)
  | [] => by simp [matchEcdsaAlg, pure, Except.pure]
  | a :: r => by
    have ih := matchEcdsaAlg_true_iff_ordered key pk r
    unfold matchEcdsaAlg
    by_cases hk : a.kind = .ecdsa
    · simp only [hk, bne_self_eq_false, Bool.false_eq_true, ↓reduceIte]
      cases hp : ecdsaWithoutPrefix pk a.algorithm with
      | error e =>
        simp only [bind, Except.bind]
        constructor
        · intro h; cases h
        · rintro ⟨pre, a', post, heq, hpre, hk', ha', q, hq, hqb⟩
          cases pre with
          | nil =>
            simp only [List.nil_append, List.cons.injEq] at heq
            obtain ⟨rfl, _⟩ := heq
            rw [hp] at hq; cases hq
          | cons x pre' =>
            simp only [List.cons_append, List.cons.injEq] at heq
            obtain ⟨rfl, _⟩ := heq
            have hal := hpre a (by simp) hk
            have hne : pk ≠ [] := by
              rintro rfl; exact ecdsaWithoutPrefix_nil _ q hq
            obtain ⟨p', hp'⟩ := ecdsaWithoutPrefix_ok pk a.algorithm hne hal
            rw [hp] at hp'; cases hp'
      | ok p =>
        simp only [bind, Except.bind]
        by_cases hm : (key.algorithm == a.algorithm && ((getEcdsaPubkeySize p : Int) == a.bits)) = true
        · simp only [hm, ↓reduceIte, pure, Except.pure, true_iff]
          simp only [Bool.and_eq_true, beq_iff_eq] at hm
          exact ⟨[], a, r, rfl, by simp, hk, hm.1.symm, p, hp, hm.2⟩
        · simp only [hm, Bool.false_eq_true, ↓reduceIte, ih]
          constructor
          · rintro ⟨pre, a', post, heq, hpre, h⟩
            refine ⟨a :: pre, a', post, by simp [heq], ?_, h⟩
            intro x hx hxk
            rcases List.mem_cons.mp hx with rfl | hx
            · exact ecdsaWithoutPrefix_ok_isEcdsa _ _ _ hp
            · exact hpre x hx hxk
          · rintro ⟨pre, a', post, heq, hpre, hk', ha', q, hq, hqb⟩
            cases pre with
            | nil =>
              simp only [List.nil_append, List.cons.injEq] at heq
              obtain ⟨rfl, _⟩ := heq
              rw [hp] at hq
              simp only [Except.ok.injEq] at hq
              subst hq
              exact absurd (by simp [ha', hqb]) hm
            | cons x pre' =>
              simp only [List.cons_append, List.cons.injEq] at heq
              obtain ⟨rfl, rfl⟩ := heq
              exact ⟨pre', a', post, rfl, fun y hy => hpre y (List.mem_cons_of_mem _ hy), hk', ha', q, hq, hqb⟩
    · have hk' : (a.kind != .ecdsa) = true := by simpa using hk
      simp only [hk', ↓reduceIte, ih]
      constructor
      · rintro ⟨pre, a', post, heq, hpre, h⟩
        refine ⟨a :: pre, a', post, by simp [heq], ?_, h⟩
        intro x hx hxk
        rcases List.mem_cons.mp hx with rfl | hx
        · exact absurd hxk hk
        · exact hpre x hx hxk
      · rintro ⟨pre, a', post, heq, hpre, hka, rest⟩
        cases pre with
        | nil =>
          simp only [List.nil_append, List.cons.injEq] at heq
          obtain ⟨rfl, _⟩ := heq
          exact absurd hka hk
        | cons x pre' =>
          simp only [List.cons_append, List.cons.injEq] at heq
          obtain ⟨rfl, rfl⟩ := heq
          exact ⟨pre', a', post, rfl, fun y hy => hpre y (List.mem_cons_of_mem _ hy), hka, rest⟩

/-- EdDSA, no hypothesis (same shape). -/
theorem matchEddsaAlg_true_iff_ordered (key : Key) (pk : Bytes) : ∀ (algs : List AlgPolicy),
    (matchEddsaAlg algs key pk = .ok true ↔
      ∃ pre a post, algs = pre ++ a :: post ∧
        (∀ x ∈ pre, x.kind = .eddsa → isAlgorithmEddsa x.algorithm = true) ∧
        a.kind = .eddsa ∧ a.algorithm = key.algorithm ∧
        ∃ p, eddsaWithoutPrefix pk a.algorithm = .ok p ∧ ((p.length * 8 : Nat) : Int) = a.bits)
  | [] => by simp [matchEddsaAlg, pure, Except.pure]
  | a :: r => by
    have ih := matchEddsaAlg_true_iff_ordered key pk r
    unfold matchEddsaAlg
    by_cases hk : a.kind = .eddsa
    · simp only [hk, bne_self_eq_false, Bool.false_eq_true, ↓reduceIte]
      cases hp : eddsaWithoutPrefix pk a.algorithm with
      | error e =>
        simp only [bind, Except.bind]
        constructor
        · intro h; cases h
        · rintro ⟨pre, a', post, heq, hpre, hk', ha', q, hq, hqb⟩
          cases pre with
          | nil =>
            simp only [List.nil_append, List.cons.injEq] at heq
            obtain ⟨rfl, _⟩ := heq
            rw [hp] at hq; cases hq
          | cons x pre' =>
            simp only [List.cons_append, List.cons.injEq] at heq
            obtain ⟨rfl, _⟩ := heq
            have hal := hpre a (by simp) hk
            have hne : pk ≠ [] := by
              rintro rfl; exact eddsaWithoutPrefix_nil _ q hq
            obtain ⟨p', hp'⟩ := eddsaWithoutPrefix_ok pk a.algorithm hne hal
            rw [hp] at hp'; cases hp'
      | ok p =>
        simp only [bind, Except.bind]
        by_cases hm : (key.algorithm == a.algorithm && (((p.length * 8 : Nat) : Int) == a.bits)) = true
        · simp only [hm, ↓reduceIte, pure, Except.pure, true_iff]
          simp only [Bool.and_eq_true, beq_iff_eq] at hm
          exact ⟨[], a, r, rfl, by simp, hk, hm.1.symm, p, hp, hm.2⟩
        · simp only [hm, Bool.false_eq_true, ↓reduceIte, ih]
          constructor
          · rintro ⟨pre, a', post, heq, hpre, h⟩
            refine ⟨a :: pre, a', post, by simp [heq], ?_, h⟩
            intro x hx hxk
            rcases List.mem_cons.mp hx with rfl | hx
            · exact eddsaWithoutPrefix_ok_isEddsa _ _ _ hp
            · exact hpre x hx hxk
          · rintro ⟨pre, a', post, heq, hpre, hk', ha', q, hq, hqb⟩
            cases pre with
            | nil =>
              simp only [List.nil_append, List.cons.injEq] at heq
              obtain ⟨rfl, _⟩ := heq
              rw [hp] at hq
              simp only [Except.ok.injEq] at hq
              subst hq
              exact absurd (by simp [ha', hqb]) hm
            | cons x pre' =>
              simp only [List.cons_append, List.cons.injEq] at heq
              obtain ⟨rfl, rfl⟩ := heq
              exact ⟨pre', a', post, rfl, fun y hy => hpre y (List.mem_cons_of_mem _ hy), hk', ha', q, hq, hqb⟩
    · have hk' : (a.kind != .eddsa) = true := by simpa using hk
      simp only [hk', ↓reduceIte, ih]
      constructor
      · rintro ⟨pre, a', post, heq, hpre, h⟩
        refine ⟨a :: pre, a', post, by simp [heq], ?_, h⟩
        intro x hx hxk
        rcases List.mem_cons.mp hx with rfl | hx
        · exact absurd hxk hk
        · exact hpre x hx hxk
      · rintro ⟨pre, a', post, heq, hpre, hka, rest⟩
        cases pre with
        | nil =>
          simp only [List.nil_append, List.cons.injEq] at heq
          obtain ⟨rfl, _⟩ := heq
          exact absurd hka hk
        | cons x pre' =>
          simp only [List.cons_append, List.cons.injEq] at heq
          obtain ⟨rfl, rfl⟩ := heq
          exact ⟨pre', a', post, rfl, fun y hy => hpre y (List.mem_cons_of_mem _ hy), hka, rest⟩

end Kskm.C06L
