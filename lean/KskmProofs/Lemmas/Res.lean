/- Helper lemmas about `Res` sequencing and the positional list views used by the rule models. -/
import Kskm.KsrPolicy
namespace Kskm

theorem ite_viol_ok_iff {c : Prop} [Decidable c] (r : Rule) :
    (if c then (violation r : Res Unit) else pure ()) = .ok () ↔ ¬ c := by
  by_cases h : c <;> simp [h, violation, pure, Except.pure]

theorem ite_ok_viol_iff {c : Prop} [Decidable c] (r : Rule) :
    (if c then (pure () : Res Unit) else violation r) = .ok () ↔ c := by
  by_cases h : c <;> simp [h, violation, pure, Except.pure]

@[simp] theorem violation_ne_ok (r : Rule) : (violation r : Res Unit) ≠ .ok () := by
  simp [violation]

@[simp] theorem err_ne_ok (k : ErrKind) : (err k : Res Unit) ≠ .ok () := by
  simp [err]

@[simp] theorem pure_eq_ok : (pure () : Res Unit) = .ok () := rfl

/-- membership in `adjacent` is exactly "consecutive positions" -/
theorem mem_adjacent {α} (l : List α) (p t : α) :
    (p, t) ∈ adjacent l ↔ ∃ i, l[i]? = some p ∧ l[i + 1]? = some t := by
  induction l with
  | nil => simp [adjacent]
  | cons a r ih =>
    cases r with
    | nil => simp [adjacent]
    | cons b r' =>
      simp only [adjacent, List.mem_cons, Prod.mk.injEq]
      constructor
      · rintro (⟨rfl, rfl⟩ | h)
        · exact ⟨0, by simp⟩
        · obtain ⟨i, h1, h2⟩ := ih.mp h
          exact ⟨i + 1, by simpa using h1, by simpa using h2⟩
      · rintro ⟨i, h1, h2⟩
        cases i with
        | zero => left; simp at h1 h2; exact ⟨h1.symm, h2.symm⟩
        | succ j => right; exact ih.mpr ⟨j, by simpa using h1, by simpa using h2⟩

end Kskm
