/-
  Reader correctness on the rendering of `WTree`s (KskmProofs/Lemmas/XmlRenderW.lean): PlainXml with an
  arbitrary one-line white space in front of every attribute.  Same route as KskmProofs/Lemmas/XmlReader.lean
  (whose string, scan and index lemmas are reused as they are): the attribute loop, the start-tag
  expressions, `_parse_tag`, `_find_end_of_element`, `parse_first_element`, one iteration of the element
  loop, the loop, the recursion.

  Where the white space goes in the reader:
    * the FIRST character of the white space between the element name and the first attribute is what
      `(\s+?)` of the start-tag expression takes (the shortest prefix after which the rest of the line matches);
    * the rest of it becomes the beginning of the `attrs` group and is removed by the first `attrs.strip()`
      of `_parse_attrs`, together with the white space before `>` / `/>`;
    * the white space between two attributes is consumed by `\s*` of the attribute expression.
-/
import KskmProofs.Lemmas.XmlReader
import KskmProofs.Lemmas.XmlRenderW
namespace Kskm.Xml

/-! ### attribute white space -/

theorem AttrWs.cons {cls : Classes} {w : List Char} (h : AttrWs cls w) : ∃ c r, w = c :: r := by
  cases w with
  | nil => exact absurd rfl h.1
  | cons c r => exact ⟨c, r, rfl⟩

theorem AttrWs.no_lt {cls : Classes} (hs : Sane cls) {w : List Char} (h : AttrWs cls w) : '<' ∉ w := by
  intro hc
  have := (h.2 '<' hc).2.1
  rw [hs.strip_lt] at this; cases this

theorem AttrWs.clean {cls : Classes} (hs : Sane cls) {w : List Char} (h : AttrWs cls w) :
    ∀ c ∈ w, c ≠ '>' ∧ c ≠ '\n' := by
  intro c hc
  refine ⟨?_, (h.2 c hc).2.2⟩
  rintro rfl
  have := (h.2 '>' hc).1
  rw [hs.space_gt] at this; cases this

theorem AttrWs.not_word {cls : Classes} (hs : Sane cls) {w : List Char} (h : AttrWs cls w) :
    ∀ c ∈ w, cls.isWord c = false := by
  intro c hc
  cases hw : cls.isWord c with
  | false => rfl
  | true =>
    have := hs.word_not_space c hw
    rw [(h.2 c hc).1] at this; cases this

/-! ### the attribute text -/

theorem attrText_no_lt {cls : Classes} (hs : Sane cls) {p : List Char × List Char} (hp : PlainAttr cls p) :
    '<' ∉ attrText p := by
  have hk := name_no_lt hs hp.1
  have hv : '<' ∉ p.2 := fun h => (hp.2.2 '<' h).2.2.1 rfl
  simp only [attrText, List.mem_cons, List.mem_append, not_or]
  exact ⟨hk, by decide, by decide, hv, by simp⟩

theorem wattrsText_no_lt {cls : Classes} (hs : Sane cls) : ∀ (a : WAttrs), PlainWAttrs cls a → '<' ∉ wattrsText a := by
  intro a
  induction a with
  | nil => intro _; simp [wattrsText]
  | cons q r ih =>
    intro ha
    have h1 := ha q (by simp)
    have hr := ih (fun x hx => ha x (List.mem_cons_of_mem _ hx))
    simp only [wattrsText, List.mem_append, not_or]
    exact ⟨h1.1.no_lt hs, attrText_no_lt hs h1.2, hr⟩

theorem wstartTag_eq (n : List Char) (a : WAttrs) (gap : List Char) : wstartTag n a gap = '<' :: wstartBody n a gap := rfl
theorem wselfTag_eq (n : List Char) (a : WAttrs) (gap : List Char) : wselfTag n a gap = '<' :: wselfBody n a gap := rfl

theorem wstartBody_no_lt {cls : Classes} (hs : Sane cls) {n : List Char} {a : WAttrs} {gap : List Char}
    (hn : PlainName cls n) (ha : PlainWAttrs cls a) (hg : Gap cls (wplain a) gap) : '<' ∉ wstartBody n a gap := by
  simp only [wstartBody, List.mem_append, not_or]
  exact ⟨⟨⟨name_no_lt hs hn, wattrsText_no_lt hs a ha⟩, gap_no_lt hs hg⟩, by simp⟩

theorem wselfBody_no_lt {cls : Classes} (hs : Sane cls) {n : List Char} {a : WAttrs} {gap : List Char}
    (hn : PlainName cls n) (ha : PlainWAttrs cls a) (hg : Gap cls (wplain a) gap) : '<' ∉ wselfBody n a gap := by
  simp only [wselfBody, List.mem_append, not_or]
  exact ⟨⟨⟨name_no_lt hs hn, wattrsText_no_lt hs a ha⟩, gap_no_lt hs hg⟩, by simp⟩

/-- what follows the name in a start tag: a white-space character (attributes) or `>`; never a word
    character -/
theorem wstartBody_shape {cls : Classes} (hs : Sane cls) (n : List Char) (a : WAttrs) (gap : List Char)
    (ha : PlainWAttrs cls a) (hg : Gap cls (wplain a) gap) :
    ∃ t x, cls.isWord t = false ∧ wstartBody n a gap = n ++ t :: x := by
  cases a with
  | nil =>
    have : gap = [] := hg.2 rfl
    exact ⟨'>', [], hs.word_gt, by simp [wstartBody, wattrsText, this]⟩
  | cons q r =>
    have hw := (ha q (by simp)).1
    obtain ⟨c, w', hcw⟩ := hw.cons
    refine ⟨c, w' ++ (attrText q.2 ++ wattrsText r) ++ gap ++ ['>'], hw.not_word hs c (by simp [hcw]), ?_⟩
    simp [wstartBody, wattrsText, hcw]

theorem wselfBody_shape {cls : Classes} (hs : Sane cls) (n : List Char) (a : WAttrs) (gap : List Char)
    (ha : PlainWAttrs cls a) (hane : a ≠ []) :
    ∃ t x, cls.isWord t = false ∧ wselfBody n a gap = n ++ t :: x := by
  cases a with
  | nil => exact absurd rfl hane
  | cons q r =>
    have hw := (ha q (by simp)).1
    obtain ⟨c, w', hcw⟩ := hw.cons
    refine ⟨c, w' ++ (attrText q.2 ++ wattrsText r) ++ gap ++ ['/', '>'], hw.not_word hs c (by simp [hcw]), ?_⟩
    simp [wselfBody, wattrsText, hcw]

theorem skip_wstartTag {cls : Classes} (hs : Sane cls) {n m pat : List Char} {a : WAttrs} {gap : List Char}
    (hn : PlainName cls n) (hm : PlainName cls m) (ha : PlainWAttrs cls a) (hg : Gap cls (wplain a) gap)
    (hne : m ≠ n) (hp : IsPat n pat) : Skip pat (wstartTag m a gap) := by
  obtain ⟨t, x, htw, hshape⟩ := wstartBody_shape hs m a gap ha hg
  rw [wstartTag_eq]
  exact skip_openTag hs hn hm hne hp hshape htw (wstartBody_no_lt hs hm ha hg)

theorem skip_wselfTag {cls : Classes} (hs : Sane cls) {n m pat : List Char} {a : WAttrs} {gap : List Char}
    (hn : PlainName cls n) (hm : PlainName cls m) (ha : PlainWAttrs cls a) (hg : Gap cls (wplain a) gap)
    (hane : a ≠ []) (hne : m ≠ n) (hp : IsPat n pat) : Skip pat (wselfTag m a gap) := by
  obtain ⟨t, x, htw, hshape⟩ := wselfBody_shape hs m a gap ha hane
  rw [wselfTag_eq]
  exact skip_openTag hs hn hm hne hp hshape htw (wselfBody_no_lt hs hm ha hg)

mutual
/-- scanning for a pattern of `n` passes over every plain subtree in which `n` does not occur -/
theorem skipW {cls : Classes} (hs : Sane cls) {n pat : List Char} (hn : PlainName cls n) (hp : IsPat n pat) :
    ∀ (t : WTree), PlainW cls t → ¬ occursW n t → Skip pat (renderW t)
  | .leaf m a gap text, hpl, ho => by
    obtain ⟨hm, ha, hg, htext⟩ := hpl
    have hne : m ≠ n := fun h => ho h
    rw [renderW]
    exact (Skip.append (skip_wstartTag hs hn hm ha hg hne hp) (skip_text hp htext.1)).append
      (skip_endTag hs hn hm hne hp)
  | .empty m a gap, hpl, ho => by
    obtain ⟨hm, ha, hg, hane⟩ := hpl
    have hne : m ≠ n := fun h => ho h
    rw [renderW]
    exact skip_wselfTag hs hn hm ha hg hane hne hp
  | .node m a gap pre first rest post, hpl, ho => by
    obtain ⟨hm, ha, hg, hpre, hpost, hf, hr, _, _⟩ := hpl
    have hne : m ≠ n := fun h => ho (Or.inl h)
    have hof : ¬ occursW n first := fun h => ho (Or.inr (Or.inl h))
    have hor : ¬ occursWF n rest := fun h => ho (Or.inr (Or.inr h))
    rw [renderW]
    exact ((((Skip.append (skip_wstartTag hs hn hm ha hg hne hp) (skip_text hp (hpre.no_lt hs))).append
      (skipW hs hn hp first hf hof)).append (skipWF hs hn hp rest hr hor)).append
      (skip_text hp (hpost.no_lt hs))).append (skip_endTag hs hn hm hne hp)
theorem skipWF {cls : Classes} (hs : Sane cls) {n pat : List Char} (hn : PlainName cls n) (hp : IsPat n pat) :
    ∀ (f : WForest), PlainWF cls f → ¬ occursWF n f → Skip pat (renderWF f)
  | .nil, _, _ => by rw [renderWF]; exact Skip.nil _
  | .cons sep t f, hpl, ho => by
    rw [renderWF]
    exact ((skip_text hp (hpl.1.no_lt hs)).append (skipW hs hn hp t hpl.2.1 (fun h => ho (Or.inl h)))).append
      (skipWF hs hn hp f hpl.2.2 (fun h => ho (Or.inr h)))
end

/-! ### shapes of the rendering -/

theorem renderW_shape (t : WTree) : ∃ r, renderW t = '<' :: r ∧ EndsWith '>' (renderW t) := by
  cases t with
  | leaf n a gap text =>
    refine ⟨_, by rw [renderW, wstartTag]; rfl, ?_⟩
    rw [renderW]; exact (endTag_endsGt n).append_left _
  | empty n a gap =>
    refine ⟨_, by rw [renderW, wselfTag], ?_⟩
    rw [renderW]
    exact ⟨'<' :: (n ++ wattrsText a ++ gap ++ ['/']), by simp [wselfTag, wselfBody]⟩
  | node n a gap pre first rest post =>
    refine ⟨_, by rw [renderW, wstartTag]; simp only [List.cons_append, List.append_assoc]; rfl, ?_⟩
    rw [renderW]
    exact (endTag_endsGt n).append_left _

theorem renderW_ne_nil (t : WTree) : renderW t ≠ [] := by
  obtain ⟨r, hr, _⟩ := renderW_shape t
  rw [hr]; simp

theorem renderWF_endsGt : ∀ (f : WForest), f ≠ .nil → EndsWith '>' (renderWF f)
  | .nil, h => absurd rfl h
  | .cons sep t .nil, _ => by
    rw [renderWF, renderWF, List.append_nil]
    obtain ⟨_, _, he⟩ := renderW_shape t
    exact he.append_left _
  | .cons sep t (.cons sep' t' f'), _ => by
    rw [renderWF]
    exact (renderWF_endsGt (.cons sep' t' f') (by simp)).append_left _

/-- the text of the children of a node -/
def levelTextW (first : WTree) (rest : WForest) : List Char := renderW first ++ renderWF rest

theorem levelTextW_shape (first : WTree) (rest : WForest) :
    ∃ r, levelTextW first rest = '<' :: r ∧ EndsWith '>' (levelTextW first rest) := by
  obtain ⟨r, hr, he⟩ := renderW_shape first
  refine ⟨r ++ renderWF rest, by simp [levelTextW, hr], ?_⟩
  unfold levelTextW
  cases rest with
  | nil => rw [renderWF, List.append_nil]; exact he
  | cons sep t f => exact (renderWF_endsGt _ (by simp)).append_left _

/-! ### the attribute text as the attribute loop sees it -/

/-- the attribute text without the white space in front of the first attribute -/
def wattrsBody : WAttrs → List Char
  | [] => []
  | q :: r => attrText q.2 ++ wattrsText r

theorem wattrsText_cons (q : List Char × (List Char × List Char)) (r : WAttrs) :
    wattrsText (q :: r) = q.1 ++ wattrsBody (q :: r) := rfl

theorem attrText_endsQuote (p : List Char × List Char) : EndsWith '"' (attrText p) :=
  ⟨p.1 ++ '=' :: '"' :: p.2, by simp [attrText]⟩

theorem wattrsText_endsQuote : ∀ (a : WAttrs), a ≠ [] → EndsWith '"' (wattrsText a)
  | [], h => absurd rfl h
  | [q], _ => by
    simp only [wattrsText, List.append_nil]
    exact (attrText_endsQuote q.2).append_left _
  | q :: q' :: r, _ => by
    rw [wattrsText]
    exact ((wattrsText_endsQuote (q' :: r) (by simp)).append_left _).append_left _

theorem wattrsBody_endsQuote : ∀ (a : WAttrs), a ≠ [] → EndsWith '"' (wattrsBody a)
  | [], h => absurd rfl h
  | [q], _ => by
    simp only [wattrsBody, wattrsText, List.append_nil]
    exact attrText_endsQuote q.2
  | q :: q' :: r, _ => by
    rw [wattrsBody]
    exact (wattrsText_endsQuote (q' :: r) (by simp)).append_left _

theorem attrText_clean {cls : Classes} (hs : Sane cls) {p : List Char × List Char} (hp : PlainAttr cls p) :
    ∀ c ∈ attrText p, c ≠ '>' ∧ c ≠ '\n' := by
  intro c hc
  have hword : ∀ c ∈ p.1, c ≠ '>' ∧ c ≠ '\n' := by
    intro c hc
    have hw := hp.1.2 c hc
    constructor
    · rintro rfl; rw [hs.word_gt] at hw; cases hw
    · rintro rfl
      have := hs.word_not_strip _ hw
      rw [hs.strip_nl] at this; cases this
  simp only [attrText, List.mem_cons, List.mem_append, List.mem_nil_iff, or_false] at hc
  rcases hc with hc | rfl | rfl | hc | rfl
  · exact hword c hc
  · decide
  · decide
  · exact ⟨(hp.2.2 c hc).2.2.2, (hp.2.2 c hc).2.1⟩
  · decide

/-- no `>` and no newline in the attribute text -/
theorem wattrsText_clean {cls : Classes} (hs : Sane cls) : ∀ (a : WAttrs), PlainWAttrs cls a →
    ∀ c ∈ wattrsText a, c ≠ '>' ∧ c ≠ '\n' := by
  intro a
  induction a with
  | nil => intro _ c hc; simp [wattrsText] at hc
  | cons q r ih =>
    intro ha c hc
    have h1 := ha q (by simp)
    simp only [wattrsText, List.mem_append] at hc
    rcases hc with hc | hc | hc
    · exact h1.1.clean hs c hc
    · exact attrText_clean hs h1.2 c hc
    · exact ih (fun x hx => ha x (List.mem_cons_of_mem _ hx)) c hc

theorem wattrsBody_clean {cls : Classes} (hs : Sane cls) (a : WAttrs) (ha : PlainWAttrs cls a) :
    ∀ c ∈ wattrsBody a, c ≠ '>' ∧ c ≠ '\n' := by
  intro c hc
  cases a with
  | nil => simp [wattrsBody] at hc
  | cons q r =>
    exact wattrsText_clean hs (q :: r) ha c (by rw [wattrsText_cons]; exact List.mem_append_right _ hc)

theorem wattrsBody_head {cls : Classes} {q : List Char × (List Char × List Char)} {r : WAttrs}
    (hp : PlainAttr cls q.2) : ∃ c x, wattrsBody (q :: r) = c :: x ∧ cls.isWord c = true := by
  obtain ⟨c, k, hk, hw⟩ := head_word hp.1
  exact ⟨c, k ++ '=' :: '"' :: (q.2.2 ++ ['"']) ++ wattrsText r, by simp [wattrsBody, attrText, hk], hw⟩

/-! ### `^(\w+)="(.+?)"\s*(.*)` and the attribute loop on the attribute text -/

/-- one attribute is read and ALL the white space in front of the next one is skipped (`\s*`) -/
theorem matchAttr_plainW {cls : Classes} (hs : Sane cls) (q : List Char × (List Char × List Char)) (r : WAttrs)
    (hq : PlainAttr cls q.2) (hr : PlainWAttrs cls r) :
    matchAttr cls (wattrsBody (q :: r)) = some (q.2.1, q.2.2, wattrsBody r) := by
  obtain ⟨w, k, v⟩ := q
  obtain ⟨hk, hvne, hv⟩ := hq
  simp only at hk hvne hv
  cases v with
  | nil => exact absurd rfl hvne
  | cons c rv =>
    have hbody : wattrsBody ((w, k, c :: rv) :: r) = k ++ '=' :: ('"' :: c :: (rv ++ '"' :: wattrsText r)) := by
      simp [wattrsBody, attrText]
    obtain ⟨ht, hd⟩ := takeWhile_run cls.isWord k '=' ('"' :: c :: (rv ++ '"' :: wattrsText r)) hk.2 hs.word_eq
    have hkne : (k.isEmpty) = false := by
      cases k with
      | nil => exact absurd rfl hk.1
      | cons _ _ => rfl
    have hc : c ≠ '\n' := (hv c (by simp)).2.1
    have hstop : ∀ x ∈ rv, (fun x => decide (x ≠ '"') && decide (x ≠ '\n')) x = true := by
      intro x hx
      have := hv x (List.mem_cons_of_mem _ hx)
      simp [this.1, this.2.1]
    obtain ⟨ht2, hd2⟩ := takeWhile_run (fun x => decide (x ≠ '"') && decide (x ≠ '\n')) rv '"' (wattrsText r)
      hstop (by simp)
    have hrest : ((wattrsText r).dropWhile cls.isSpace).takeWhile (fun x => decide (x ≠ '\n')) = wattrsBody r := by
      cases r with
      | nil => simp [wattrsText, wattrsBody]
      | cons q' r' =>
        have hq' := hr q' (by simp)
        obtain ⟨c', x', hx', hw'⟩ := wattrsBody_head (r := r') hq'.2
        have hsp : cls.isSpace c' = false := hs.word_not_space _ hw'
        rw [wattrsText_cons, hx']
        obtain ⟨_, hdw⟩ := takeWhile_run cls.isSpace q'.1 c' x' (fun y hy => (hq'.1.2 y hy).1) hsp
        rw [hdw, ← hx']
        apply takeWhile_all
        intro y hy
        have := (wattrsBody_clean hs (q' :: r') hr y hy).2
        simp [this]
    unfold matchAttr
    simp only [hbody, ht, hd, hkne, Bool.false_eq_true, ↓reduceIte, hc, hd2, ht2, hrest]

/-- **The attribute loop reads the attribute text**: every `k="v"` in order, later values winning,
    whatever white space stands between them. -/
theorem parseAttrs_plainW {cls : Classes} (hs : Sane cls) (sw : Switches) : ∀ (a : WAttrs),
    PlainWAttrs cls a → ∀ (fuel : Nat) (acc : Attrs), (wattrsBody a).length < fuel →
      parseAttrs cls sw fuel (wattrsBody a) acc = .ok ((wplain a).foldl (fun acc p => dictSet acc p.1 p.2) acc) := by
  intro a
  induction a with
  | nil => intro _ fuel acc _; simp [wattrsBody, wplain, parseAttrs_nil]
  | cons q r ih =>
    intro ha fuel acc hf
    have hq := ha q (by simp)
    have hr : PlainWAttrs cls r := fun x hx => ha x (List.mem_cons_of_mem _ hx)
    cases fuel with
    | zero => omega
    | succ f =>
      obtain ⟨c, x, hx, hw⟩ := wattrsBody_head (r := r) hq.2
      have hne : (wattrsBody (q :: r)).isEmpty = false := by rw [hx]; rfl
      have hstrip : strip cls.isStrip (wattrsBody (q :: r)) = wattrsBody (q :: r) := by
        rw [hx]
        apply strip_self cls.isStrip c '"' x (hs.word_not_strip _ hw) hs.strip_quote
        rw [← hx]; exact wattrsBody_endsQuote _ (by simp)
      have hm := matchAttr_plainW hs q r hq.2 hr
      rw [parseAttrs]
      simp only [hne, Bool.false_eq_true, ↓reduceIte, hstrip, hm, wplain, List.map_cons, List.foldl_cons]
      apply ih hr
      have hlen : (wattrsBody r).length < (wattrsBody (q :: r)).length := by
        have := matchAttr_consumes cls _ _ _ _ hm
        omega
      omega

/-- white space around the attribute text — the tail of the white space after the element name, and
    the white space before `>` / `/>` — is dropped by the first `strip` -/
theorem parseAttrs_padded {cls : Classes} (hs : Sane cls) (sw : Switches) (q : List Char × (List Char × List Char))
    (r : WAttrs) (w' gap : List Char) (hq : PlainAttr cls q.2) (hw' : ∀ c ∈ w', cls.isStrip c = true)
    (hg : ∀ c ∈ gap, cls.isStrip c = true) (fuel : Nat) (acc : Attrs) :
    parseAttrs cls sw (fuel + 1) (w' ++ wattrsBody (q :: r) ++ gap) acc =
      parseAttrs cls sw (fuel + 1) (wattrsBody (q :: r)) acc := by
  obtain ⟨c, x, hx, hw⟩ := wattrsBody_head (r := r) hq
  have he : EndsWith '"' (c :: x) := by rw [← hx]; exact wattrsBody_endsQuote _ (by simp)
  have h1 : strip cls.isStrip (w' ++ wattrsBody (q :: r) ++ gap) = wattrsBody (q :: r) := by
    rw [hx]
    exact strip_padded cls.isStrip c '"' x w' gap hw' hg (hs.word_not_strip _ hw) hs.strip_quote he
  have h2 : strip cls.isStrip (wattrsBody (q :: r)) = wattrsBody (q :: r) := by
    rw [hx]
    exact strip_self cls.isStrip c '"' x (hs.word_not_strip _ hw) hs.strip_quote he
  have hne1 : (w' ++ wattrsBody (q :: r) ++ gap).isEmpty = false := by
    rw [hx]; cases w' <;> rfl
  have hne2 : (wattrsBody (q :: r)).isEmpty = false := by rw [hx]; rfl
  rw [parseAttrs, parseAttrs]
  simp only [hne1, hne2, h1, h2]

/-! ### the start-tag expressions on a rendered start tag -/

/-- what the expression captures as `attrs`: the white space after its first character, the attribute
    text, the white space before `>` -/
theorem wattrsGap_facts {cls : Classes} (hs : Sane cls) (q : List Char × (List Char × List Char)) (r : WAttrs)
    (c : Char) (w' gap : List Char) (ha : PlainWAttrs cls (q :: r)) (hcw : q.1 = c :: w')
    (hg : Gap cls (wplain (q :: r)) gap) :
    w' ++ wattrsBody (q :: r) ++ gap ≠ [] ∧ (∀ y ∈ w' ++ wattrsBody (q :: r) ++ gap, y ≠ '>' ∧ y ≠ '\n') ∧
    (∃ r' x, w' ++ wattrsBody (q :: r) ++ gap = r' ++ [x] ∧ x ≠ '/') := by
  have hq := ha q (by simp)
  obtain ⟨b, x, hx, _⟩ := wattrsBody_head (r := r) hq.2
  refine ⟨by rw [hx]; simp, ?_, ?_⟩
  · intro y hy
    rcases List.mem_append.mp hy with hy | hy
    · rcases List.mem_append.mp hy with hy | hy
      · exact hq.1.clean hs y (by rw [hcw]; exact List.mem_cons_of_mem _ hy)
      · exact wattrsBody_clean hs _ ha y hy
    · have := hg.1 y hy
      refine ⟨?_, this.2⟩
      rintro rfl
      rw [hs.strip_gt] at this; cases this.1
  · rcases List.eq_nil_or_concat gap with hgn | ⟨g', y, hgy⟩
    · obtain ⟨r', hr'⟩ := wattrsBody_endsQuote (q :: r) (by simp)
      exact ⟨w' ++ r', '"', by rw [hgn, List.append_nil, hr', List.append_assoc], by decide⟩
    · refine ⟨w' ++ wattrsBody (q :: r) ++ g', y, by rw [hgy]; simp, ?_⟩
      rintro rfl
      have := (hg.1 '/' (by rw [hgy]; simp)).1
      rw [hs.strip_slash] at this; cases this

theorem matchTag1_plainW {cls : Classes} (hs : Sane cls) (n : List Char) (q : List Char × (List Char × List Char))
    (r : WAttrs) (c : Char) (w' gap sl rest : List Char) (hn : PlainName cls n) (ha : PlainWAttrs cls (q :: r))
    (hcw : q.1 = c :: w') (hg : Gap cls (wplain (q :: r)) gap) (hsl : sl = [] ∨ sl = ['/']) :
    matchTag1 cls ('<' :: (n ++ wattrsText (q :: r) ++ gap ++ sl ++ '>' :: rest)) =
      some (n, [c], w' ++ wattrsBody (q :: r) ++ gap, sl) := by
  have hq := ha q (by simp)
  have hxml : '<' :: (n ++ wattrsText (q :: r) ++ gap ++ sl ++ '>' :: rest) =
      '<' :: (n ++ c :: (w' ++ wattrsBody (q :: r) ++ gap ++ sl ++ '>' :: rest)) := by
    simp [wattrsText_cons, hcw, List.append_assoc]
  have hcmem : c ∈ q.1 := by rw [hcw]; simp
  obtain ⟨ht, hd⟩ := takeWhile_run cls.isWord n c (w' ++ wattrsBody (q :: r) ++ gap ++ sl ++ '>' :: rest) hn.2
    (hq.1.not_word hs c hcmem)
  have hne : n.isEmpty = false := by
    cases n with
    | nil => exact absurd rfl hn.1
    | cons _ _ => rfl
  obtain ⟨h1, h2, h3⟩ := wattrsGap_facts hs q r c w' gap ha hcw hg
  have hm := matchAttrsSlash_plain (w' ++ wattrsBody (q :: r) ++ gap) sl rest h1 h2 h3 hsl
  rw [hxml]
  unfold matchTag1
  simp only [ht, hd, hne, Bool.false_eq_true, ↓reduceIte]
  unfold findWs
  simp only [(hq.1.2 c hcmem).1, ↓reduceIte, hm, List.nil_append]

theorem foldl_wplain (a : WAttrs) (acc : Attrs) :
    (wplain a).foldl (fun acc p => dictSet acc p.1 p.2) acc = a.foldl (fun acc q => dictSet acc q.2.1 q.2.2) acc := by
  simp [wplain, List.foldl_map]

theorem parseAttrs_tagW {cls : Classes} (hs : Sane cls) (sw : Switches) (q : List Char × (List Char × List Char))
    (r : WAttrs) (c : Char) (w' gap : List Char) (ha : PlainWAttrs cls (q :: r)) (hcw : q.1 = c :: w')
    (hg : Gap cls (wplain (q :: r)) gap) :
    parseAttrs cls sw ((w' ++ wattrsBody (q :: r) ++ gap).length + 1) (w' ++ wattrsBody (q :: r) ++ gap) [] =
      .ok (attrsDict (wplain (q :: r))) := by
  have hq := ha q (by simp)
  rw [parseAttrs_padded hs sw q r w' gap hq.2
    (fun y hy => (hq.1.2 y (by rw [hcw]; exact List.mem_cons_of_mem _ hy)).2.1) (fun y hy => (hg.1 y hy).1)]
  exact parseAttrs_plainW hs sw (q :: r) ha _ [] (by simp only [List.length_append]; omega)

/-- **`_parse_tag` reads a rendered start tag**: the name, the attributes (None when there are none),
    and the index right after the tag. -/
theorem parseTag_plainW {cls : Classes} (hs : Sane cls) (sw : Switches) (n : List Char) (a : WAttrs)
    (gap rest : List Char) (hn : PlainName cls n) (ha : PlainWAttrs cls a) (hg : Gap cls (wplain a) gap) :
    parseTag cls sw (wstartTag n a gap ++ rest) = .ok (n, attrsOpt (wplain a), (wstartTag n a gap).length) := by
  cases a with
  | nil =>
    have hgap : gap = [] := hg.2 rfl
    subst hgap
    have hxml : wstartTag n [] [] ++ rest = '<' :: (n ++ '>' :: rest) := by simp [wstartTag, wstartBody, wattrsText]
    obtain ⟨h1, h2⟩ := matchTag_attrless hs n rest hn
    rw [hxml]
    unfold parseTag
    simp only [h1, h2]
    simp [attrsOpt, wplain, wstartTag, wstartBody, wattrsText]
  | cons q r =>
    obtain ⟨c, w', hcw⟩ := (ha q (by simp)).1.cons
    have hxml : wstartTag n (q :: r) gap ++ rest = '<' :: (n ++ wattrsText (q :: r) ++ gap ++ [] ++ '>' :: rest) := by
      simp [wstartTag, wstartBody, List.append_assoc]
    have h1 := matchTag1_plainW hs n q r c w' gap [] rest hn ha hcw hg (Or.inl rfl)
    have h2 := parseAttrs_tagW hs sw q r c w' gap ha hcw hg
    rw [hxml]
    unfold parseTag
    simp only [h1, h2]
    simp [attrsOpt, wplain, wstartTag, wstartBody, wattrsText_cons, hcw]
    omega

/-- … and a rendered self-closing tag -/
theorem parseTag_selfW {cls : Classes} (hs : Sane cls) (sw : Switches) (n : List Char)
    (q : List Char × (List Char × List Char)) (r : WAttrs) (gap rest : List Char) (hn : PlainName cls n)
    (ha : PlainWAttrs cls (q :: r)) (hg : Gap cls (wplain (q :: r)) gap) :
    parseTag cls sw (wselfTag n (q :: r) gap ++ rest) =
      .ok (n, attrsOpt (wplain (q :: r)), (wselfTag n (q :: r) gap).length) := by
  obtain ⟨c, w', hcw⟩ := (ha q (by simp)).1.cons
  have hxml : wselfTag n (q :: r) gap ++ rest = '<' :: (n ++ wattrsText (q :: r) ++ gap ++ ['/'] ++ '>' :: rest) := by
    simp [wselfTag, wselfBody, List.append_assoc]
  have h1 := matchTag1_plainW hs n q r c w' gap ['/'] rest hn ha hcw hg (Or.inr rfl)
  have h2 := parseAttrs_tagW hs sw q r c w' gap ha hcw hg
  rw [hxml]
  unfold parseTag
  simp only [h1, h2]
  simp [attrsOpt, wplain, wselfTag, wselfBody, wattrsText_cons, hcw]
  omega

/-! ### the self-closing test on a rendered tag -/

theorem wstartTag_last2 {cls : Classes} (hs : Sane cls) (n : List Char) (a : WAttrs) (gap : List Char)
    (hn : PlainName cls n) (hg : Gap cls (wplain a) gap) :
    ∃ pre x, wstartTag n a gap = pre ++ [x, '>'] ∧ x ≠ '/' := by
  have : ∃ r x, n ++ wattrsText a ++ gap = r ++ [x] ∧ x ≠ '/' := by
    rcases List.eq_nil_or_concat gap with hgn | ⟨g', y, hgy⟩
    · subst hgn
      cases a with
      | nil =>
        obtain ⟨r, x, hrx⟩ : ∃ r x, n = r ++ [x] := by
          rcases List.eq_nil_or_concat n with h | ⟨r, x, h⟩
          · exact absurd h hn.1
          · exact ⟨r, x, by simpa using h⟩
        refine ⟨r, x, by simp [wattrsText, hrx], ?_⟩
        rintro rfl
        have := hn.2 '/' (by rw [hrx]; simp)
        rw [hs.word_slash] at this; cases this
      | cons p q =>
        obtain ⟨r, hr⟩ := wattrsText_endsQuote (p :: q) (by simp)
        exact ⟨n ++ r, '"', by rw [hr]; simp, by decide⟩
    · refine ⟨n ++ wattrsText a ++ g', y, by rw [hgy]; simp, ?_⟩
      rintro rfl
      have := (hg.1 '/' (by rw [hgy]; simp)).1
      rw [hs.strip_slash] at this; cases this
  obtain ⟨r, x, hrx, hx⟩ := this
  exact ⟨'<' :: r, x, by simp only [wstartTag, wstartBody, hrx]; simp, hx⟩

/-! ### `_find_end_of_element` on a rendered element -/

/-- the own start tag either IS the pattern's beginning (then `index` answers 0) or is passed over -/
theorem own_openW {cls : Classes} (hs : Sane cls) (n : List Char) (a : WAttrs) (gap : List Char)
    (hn : PlainName cls n) (ha : PlainWAttrs cls a) (hg : Gap cls (wplain a) gap) (t : Char) (ht : t = '>' ∨ t = ' ') :
    (∃ x, wstartTag n a gap = ('<' :: (n ++ [t])) ++ x) ∨ Skip ('<' :: (n ++ [t])) (wstartTag n a gap) := by
  obtain ⟨t', x, htw', hshape⟩ := wstartBody_shape hs n a gap ha hg
  by_cases htt : t = t'
  · left
    exact ⟨x, by rw [wstartTag_eq, hshape, htt]; simp⟩
  · right
    have htw : cls.isWord t = false := by
      rcases ht with rfl | rfl
      · exact hs.word_gt
      · exact hs.word_sp
    rw [wstartTag_eq]
    apply skip_tag _ _ (wstartBody_no_lt hs hn ha hg)
    intro tail h
    have h1 := (List.cons_prefix_cons.mp h).2
    rw [hshape] at h1
    have := word_run_prefix cls.isWord n n t t' (x ++ tail) hn.2 hn.2 htw htw'
      (by simpa [List.append_assoc] using h1)
    exact htt this.2

theorem nested_check_plainW {cls : Classes} (hs : Sane cls) (n : List Char) (a : WAttrs) (gap B tail : List Char)
    (hn : PlainName cls n) (ha : PlainWAttrs cls a) (hg : Gap cls (wplain a) gap) (t : Char) (ht : t = '>' ∨ t = ' ')
    (hB : Skip ('<' :: (n ++ [t])) B) :
    nestedStep (wstartTag n a gap ++ B ++ endTag n ++ tail) (endTag n) ('<' :: (n ++ [t]))
      ((wstartTag n a gap).length + B.length) = (wstartTag n a gap).length + B.length := by
  apply nestedStep_eq
  rw [indexFrom_zero]
  rcases own_openW hs n a gap hn ha hg t ht with ⟨x, hx⟩ | hskip
  · right
    refine ⟨0, ?_, Or.inl rfl⟩
    rw [hx]
    simp only [List.append_assoc]
    exact findAux_hit _ _ 0 (by simp)
  · have h1 : findAux ('<' :: (n ++ [t])) (wstartTag n a gap ++ B ++ endTag n ++ tail) 0 =
        findAux ('<' :: (n ++ [t])) tail ((wstartTag n a gap).length + B.length + (endTag n).length) := by
      rw [List.append_assoc, List.append_assoc, hskip, hB, skip_own_endTag hs hn t]
      simp
    rw [h1]
    cases hf : findAux ('<' :: (n ++ [t])) tail ((wstartTag n a gap).length + B.length + (endTag n).length) with
    | none => exact Or.inl rfl
    | some i =>
      right
      obtain ⟨k, hk, _, _⟩ := findAux_spec _ _ _ _ hf
      exact ⟨i, rfl, Or.inr (by omega)⟩

/-- **`_find_end_of_element` finds the element's own end tag** when its body is passed over by the
    three patterns (no `<`-text, no element of the same name inside). -/
theorem findEnd_plainW {cls : Classes} (hs : Sane cls) (n : List Char) (a : WAttrs) (gap B tail : List Char)
    (hn : PlainName cls n) (ha : PlainWAttrs cls a) (hg : Gap cls (wplain a) gap)
    (hB : ∀ pat, IsPat n pat → Skip pat B) :
    findEndOfElement (wstartTag n a gap ++ B ++ endTag n ++ tail) (wstartTag n a gap).length n =
      some ((wstartTag n a gap).length + B.length, (wstartTag n a gap).length + B.length + (endTag n).length) := by
  have hidx : indexFrom (endTag n) (wstartTag n a gap ++ B ++ endTag n ++ tail) (wstartTag n a gap).length =
      some ((wstartTag n a gap).length + B.length) := by
    unfold indexFrom
    have hle : ¬ (wstartTag n a gap).length > (wstartTag n a gap ++ B ++ endTag n ++ tail).length := by
      simp only [List.length_append]; omega
    simp only [hle, ↓reduceIte]
    have hdrop : (wstartTag n a gap ++ B ++ endTag n ++ tail).drop (wstartTag n a gap).length = B ++ (endTag n ++ tail) := by
      rw [List.append_assoc, List.append_assoc, List.drop_left']
      rfl
    rw [hdrop, hB _ IsPat.close]
    exact findAux_hit _ _ _ (by simp [endTag])
  unfold findEndOfElement
  simp only [hidx]
  rw [nested_check_plainW hs n a gap B tail hn ha hg '>' (Or.inl rfl) (hB _ IsPat.openGt),
    nested_check_plainW hs n a gap B tail hn ha hg ' ' (Or.inr rfl) (hB _ IsPat.openSp)]

/-! ### `parse_first_element` on a rendered element -/

theorem parseFirstElement_plainW {cls : Classes} (hs : Sane cls) (sw : Switches) (n : List Char) (a : WAttrs)
    (gap B tail : List Char) (hn : PlainName cls n) (ha : PlainWAttrs cls a) (hg : Gap cls (wplain a) gap)
    (hB : ∀ pat, IsPat n pat → Skip pat B) :
    parseFirstElement cls sw (wstartTag n a gap ++ B ++ endTag n ++ tail) =
      .ok ({ name := n, attrs := attrsOpt (wplain a), value := strip cls.isStrip B },
           (wstartTag n a gap ++ B ++ endTag n).length) := by
  have htag : parseTag cls sw (wstartTag n a gap ++ B ++ endTag n ++ tail) =
      .ok (n, attrsOpt (wplain a), (wstartTag n a gap).length) := by
    have := parseTag_plainW hs sw n a gap (B ++ endTag n ++ tail) hn ha hg
    simpa [List.append_assoc] using this
  obtain ⟨pre, x, hpre, hx⟩ := wstartTag_last2 hs n a gap hn hg
  have hnot : ¬ slice (wstartTag n a gap ++ B ++ endTag n ++ tail) ((wstartTag n a gap).length - 2)
      (wstartTag n a gap).length = ['/', '>'] := by
    have := slice_last2 pre (B ++ endTag n ++ tail) x '>'
    rw [← hpre] at this
    have h2 : wstartTag n a gap ++ (B ++ endTag n ++ tail) = wstartTag n a gap ++ B ++ endTag n ++ tail := by
      simp [List.append_assoc]
    rw [h2] at this
    rw [this]
    intro h
    simp only [List.cons.injEq, and_true] at h
    exact hx h
  unfold parseFirstElement
  simp only [htag, hnot, ↓reduceIte, findEnd_plainW hs n a gap B tail hn ha hg hB]
  have hsl : slice (wstartTag n a gap ++ B ++ endTag n ++ tail) (wstartTag n a gap).length
      ((wstartTag n a gap).length + B.length) = B := by
    have := slice_mid (wstartTag n a gap) B (endTag n ++ tail)
    simpa [List.append_assoc] using this
  rw [hsl]
  simp [List.length_append, Nat.add_assoc]

/-- a rendered self-closing element: empty value, ends right after the tag -/
theorem parseFirstElement_selfW {cls : Classes} (hs : Sane cls) (sw : Switches) (n : List Char)
    (q : List Char × (List Char × List Char)) (r : WAttrs) (gap tail : List Char) (hn : PlainName cls n)
    (ha : PlainWAttrs cls (q :: r)) (hg : Gap cls (wplain (q :: r)) gap) :
    parseFirstElement cls sw (wselfTag n (q :: r) gap ++ tail) =
      .ok ({ name := n, attrs := attrsOpt (wplain (q :: r)), value := [] }, (wselfTag n (q :: r) gap).length) := by
  have htag := parseTag_selfW hs sw n q r gap tail hn ha hg
  have hshape : wselfTag n (q :: r) gap = ('<' :: (n ++ wattrsText (q :: r) ++ gap)) ++ ['/', '>'] := by
    simp [wselfTag, wselfBody, List.append_assoc]
  have hsl : slice (wselfTag n (q :: r) gap ++ tail) ((wselfTag n (q :: r) gap).length - 2)
      (wselfTag n (q :: r) gap).length = ['/', '>'] := by
    have := slice_last2 ('<' :: (n ++ wattrsText (q :: r) ++ gap)) tail '/' '>'
    rw [← hshape] at this
    exact this
  unfold parseFirstElement
  simp only [htag, hsl, ↓reduceIte]

/-- the stripped text between the tags of a rendered element -/
def contentOfW : WTree → List Char
  | .leaf _ _ _ text => text
  | .empty _ _ _ => []
  | .node _ _ _ _ first rest _ => levelTextW first rest

/-- **`parse_first_element` reads a rendered plain element**, whatever follows it. -/
theorem parseFirstElement_treeW {cls : Classes} (hs : Sane cls) (sw : Switches) (t : WTree) (hp : PlainW cls t)
    (tail : List Char) :
    parseFirstElement cls sw (renderW t ++ tail) =
      .ok ({ name := t.name, attrs := attrsOpt (wplain t.attrs), value := contentOfW t }, (renderW t).length) := by
  cases t with
  | leaf n a gap text =>
    obtain ⟨hn, ha, hg, htext⟩ := hp
    have := parseFirstElement_plainW hs sw n a gap text tail hn ha hg (fun pat hpat => skip_text hpat htext.1)
    rw [renderW]
    simpa [WTree.name, WTree.attrs, contentOfW, htext.2] using this
  | empty n a gap =>
    obtain ⟨hn, ha, hg, hane⟩ := hp
    cases a with
    | nil => exact absurd rfl hane
    | cons p r =>
      have := parseFirstElement_selfW hs sw n p r gap tail hn ha hg
      rw [renderW]
      simpa [WTree.name, WTree.attrs, contentOfW] using this
  | node n a gap pre first rest post =>
    obtain ⟨hn, ha, hg, hpre, hpost, hf, hr, hof, hor⟩ := hp
    have hB : ∀ pat, IsPat n pat → Skip pat (pre ++ levelTextW first rest ++ post) := by
      intro pat hpat
      exact ((skip_text hpat (hpre.no_lt hs)).append (Skip.append (skipW hs hn hpat first hf hof)
        (skipWF hs hn hpat rest hr hor))).append (skip_text hpat (hpost.no_lt hs))
    have := parseFirstElement_plainW hs sw n a gap (pre ++ levelTextW first rest ++ post) tail hn ha hg hB
    obtain ⟨r, hr1, hr2⟩ := levelTextW_shape first rest
    have hstrip : strip cls.isStrip (pre ++ levelTextW first rest ++ post) = levelTextW first rest := by
      rw [hr1] at hr2 ⊢
      exact strip_padded cls.isStrip '<' '>' r pre post hpre hpost hs.strip_lt hs.strip_gt hr2
    rw [hstrip] at this
    have hrender : renderW (.node n a gap pre first rest post) =
        wstartTag n a gap ++ (pre ++ levelTextW first rest ++ post) ++ endTag n := by
      rw [renderW]; simp [levelTextW, List.append_assoc]
    rw [hrender]
    simpa [WTree.name, WTree.attrs, contentOfW] using this

/-! ### one iteration of the element loop, the loop, the recursion -/

/-- what the recursive call must answer for the children of a node (nothing is asked for a leaf) -/
def InnerOkW (inner : List Char → Out Dict) : WTree → Prop
  | .leaf _ _ _ _ => True
  | .empty _ _ _ => True
  | .node _ _ _ _ first rest _ =>
    inner (levelTextW first rest) = .ok (storeF (storeElement [] first.name (valT (eraseT first))) (eraseF rest))

def InnerOkWF (inner : List Char → Out Dict) : WForest → Prop
  | .nil => True
  | .cons _ t f => InnerOkW inner t ∧ InnerOkWF inner f

theorem elementContent_treeW {cls : Classes} (inner : List Char → Out Dict) (t : WTree) (hp : PlainW cls t)
    (hi : InnerOkW inner t) :
    (elementContent inner (contentOfW t)).bind (fun v => .ok (elementValue (attrsOpt (wplain t.attrs)) v)) =
      .ok (valT (eraseT t)) := by
  cases t with
  | leaf n a gap text =>
    have hlt : '<' ∉ text := hp.2.2.2.1
    have : elementContent inner text = .ok (.str text) := by
      unfold elementContent
      split
      · rename_i r
        exact absurd (by simp) hlt
      · rfl
    simp [contentOfW, this, Out.bind, valT, eraseT, WTree.attrs]
  | empty n a gap =>
    have : elementContent inner [] = .ok (.str []) := by simp [elementContent]
    simp [contentOfW, this, Out.bind, valT, eraseT, WTree.attrs]
  | node n a gap pre first rest post =>
    obtain ⟨r, hr1, _⟩ := levelTextW_shape first rest
    have : elementContent inner (levelTextW first rest) =
        .ok (.dict (storeF (storeElement [] first.name (valT (eraseT first))) (eraseF rest))) := by
      unfold elementContent
      rw [hr1]
      simp only
      rw [← hr1, hi]
    simp [contentOfW, this, Out.bind, valT, eraseT, WTree.attrs, eraseT_name]

/-- **One iteration** on a string whose stripped form is a rendered plain element followed by `tl`:
    the element is stored and the loop goes on with `tl`. -/
theorem parseStep_treeW {cls : Classes} (hs : Sane cls) (sw : Switches) (inner : List Char → Out Dict)
    (t : WTree) (hp : PlainW cls t) (hi : InnerOkW inner t) (xml tl : List Char) (res : Dict)
    (hstrip : strip cls.isStrip xml = renderW t ++ tl) :
    parseStep cls sw inner xml res = .next tl (storeElement res t.name (valT (eraseT t))) := by
  obtain ⟨r, hr, _⟩ := renderW_shape t
  have hpf := parseFirstElement_treeW hs sw t hp tl
  have hec := elementContent_treeW inner t hp hi
  have hshape : strip cls.isStrip xml = '<' :: (r ++ tl) := by rw [hstrip, hr]; rfl
  have hback : '<' :: (r ++ tl) = renderW t ++ tl := by rw [hr]; rfl
  unfold parseStep
  rw [hshape]
  simp only [ne_eq, not_true_eq_false, ↓reduceIte]
  rw [hback, hpf]
  simp only
  cases hc : elementContent inner (contentOfW t) with
  | err k => rw [hc] at hec; simp [Out.bind] at hec
  | outOfFuel => rw [hc] at hec; simp [Out.bind] at hec
  | ok v =>
    rw [hc] at hec
    simp only [Out.bind, Out.ok.injEq] at hec
    simp only [List.drop_left', hec]

theorem countWF_le_length : ∀ (f : WForest), countWF f ≤ (renderWF f).length
  | .nil => by simp [countWF]
  | .cons sep t f => by
    have := countWF_le_length f
    have h1 : 0 < (renderW t).length := List.length_pos_iff.mpr (renderW_ne_nil t)
    rw [renderWF, countWF]
    simp only [List.length_append]
    omega

/-- **The loop over further siblings**: each is stored in document order. -/
theorem parseLoop_forestW {cls : Classes} (hs : Sane cls) (sw : Switches) (inner : List Char → Out Dict) :
    ∀ (f : WForest), PlainWF cls f → InnerOkWF inner f → ∀ (fuel : Nat) (res : Dict), countWF f ≤ fuel →
      parseLoop cls sw inner fuel (renderWF f) res = .ok (storeF res (eraseF f))
  | .nil, _, _, fuel, res, _ => by rw [renderWF, parseLoop_nil, eraseF, storeF]
  | .cons sep t f, hp, hi, fuel, res, hf => by
    cases fuel with
    | zero => simp [countWF] at hf
    | succ fuel' =>
      obtain ⟨r, hr, he⟩ := renderW_shape t
      have hend : EndsWith '>' (renderW t ++ renderWF f) := by
        cases f with
        | nil => rw [renderWF, List.append_nil]; exact he
        | cons sep' t' f' => exact (renderWF_endsGt _ (by simp)).append_left _
      have hstrip : strip cls.isStrip (renderWF (.cons sep t f)) = renderW t ++ renderWF f := by
        rw [renderWF]
        rw [hr] at hend ⊢
        have := strip_padded cls.isStrip '<' '>' (r ++ renderWF f) sep [] hp.1 (by simp) hs.strip_lt hs.strip_gt hend
        simpa [List.append_assoc] using this
      have hstep := parseStep_treeW hs sw inner t hp.2.1 hi.1 (renderWF (.cons sep t f)) (renderWF f) res hstrip
      have hne : (renderWF (.cons sep t f)).isEmpty = false := by
        rw [renderWF, hr]
        cases sep <;> rfl
      rw [parseLoop]
      simp only [hne, Bool.false_eq_true, ↓reduceIte, hstep]
      rw [eraseF, storeF, eraseT_name]
      exact parseLoop_forestW hs sw inner f hp.2.2 hi.2 fuel' _ (by simp [countWF] at hf; omega)

/-- **The loop over the children of a node** (or over the document: one root element), with any
    white space before and after. -/
theorem parseLoop_levelW {cls : Classes} (hs : Sane cls) (sw : Switches) (inner : List Char → Out Dict)
    (first : WTree) (rest : WForest) (lead trail : List Char) (hpf : PlainW cls first) (hpr : PlainWF cls rest)
    (hlead : Ws cls lead) (htrail : Ws cls trail)
    (hif : InnerOkW inner first) (hir : InnerOkWF inner rest) (fuel : Nat) (res : Dict)
    (hfuel : countWF rest + 1 ≤ fuel) :
    parseLoop cls sw inner fuel (lead ++ levelTextW first rest ++ trail) res =
      .ok (storeF (storeElement res first.name (valT (eraseT first))) (eraseF rest)) := by
  cases fuel with
  | zero => omega
  | succ fuel' =>
    obtain ⟨r, hr, he⟩ := levelTextW_shape first rest
    have hstrip : strip cls.isStrip (lead ++ levelTextW first rest ++ trail) = renderW first ++ renderWF rest := by
      rw [hr] at he ⊢
      have := strip_padded cls.isStrip '<' '>' r lead trail hlead htrail hs.strip_lt hs.strip_gt he
      rw [this, ← hr]
      rfl
    have hstep := parseStep_treeW hs sw inner first hpf hif _ (renderWF rest) res hstrip
    have hne : (lead ++ levelTextW first rest ++ trail).isEmpty = false := by
      rw [hr]
      cases lead <;> rfl
    rw [parseLoop]
    simp only [hne, Bool.false_eq_true, ↓reduceIte, hstep]
    exact parseLoop_forestW hs sw inner rest hpr hir fuel' _ (by omega)

theorem levelTextW_fuel (first : WTree) (rest : WForest) (lead trail : List Char) :
    countWF rest + 1 ≤ (lead ++ levelTextW first rest ++ trail).length + 1 := by
  have := countWF_le_length rest
  simp only [levelTextW, List.length_append]
  omega

mutual
theorem innerOkW_of_rec {cls : Classes} (inner : List Char → Out Dict) (d : Nat)
    (ih : ∀ (first : WTree) (rest : WForest), PlainW cls first → PlainWF cls rest → heightW first ≤ d →
      heightWF rest ≤ d → inner (levelTextW first rest) =
        .ok (storeF (storeElement [] first.name (valT (eraseT first))) (eraseF rest))) :
    ∀ (t : WTree), PlainW cls t → heightW t ≤ d + 1 → InnerOkW inner t
  | .leaf _ _ _ _, _, _ => trivial
  | .empty _ _ _, _, _ => trivial
  | .node n a gap pre first rest post, hp, hh => by
    obtain ⟨_, _, _, _, _, hf, hr, _, _⟩ := hp
    rw [heightW] at hh
    exact ih first rest hf hr (by omega) (by omega)
theorem innerOkWF_of_rec {cls : Classes} (inner : List Char → Out Dict) (d : Nat)
    (ih : ∀ (first : WTree) (rest : WForest), PlainW cls first → PlainWF cls rest → heightW first ≤ d →
      heightWF rest ≤ d → inner (levelTextW first rest) =
        .ok (storeF (storeElement [] first.name (valT (eraseT first))) (eraseF rest))) :
    ∀ (f : WForest), PlainWF cls f → heightWF f ≤ d + 1 → InnerOkWF inner f
  | .nil, _, _ => trivial
  | .cons sep t f, hp, hh => by
    rw [heightWF] at hh
    exact ⟨innerOkW_of_rec inner d ih t hp.2.1 (by omega), innerOkWF_of_rec inner d ih f hp.2.2 (by omega)⟩
end

theorem innerOkW_leaf_level (inner : List Char → Out Dict) :
    ∀ (t : WTree), heightW t ≤ 0 → InnerOkW inner t
  | .leaf _ _ _ _, _ => trivial
  | .empty _ _ _, _ => trivial
  | .node _ _ _ _ _ _ _, hh => by rw [heightW] at hh; omega

theorem innerOkWF_leaf_level (inner : List Char → Out Dict) :
    ∀ (f : WForest), heightWF f ≤ 0 → InnerOkWF inner f
  | .nil, _ => trivial
  | .cons _ t f, hh => by
    rw [heightWF] at hh
    exact ⟨innerOkW_leaf_level inner t (by omega), innerOkWF_leaf_level inner f (by omega)⟩

/-- **`_parse_recursively` with `recurse = d`** reads the children of a node — or a whole document, with
    any white space around it — whose element nesting is at most `d` levels deep, into the dict of the
    standard reading, whatever one-line white space stands in front of the attributes. -/
theorem parseRec_levelW {cls : Classes} (hs : Sane cls) (sw : Switches) : ∀ (d : Nat) (first : WTree) (rest : WForest)
    (lead trail : List Char),
    PlainW cls first → PlainWF cls rest → Ws cls lead → Ws cls trail → heightW first ≤ d → heightWF rest ≤ d →
      parseRec cls sw d (lead ++ levelTextW first rest ++ trail) =
        .ok (storeF (storeElement [] first.name (valT (eraseT first))) (eraseF rest)) := by
  intro d
  induction d with
  | zero =>
    intro first rest lead trail hpf hpr hl ht hhf hhr
    rw [parseRec]
    exact parseLoop_levelW hs sw _ first rest lead trail hpf hpr hl ht (innerOkW_leaf_level _ first hhf)
      (innerOkWF_leaf_level _ rest hhr) _ [] (levelTextW_fuel first rest lead trail)
  | succ d ih =>
    intro first rest lead trail hpf hpr hl ht hhf hhr
    have ih' : ∀ (first : WTree) (rest : WForest), PlainW cls first → PlainWF cls rest → heightW first ≤ d →
        heightWF rest ≤ d → parseRec cls sw d (levelTextW first rest) =
          .ok (storeF (storeElement [] first.name (valT (eraseT first))) (eraseF rest)) := by
      intro f r h1 h2 h3 h4
      have := ih f r [] [] h1 h2 (by intro c hc; simp at hc) (by intro c hc; simp at hc) h3 h4
      simpa using this
    rw [parseRec]
    exact parseLoop_levelW hs sw _ first rest lead trail hpf hpr hl ht (innerOkW_of_rec _ d ih' first hpf hhf)
      (innerOkWF_of_rec _ d ih' rest hpr hhr) _ [] (levelTextW_fuel first rest lead trail)

end Kskm.Xml
