/-
  A concrete healthy world with EC keys for the non-vacuity examples of C01 §7 (`AnyHealthyWorld`,
  `C01_completes_ecdsa`, `C01_completes_any`, `C01_refused_without_agreement`).

  One module, session slots 0 (a foreign RSA key) and 1, which holds
    "EA"  P-256, public object with the point WRAPPED in a DER OCTET STRING, private object WITHOUT a readable
          point (second lookup of `load_pkcs11_key`), configured algorithm 13, hashing on the token;
    "EB"  P-384, public and private object both answering the BARE point, algorithm 14, hashing on the host;
    "KA"  an RSA key pair, algorithm 8.
  Schema slot 1 = publish e f / sign e f (EC only, ZSKs of algorithms 13 and 14); slot 2 = publish a e /
  sign a e / revoke f (mixed RSA + EC, ZSKs of algorithms 8 and 13).
-/
import KskmProofs.Lemmas.C01Any
namespace Kskm.EcExample

def xy256 : Bytes := List.replicate 64 0x11
def xy384 : Bytes := List.replicate 96 0x22
def wrapped256 : Bytes := 4 :: UInt8.ofNat 65 :: 4 :: xy256
def bare384 : Bytes := 4 :: xy384

def rsaObj (h cls : Nat) (label : String) (n : Bytes) : StoreObj :=
  { handle := h, cls := cls, label := label, keyType := some ckkRsa, modulus := some n,
    publicExponent := some [1, 0, 1] }
def ecObj (h cls : Nat) (label : String) (point params : Option Bytes) : StoreObj :=
  { handle := h, cls := cls, label := label, keyType := some ckkEc, ecPoint := point, ecParams := params }

def store : Store := fun p sl =>
  if p = "mod" ∧ sl = 0 then [rsaObj 3 ckoPublic "other" [0x80, 5]]
  else if p = "mod" ∧ sl = 1 then
    [ecObj 21 ckoPublic "EA" (some wrapped256) (some ecOidP256), ecObj 22 ckoPrivate "EA" none none,
     ecObj 23 ckoPublic "EB" (some bare384) (some ecOidP384),
     ecObj 24 ckoPrivate "EB" (some bare384) (some ecOidP384),
     rsaObj 7 ckoPublic "KA" [0x80, 1], rsaObj 8 ckoPrivate "KA" [0x80, 1]]
  else []

def mod1 : P11Module := { label := "hsm", path := "mod", slots := [0, 1], sessions := [0, 1] }
def mods : List P11Module := [mod1]

def elocA : EcLoc :=
  { m := mod1, slot := 1, pubO := ecObj 21 ckoPublic "EA" (some wrapped256) (some ecOidP256),
    privO := ecObj 22 ckoPrivate "EA" none none, params := ecOidP256, point := wrapped256, xy := xy256 }
def elocB : EcLoc :=
  { m := mod1, slot := 1, pubO := ecObj 23 ckoPublic "EB" (some bare384) (some ecOidP384),
    privO := ecObj 24 ckoPrivate "EB" (some bare384) (some ecOidP384), params := ecOidP384,
    point := bare384, xy := xy384 }
def eloc (label : String) : EcLoc := if label = "EA" then elocA else elocB
def locKA : KeyLoc :=
  { m := mod1, slot := 1, pubO := rsaObj 7 ckoPublic "KA" [0x80, 1], privO := rsaObj 8 ckoPrivate "KA" [0x80, 1],
    n := [0x80, 1], e := [1, 0, 1], raw := [3, 1, 0, 1, 0x80, 1] }
/-- the EC-only description and the description of all three key pairs -/
def locE (label : String) : AnyLoc := .ec (eloc label)
def loc (label : String) : AnyLoc := if label = "KA" then .rsa locKA else .ec (eloc label)

/-- "EA": key tag configured (that of the DNSKEY with the PREFIXED point: F4), hashing on the token -/
def kE : KskKey :=
  { label := "EA", algorithm := 13, validFrom := 0, keyTag := some 10800, hashUsingHsm := some true }
def kF : KskKey := { label := "EB", algorithm := 14, validFrom := 1000000, validUntil := some 9000000000000000 }
def kA : KskKey := { label := "KA", algorithm := 8, validFrom := 0, rsaSize := some 16, rsaExponent := some 65537 }

def actE : SchemaAction := { publish := ["e", "f"], sign := ["e", "f"] }
def actM : SchemaAction := { publish := ["a", "e"], sign := ["a", "e"], revoke := ["f"] }
def cfg : SignerConfig :=
  { kskKeys := [("a", kA), ("e", kE), ("f", kF)], actions := [(1, actE), (2, actM)] }

def ext : Externals :=
  { hash := fun _ d => some d, verify := fun _ _ _ sg => if sg = [1, 2, 3] then .valid else .invalid }
def sg : String → Nat → Nat → Nat → Bytes → Bytes := fun _ _ _ _ _ => [1, 2, 3]

def z8 : Key := ⟨"zsk8", 2, 3600, 256, 3, 8, "AwEAAg=="⟩
def z13 : Key := ⟨"zsk13", 3, 3600, 256, 3, 13, "AwEAAw=="⟩
def z14 : Key := ⟨"zsk14", 4, 3600, 256, 3, 14, "AwEABA=="⟩
def bE : Bundle := ⟨"b1", 1700000000000000, 1701000000000000, [z13, z14], [], none⟩
def bM : Bundle := ⟨"b2", 1701000000000000, 1702000000000000, [z8, z13], [], none⟩
/-- only an RSA ZSK under the mixed action: refused -/
def bR : Bundle := ⟨"b2", 1701000000000000, 1702000000000000, [z8], [], none⟩
def reqE : Request := { id := "r", serial := 1, domain := ".", zskPolicy := {}, bundles := [bE] }
def reqM : Request := { id := "r", serial := 1, domain := ".", zskPolicy := {}, bundles := [bE, bM] }

theorem ecOnTokenA : EcOnToken store mods "EA" elocA where
  modules := ⟨[], [], rfl, by intro m' hm'; cases hm'⟩
  sessions := ⟨[0], [], rfl, by
    intro sl hsl isPublic
    simp only [List.mem_singleton] at hsl
    subst hsl
    cases isPublic <;> decide⟩
  one := by intro isPublic; cases isPublic <;> decide
  pub := ⟨by decide, rfl, rfl, rfl⟩
  priv := ⟨by decide, rfl, Or.inr (Or.inl rfl)⟩
  curve := ⟨65, by decide, by decide, .wrapped rfl⟩

theorem ecOnTokenB : EcOnToken store mods "EB" elocB where
  modules := ⟨[], [], rfl, by intro m' hm'; cases hm'⟩
  sessions := ⟨[0], [], rfl, by
    intro sl hsl isPublic
    simp only [List.mem_singleton] at hsl
    subst hsl
    cases isPublic <;> decide⟩
  one := by intro isPublic; cases isPublic <;> decide
  pub := ⟨by decide, rfl, rfl, rfl⟩
  priv := ⟨by decide, rfl, Or.inl ⟨rfl, rfl⟩⟩
  curve := ⟨97, by decide, by decide, .bare rfl (Or.inr (by decide))⟩

theorem onTokenKA : OnToken store mods "KA" locKA where
  modules := ⟨[], [], rfl, by intro m' hm'; cases hm'⟩
  sessions := ⟨[0], [], rfl, by
    intro sl hsl isPublic
    simp only [List.mem_singleton] at hsl
    subst hsl
    cases isPublic <;> decide⟩
  one := by intro isPublic; cases isPublic <;> decide
  rsa := by intro isPublic; cases isPublic <;> exact ⟨by decide, by decide, by decide, by decide⟩
  encoded := by decide +kernel
  positive := by decide
  small := by decide

theorem lookup_a : cfg.kskKeys.lookup "a" = some kA := by decide
theorem lookup_e : cfg.kskKeys.lookup "e" = some kE := by decide
theorem lookup_f : cfg.kskKeys.lookup "f" = some kF := by decide

/-- a description that agrees with `loc` on the EC labels (both `locE` and `loc` do) -/
structure Describes (loc' : String → AnyLoc) : Prop where
  ea : loc' "EA" = .ec elocA
  eb : loc' "EB" = .ec elocB

theorem describes_locE : Describes locE := ⟨rfl, rfl⟩
theorem describes_loc : Describes loc := ⟨rfl, rfl⟩

theorem healthyE {loc' : String → AnyLoc} (hd : Describes loc') (b : Bundle) (h1 : 0 ≤ b.inception) :
    AnyHealthyName ext store mods cfg loc' b "e" kE where
  configured := lookup_e
  window := ⟨h1, by intro u hu; cases hu⟩
  onToken := by
    show (loc' "EA").OnTokenAs store mods kE
    rw [hd.ea]
    exact ⟨ecOnTokenA, Or.inl ⟨rfl, rfl⟩⟩
  identity := by
    show validateDnskeyMatchesKsk ext kE (dnsOf kE cfg.kskPolicy.ttl (loc' "EA").raw) = .ok ()
    rw [hd.ea]
    decide +kernel

theorem healthyF {loc' : String → AnyLoc} (hd : Describes loc') (b : Bundle) (h1 : 1000000 ≤ b.inception)
    (h2 : b.expiration ≤ 9000000000000000) : AnyHealthyName ext store mods cfg loc' b "f" kF where
  configured := lookup_f
  window := ⟨h1, by intro u hu; cases hu; exact h2⟩
  onToken := by
    show (loc' "EB").OnTokenAs store mods kF
    rw [hd.eb]
    exact ⟨ecOnTokenB, Or.inr ⟨rfl, rfl⟩⟩
  identity := rfl

theorem healthyA (b : Bundle) (h1 : 0 ≤ b.inception) : AnyHealthyName ext store mods cfg loc b "a" kA where
  configured := lookup_a
  window := ⟨h1, by intro u hu; cases hu⟩
  onToken := ⟨onTokenKA, by decide, by decide, by decide⟩
  identity := rfl

theorem lookup_cases {n : String} {k : KskKey} (hn : n = "a" ∨ n = "e" ∨ n = "f")
    (h : cfg.kskKeys.lookup n = some k) : (n = "a" ∧ k = kA) ∨ (n = "e" ∧ k = kE) ∨ (n = "f" ∧ k = kF) := by
  rcases hn with rfl | rfl | rfl
  · rw [lookup_a] at h; exact Or.inl ⟨rfl, (Option.some.inj h).symm⟩
  · rw [lookup_e] at h; exact Or.inr (Or.inl ⟨rfl, (Option.some.inj h).symm⟩)
  · rw [lookup_f] at h; exact Or.inr (Or.inr ⟨rfl, (Option.some.inj h).symm⟩)

theorem namesE {n : String} (h : n ∈ actE.names) : n = "e" ∨ n = "f" := by
  simp only [SchemaAction.names, actE, List.cons_append, List.nil_append, List.append_nil, List.mem_cons,
    List.not_mem_nil, or_false] at h
  rcases h with h | h | h | h <;> simp [h]

theorem namesM {n : String} (h : n ∈ actM.names) : n = "a" ∨ n = "e" ∨ n = "f" := by
  simp only [SchemaAction.names, actM, List.cons_append, List.nil_append, List.mem_cons,
    List.not_mem_nil, or_false] at h
  rcases h with h | h | h | h | h <;> simp [h]

theorem raw_a : (loc "KA").raw = [3, 1, 0, 1, 0x80, 1] := rfl
theorem raw_e {loc' : String → AnyLoc} (hd : Describes loc') : (loc' "EA").raw = 4 :: xy256 := by
  rw [hd.ea]; rfl
theorem raw_f {loc' : String → AnyLoc} (hd : Describes loc') : (loc' "EB").raw = 4 :: xy384 := by
  rw [hd.eb]; rfl

/-- label ↦ algorithm is a function, different labels have different key octets (EC-only names) -/
theorem labelAlg_E {loc' : String → AnyLoc} (hd : Describes loc') {n₁ n₂ : String} {k₁ k₂ : KskKey}
    (h1 : n₁ = "e" ∨ n₁ = "f") (h2 : n₂ = "e" ∨ n₂ = "f")
    (l1 : cfg.kskKeys.lookup n₁ = some k₁) (l2 : cfg.kskKeys.lookup n₂ = some k₂) :
    (k₁.label = k₂.label → k₁.algorithm = k₂.algorithm) ∧
    ((loc' k₁.label).raw = (loc' k₂.label).raw → k₁.label = k₂.label) := by
  have e1 : (loc' kE.label).raw = 4 :: xy256 := raw_e hd
  have e2 : (loc' kF.label).raw = 4 :: xy384 := raw_f hd
  rcases lookup_cases (Or.inr h1) l1 with ⟨rfl, rfl⟩ | ⟨_, rfl⟩ | ⟨_, rfl⟩ <;>
    rcases lookup_cases (Or.inr h2) l2 with ⟨rfl, rfl⟩ | ⟨_, rfl⟩ | ⟨_, rfl⟩
  all_goals first
    | (rcases h1 with h | h <;> exact absurd h (by decide))
    | (rcases h2 with h | h <;> exact absurd h (by decide))
    | (rw [e1, e2]; decide)
    | (rw [e2, e1]; decide)
    | exact ⟨fun _ => rfl, fun _ => rfl⟩

theorem labelAlg_M {n₁ n₂ : String} {k₁ k₂ : KskKey}
    (h1 : n₁ = "a" ∨ n₁ = "e" ∨ n₁ = "f") (h2 : n₂ = "a" ∨ n₂ = "e" ∨ n₂ = "f")
    (l1 : cfg.kskKeys.lookup n₁ = some k₁) (l2 : cfg.kskKeys.lookup n₂ = some k₂) :
    (k₁.label = k₂.label → k₁.algorithm = k₂.algorithm) ∧
    ((loc k₁.label).raw = (loc k₂.label).raw → k₁.label = k₂.label) := by
  have e0 : (loc kA.label).raw = [3, 1, 0, 1, 0x80, 1] := rfl
  have e1 : (loc kE.label).raw = 4 :: xy256 := rfl
  have e2 : (loc kF.label).raw = 4 :: xy384 := rfl
  rcases lookup_cases h1 l1 with ⟨_, rfl⟩ | ⟨_, rfl⟩ | ⟨_, rfl⟩ <;>
    rcases lookup_cases h2 l2 with ⟨_, rfl⟩ | ⟨_, rfl⟩ | ⟨_, rfl⟩
  all_goals first
    | exact ⟨fun _ => rfl, fun _ => rfl⟩
    | (rw [e0, e1]; decide)
    | (rw [e0, e2]; decide)
    | (rw [e1, e0]; decide)
    | (rw [e1, e2]; decide)
    | (rw [e2, e0]; decide)
    | (rw [e2, e1]; decide)

theorem zskNotKsk_ok {z : Key} {n : String} {k : KskKey} (hz : z = z8 ∨ z = z13 ∨ z = z14)
    (h1 : n = "a" ∨ n = "e" ∨ n = "f") (l1 : cfg.kskKeys.lookup n = some k) : z.keyIdentifier ≠ k.label := by
  rcases lookup_cases h1 l1 with ⟨_, rfl⟩ | ⟨_, rfl⟩ | ⟨_, rfl⟩ <;> rcases hz with rfl | rfl | rfl <;> decide

theorem zskRdata_ok {z : Key} (hz : z = z8 ∨ z = z13 ∨ z = z14) :
    ∃ r, keyToRdata z = .ok r ∧ r.length < 65536 := by
  rcases hz with rfl | rfl | rfl
  · exact ⟨_, eq_okOr [] (by decide +kernel), by decide +kernel⟩
  · exact ⟨_, eq_okOr [] (by decide +kernel), by decide +kernel⟩
  · exact ⟨_, eq_okOr [] (by decide +kernel), by decide +kernel⟩

/-- slot 1 (EC only) is healthy for `bE`, under either description -/
theorem healthyActionE {loc' : String → AnyLoc} (hd : Describes loc') :
    AnyHealthyAction ext store sg mods cfg loc' bE actE where
  names := by
    intro n hn
    rcases namesE hn with rfl | rfl
    · exact ⟨kE, healthyE hd bE (by decide)⟩
    · exact ⟨kF, healthyF hd bE (by decide) (by decide)⟩
  labelAlg := fun n₁ h1 n₂ h2 k₁ k₂ l1 l2 => (labelAlg_E hd (namesE h1) (namesE h2) l1 l2).1
  distinctKeys := fun n₁ h1 n₂ h2 k₁ k₂ l1 l2 => (labelAlg_E hd (namesE h1) (namesE h2) l1 l2).2
  zsks := by decide
  zskIds := by decide
  zskNotKsk := fun z hz n hn k l =>
    zskNotKsk_ok (by right; simpa [bE] using hz) (Or.inr (namesE hn)) l
  zskRdata := fun z hz => zskRdata_ok (by right; simpa [bE] using hz)
  expiration := by decide
  inception := by decide
  signs := fun _ _ _ _ _ _ _ => rfl

theorem agreeE : AlgsAgree cfg bE actE := by
  intro a
  constructor
  · intro h
    have : a = 13 ∨ a = 14 := by simpa [bE, z13, z14] using h
    rcases this with rfl | rfl
    · exact ⟨"e", by simp [actE], kE, lookup_e, rfl⟩
    · exact ⟨"f", by simp [actE], kF, lookup_f, rfl⟩
  · rintro ⟨n, hn, k, l, rfl⟩
    have : n = "e" ∨ n = "f" := by simpa [actE] using hn
    rcases this with rfl | rfl
    · rw [lookup_e] at l; cases l; decide
    · rw [lookup_f] at l; cases l; decide

/-- slot 2 (RSA + EC) is healthy for every bundle in the windows whose ZSKs are among `z8`, `z13` -/
theorem healthyActionM (b : Bundle) (hne : b.keys ≠ [])
    (hids : b.keys.Pairwise (fun x y => x.keyIdentifier ≠ y.keyIdentifier))
    (hz : ∀ z ∈ b.keys, z = z8 ∨ z = z13) (h1 : 1000000 ≤ b.inception) (h2 : b.expiration ≤ 9000000000000000)
    (he : inRange 32 (tsSeconds b.expiration) = true) (hi : inRange 32 (tsSeconds b.inception) = true) :
    AnyHealthyAction ext store sg mods cfg loc b actM where
  names := by
    intro n hn
    rcases namesM hn with rfl | rfl | rfl
    · exact ⟨kA, healthyA b (by omega)⟩
    · exact ⟨kE, healthyE describes_loc b (by omega)⟩
    · exact ⟨kF, healthyF describes_loc b h1 h2⟩
  labelAlg := fun n₁ h1 n₂ h2 k₁ k₂ l1 l2 => (labelAlg_M (namesM h1) (namesM h2) l1 l2).1
  distinctKeys := fun n₁ h1 n₂ h2 k₁ k₂ l1 l2 => (labelAlg_M (namesM h1) (namesM h2) l1 l2).2
  zsks := hne
  zskIds := hids
  zskNotKsk := fun z hz' n hn k l => zskNotKsk_ok (by
    rcases hz z hz' with h | h
    · exact Or.inl h
    · exact Or.inr (Or.inl h)) (namesM hn) l
  zskRdata := fun z hz' => zskRdata_ok (by
    rcases hz z hz' with h | h
    · exact Or.inl h
    · exact Or.inr (Or.inl h))
  expiration := he
  inception := hi
  signs := fun _ _ _ _ _ _ _ => rfl

theorem healthyActionM_bM : AnyHealthyAction ext store sg mods cfg loc bM actM :=
  healthyActionM bM (by decide) (by decide) (by intro z hz; simpa [bM] using hz) (by decide) (by decide)
    (by decide) (by decide)

theorem healthyActionM_bR : AnyHealthyAction ext store sg mods cfg loc bR actM :=
  healthyActionM bR (by decide) (by decide) (by intro z hz; left; simpa [bR] using hz) (by decide) (by decide)
    (by decide) (by decide)

theorem agreeM : AlgsAgree cfg bM actM := by
  intro a
  constructor
  · intro h
    have : a = 8 ∨ a = 13 := by simpa [bM, z8, z13] using h
    rcases this with rfl | rfl
    · exact ⟨"a", by simp [actM], kA, lookup_a, rfl⟩
    · exact ⟨"e", by simp [actM], kE, lookup_e, rfl⟩
  · rintro ⟨n, hn, k, l, rfl⟩
    have : n = "a" ∨ n = "e" := by simpa [actM] using hn
    rcases this with rfl | rfl
    · rw [lookup_a] at l; cases l; decide
    · rw [lookup_e] at l; cases l; decide

/-- the RSA-only bundle does NOT agree with the mixed action: no ZSK of algorithm 13 -/
theorem not_agreeR : ¬ AlgsAgree cfg bR actM := by
  intro h
  have := (h 13).mpr ⟨"e", by simp [actM], kE, lookup_e, rfl⟩
  simp [bR, z8] at this

theorem base : HealthyBase ext cfg := ⟨rfl, by decide, fun _ d => ⟨d, rfl⟩⟩

end Kskm.EcExample
