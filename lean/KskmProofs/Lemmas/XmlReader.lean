/-
  Reader correctness on the canonical rendering of PlainXml trees, step by step:
  strip, the attribute loop, the two start-tag expressions, `_parse_tag`, `_find_end_of_element`,
  `parse_first_element`, one iteration of the element loop, the loop, the recursion.
-/
import KskmProofs.Lemmas.XmlScan
import KskmProofs.Lemmas.XmlFuel
import KskmProofs.Lemmas.XmlStore
namespace Kskm.Xml

/-! ### scans -/

theorem takeWhile_run {α} (p : α → Bool) : ∀ (k : List α) (t : α) (x : List α),
    (∀ c ∈ k, p c = true) → p t = false → (k ++ t :: x).takeWhile p = k ∧ (k ++ t :: x).dropWhile p = t :: x := by
  intro k
  induction k with
  | nil => intro t x _ ht; simp [List.takeWhile, List.dropWhile, ht]
  | cons a r ih =>
    intro t x hk ht
    have ha := hk a (by simp)
    obtain ⟨h1, h2⟩ := ih t x (fun c hc => hk c (List.mem_cons_of_mem _ hc)) ht
    simp [List.takeWhile, List.dropWhile, ha, h1, h2]

theorem takeWhile_all {α} (p : α → Bool) : ∀ (k : List α), (∀ c ∈ k, p c = true) → k.takeWhile p = k := by
  intro k
  induction k with
  | nil => intro _; rfl
  | cons a r ih =>
    intro hk
    simp [List.takeWhile, hk a (by simp), ih (fun c hc => hk c (List.mem_cons_of_mem _ hc))]

/-! ### `str.strip` on strings that start and end with non-whitespace -/

/-- ends with the character `d` -/
def EndsWith (d : Char) (s : List Char) : Prop := ∃ r, s = r ++ [d]

theorem EndsWith.append_left {d : Char} {s : List Char} (x : List Char) (h : EndsWith d s) : EndsWith d (x ++ s) := by
  obtain ⟨r, rfl⟩ := h
  exact ⟨x ++ r, by simp⟩

theorem EndsWith.cons {d : Char} {s : List Char} (c : Char) (h : EndsWith d s) : EndsWith d (c :: s) :=
  h.append_left [c]

theorem rstrip_endsWith (p : Char → Bool) (d : Char) (s : List Char) (hd : p d = false) (h : EndsWith d s) :
    rstrip p s = s := by
  obtain ⟨r, rfl⟩ := h
  simp [rstrip, List.dropWhile, hd]

theorem lstrip_cons (p : Char → Bool) (c : Char) (s : List Char) (hc : p c = false) : lstrip p (c :: s) = c :: s := by
  simp [lstrip, List.dropWhile, hc]

theorem strip_self (p : Char → Bool) (c d : Char) (s : List Char) (hc : p c = false) (hd : p d = false)
    (h : EndsWith d (c :: s)) : strip p (c :: s) = c :: s := by
  unfold strip
  rw [lstrip_cons p c s hc, rstrip_endsWith p d _ hd h]

/-- a leading newline and a trailing newline are stripped, nothing else -/
theorem strip_nl_wrapped (p : Char → Bool) (c d : Char) (s : List Char) (hnl : p '\n' = true) (hc : p c = false)
    (hd : p d = false) (h : EndsWith d (c :: s)) : strip p ('\n' :: (c :: s ++ ['\n'])) = c :: s := by
  obtain ⟨r, hr⟩ := h
  unfold strip
  have h1 : lstrip p ('\n' :: (c :: s ++ ['\n'])) = c :: s ++ ['\n'] := by
    simp [lstrip, List.dropWhile, hnl, hc]
  rw [h1, hr]
  simp [rstrip, List.dropWhile, hnl, hd]

theorem strip_nl_leading (p : Char → Bool) (c d : Char) (s : List Char) (hnl : p '\n' = true) (hc : p c = false)
    (hd : p d = false) (h : EndsWith d (c :: s)) : strip p ('\n' :: (c :: s)) = c :: s := by
  unfold strip
  have h1 : lstrip p ('\n' :: (c :: s)) = c :: s := by simp [lstrip, List.dropWhile, hnl, hc]
  rw [h1, rstrip_endsWith p d _ hd h]

theorem lstrip_ws (p : Char → Bool) : ∀ (pre x : List Char), (∀ c ∈ pre, p c = true) → lstrip p (pre ++ x) = lstrip p x := by
  intro pre
  induction pre with
  | nil => intro x _; rfl
  | cons c r ih =>
    intro x h
    have hc := h c (by simp)
    have := ih x (fun c hc => h c (List.mem_cons_of_mem _ hc))
    simp only [lstrip, List.cons_append, List.dropWhile, hc] at this ⊢
    exact this

theorem rstrip_ws (p : Char → Bool) (x post : List Char) (h : ∀ c ∈ post, p c = true) :
    rstrip p (x ++ post) = rstrip p x := by
  unfold rstrip
  rw [List.reverse_append]
  have := lstrip_ws p post.reverse x.reverse (fun c hc => h c (List.mem_reverse.mp hc))
  simp only [lstrip] at this
  rw [this]

/-- white space around a string that starts and ends with non-whitespace is stripped, nothing else -/
theorem strip_padded (p : Char → Bool) (c d : Char) (s pre post : List Char) (hpre : ∀ x ∈ pre, p x = true)
    (hpost : ∀ x ∈ post, p x = true) (hc : p c = false) (hd : p d = false) (h : EndsWith d (c :: s)) :
    strip p (pre ++ (c :: s) ++ post) = c :: s := by
  unfold strip
  rw [List.append_assoc, lstrip_ws p pre _ hpre, List.cons_append, lstrip_cons p c _ hc]
  have : c :: (s ++ post) = (c :: s) ++ post := rfl
  rw [this, rstrip_ws p _ post hpost, rstrip_endsWith p d _ hd h]

/-! ### shapes of the rendering -/

theorem endTag_endsGt (n : List Char) : EndsWith '>' (endTag n) := ⟨'<' :: '/' :: n, by simp [endTag]⟩

theorem renderT_shape (t : PTree) : ∃ r, renderT t = '<' :: r ∧ EndsWith '>' (renderT t) := by
  cases t with
  | leaf n a gap text =>
    refine ⟨_, by rw [renderT, startTag]; rfl, ?_⟩
    rw [renderT]; exact (endTag_endsGt n).append_left _
  | empty n a gap =>
    refine ⟨_, by rw [renderT, selfTag], ?_⟩
    rw [renderT]
    exact ⟨'<' :: (n ++ attrsText a ++ gap ++ ['/']), by simp [selfTag, selfBody]⟩
  | node n a gap pre first rest post =>
    refine ⟨_, by rw [renderT, startTag]; simp only [List.cons_append, List.append_assoc]; rfl, ?_⟩
    rw [renderT]
    exact (endTag_endsGt n).append_left _

theorem renderT_ne_nil (t : PTree) : renderT t ≠ [] := by
  obtain ⟨r, hr, _⟩ := renderT_shape t
  rw [hr]; simp

theorem renderF_endsGt : ∀ (f : PForest), f ≠ .nil → EndsWith '>' (renderF f)
  | .nil, h => absurd rfl h
  | .cons sep t .nil, _ => by
    rw [renderF, renderF, List.append_nil]
    obtain ⟨_, _, he⟩ := renderT_shape t
    exact he.append_left _
  | .cons sep t (.cons sep' t' f'), _ => by
    rw [renderF]
    exact (renderF_endsGt (.cons sep' t' f') (by simp)).append_left _

/-- the text of the children of a node: first child, further children each after its white space -/
def levelText (first : PTree) (rest : PForest) : List Char := renderT first ++ renderF rest

theorem levelText_shape (first : PTree) (rest : PForest) :
    ∃ r, levelText first rest = '<' :: r ∧ EndsWith '>' (levelText first rest) := by
  obtain ⟨r, hr, he⟩ := renderT_shape first
  refine ⟨r ++ renderF rest, by simp [levelText, hr], ?_⟩
  unfold levelText
  cases rest with
  | nil => rw [renderF, List.append_nil]; exact he
  | cons sep t f => exact (renderF_endsGt _ (by simp)).append_left _

/-! ### the attribute text -/

/-- the attribute text without its leading space: what the start-tag expression captures as `attrs` -/
def attrsBody : Attrs → List Char
  | [] => []
  | p :: r => attrText p ++ attrsText r

theorem attrsText_cons (p : List Char × List Char) (r : Attrs) : attrsText (p :: r) = ' ' :: attrsBody (p :: r) := rfl

theorem attrsText_eq (a : Attrs) : attrsText a = if a.isEmpty then [] else ' ' :: attrsBody a := by
  cases a <;> rfl

theorem attrsText_endsQuote : ∀ (a : Attrs), a ≠ [] → EndsWith '"' (attrsText a)
  | [], h => absurd rfl h
  | [p], _ => by
    simp only [attrsText, attrText, List.append_nil]
    exact ⟨' ' :: (p.1 ++ '=' :: '"' :: p.2), by simp⟩
  | p :: q :: r, _ => by
    rw [attrsText]
    exact ((attrsText_endsQuote (q :: r) (by simp)).append_left _).cons ' '

theorem attrsBody_endsQuote (a : Attrs) (h : a ≠ []) : EndsWith '"' (attrsBody a) := by
  obtain ⟨r, hr⟩ := attrsText_endsQuote a h
  cases a with
  | nil => exact absurd rfl h
  | cons p q =>
    rw [attrsText_cons] at hr
    cases r with
    | nil => simp at hr
    | cons c r' =>
      simp only [List.cons_append, List.cons.injEq] at hr
      exact ⟨r', hr.2⟩

/-- no `>` and no newline in the attribute text -/
theorem attrsText_clean {cls : Classes} (hs : Sane cls) : ∀ (a : Attrs), (∀ p ∈ a, PlainAttr cls p) →
    ∀ c ∈ attrsText a, c ≠ '>' ∧ c ≠ '\n' := by
  intro a
  induction a with
  | nil => intro _ c hc; simp [attrsText] at hc
  | cons p r ih =>
    intro hp c hc
    have h1 := hp p (by simp)
    have hword : ∀ c ∈ p.1, c ≠ '>' ∧ c ≠ '\n' := by
      intro c hc
      have hw := h1.1.2 c hc
      constructor
      · rintro rfl; rw [hs.word_gt] at hw; cases hw
      · rintro rfl
        have := hs.word_not_strip _ hw
        rw [hs.strip_nl] at this; cases this
    simp only [attrsText, attrText, List.mem_cons, List.mem_append, List.mem_nil_iff, or_false] at hc
    rcases hc with rfl | (hc | rfl | rfl | hc | rfl) | hc
    · decide
    · exact hword c hc
    · decide
    · decide
    · exact ⟨(h1.2.2 c hc).2.2.2, (h1.2.2 c hc).2.1⟩
    · decide
    · exact ih (fun q hq => hp q (List.mem_cons_of_mem _ hq)) c hc

theorem attrsBody_clean {cls : Classes} (hs : Sane cls) (a : Attrs) (ha : ∀ p ∈ a, PlainAttr cls p) :
    ∀ c ∈ attrsBody a, c ≠ '>' ∧ c ≠ '\n' := by
  intro c hc
  cases a with
  | nil => simp [attrsBody] at hc
  | cons p r =>
    exact attrsText_clean hs (p :: r) ha c (by rw [attrsText_cons]; exact List.mem_cons_of_mem _ hc)

theorem attrsBody_head {cls : Classes} {p : List Char × List Char} {r : Attrs} (hp : PlainAttr cls p) :
    ∃ c x, attrsBody (p :: r) = c :: x ∧ cls.isWord c = true := by
  obtain ⟨c, k, hk, hw⟩ := head_word hp.1
  exact ⟨c, k ++ '=' :: '"' :: (p.2 ++ ['"']) ++ attrsText r, by simp [attrsBody, attrText, hk], hw⟩

/-! ### `^(\w+)="(.+?)"\s*(.*)` and the attribute loop on the attribute text -/

theorem matchAttr_plain {cls : Classes} (hs : Sane cls) (p : List Char × List Char) (r : Attrs)
    (hp : PlainAttr cls p) (hr : ∀ q ∈ r, PlainAttr cls q) :
    matchAttr cls (attrsBody (p :: r)) = some (p.1, p.2, attrsBody r) := by
  obtain ⟨k, v⟩ := p
  obtain ⟨hk, hvne, hv⟩ := hp
  simp only at hk hvne hv
  cases v with
  | nil => exact absurd rfl hvne
  | cons c rv =>
    have hbody : attrsBody ((k, c :: rv) :: r) = k ++ '=' :: ('"' :: c :: (rv ++ '"' :: attrsText r)) := by
      simp [attrsBody, attrText]
    obtain ⟨ht, hd⟩ := takeWhile_run cls.isWord k '=' ('"' :: c :: (rv ++ '"' :: attrsText r)) hk.2 hs.word_eq
    have hkne : (k.isEmpty) = false := by
      cases k with
      | nil => exact absurd rfl hk.1
      | cons _ _ => rfl
    have hc : c ≠ '\n' := (hv c (by simp)).2.1
    have hstop : ∀ x ∈ rv, (fun x => decide (x ≠ '"') && decide (x ≠ '\n')) x = true := by
      intro x hx
      have := hv x (List.mem_cons_of_mem _ hx)
      simp [this.1, this.2.1]
    obtain ⟨ht2, hd2⟩ := takeWhile_run (fun x => decide (x ≠ '"') && decide (x ≠ '\n')) rv '"' (attrsText r)
      hstop (by simp)
    have hrest : ((attrsText r).dropWhile cls.isSpace).takeWhile (fun x => decide (x ≠ '\n')) = attrsBody r := by
      cases r with
      | nil => simp [attrsText, attrsBody]
      | cons q r' =>
        obtain ⟨c', x', hx', hw'⟩ := attrsBody_head (r := r') (hr q (by simp))
        have hsp : cls.isSpace c' = false := hs.word_not_space _ hw'
        rw [attrsText_cons, hx']
        have : (' ' :: c' :: x').dropWhile cls.isSpace = c' :: x' := by
          simp [List.dropWhile, hs.space_sp, hsp]
        rw [this, ← hx']
        apply takeWhile_all
        intro y hy
        have := (attrsBody_clean hs (q :: r') hr y hy).2
        simp [this]
    unfold matchAttr
    simp only [hbody, ht, hd, hkne, Bool.false_eq_true, ↓reduceIte, hc, hd2, ht2, hrest]

/-- **The attribute loop reads the attribute text**: every `k="v"` in order, later values winning. -/
theorem parseAttrs_plain {cls : Classes} (hs : Sane cls) (sw : Switches) : ∀ (a : Attrs),
    (∀ p ∈ a, PlainAttr cls p) → ∀ (fuel : Nat) (acc : Attrs), (attrsBody a).length < fuel →
      parseAttrs cls sw fuel (attrsBody a) acc = .ok (a.foldl (fun acc p => dictSet acc p.1 p.2) acc) := by
  intro a
  induction a with
  | nil => intro _ fuel acc _; simp [attrsBody, parseAttrs_nil]
  | cons p r ih =>
    intro ha fuel acc hf
    have hp := ha p (by simp)
    have hr : ∀ q ∈ r, PlainAttr cls q := fun q hq => ha q (List.mem_cons_of_mem _ hq)
    cases fuel with
    | zero => omega
    | succ f =>
      obtain ⟨c, x, hx, hw⟩ := attrsBody_head (r := r) hp
      have hne : (attrsBody (p :: r)).isEmpty = false := by rw [hx]; rfl
      have hstrip : strip cls.isStrip (attrsBody (p :: r)) = attrsBody (p :: r) := by
        rw [hx]
        apply strip_self cls.isStrip c '"' x (hs.word_not_strip _ hw) hs.strip_quote
        rw [← hx]; exact attrsBody_endsQuote _ (by simp)
      have hm := matchAttr_plain hs p r hp hr
      rw [parseAttrs]
      simp only [hne, Bool.false_eq_true, ↓reduceIte, hstrip, hm, List.foldl_cons]
      apply ih hr
      have hlen : (attrsBody r).length < (attrsBody (p :: r)).length := by
        have := matchAttr_consumes cls _ _ _ _ hm
        omega
      omega

/-- white space after the attribute text (before `>` / `/>`) is dropped by the first `strip` -/
theorem parseAttrs_gap {cls : Classes} (hs : Sane cls) (sw : Switches) (p : List Char × List Char) (r : Attrs)
    (gap : List Char) (hp : PlainAttr cls p) (hg : ∀ c ∈ gap, cls.isStrip c = true) (fuel : Nat) (acc : Attrs) :
    parseAttrs cls sw (fuel + 1) (attrsBody (p :: r) ++ gap) acc = parseAttrs cls sw (fuel + 1) (attrsBody (p :: r)) acc := by
  obtain ⟨c, x, hx, hw⟩ := attrsBody_head (r := r) hp
  have he : EndsWith '"' (c :: x) := by rw [← hx]; exact attrsBody_endsQuote _ (by simp)
  have h1 : strip cls.isStrip (attrsBody (p :: r) ++ gap) = attrsBody (p :: r) := by
    rw [hx]
    have := strip_padded cls.isStrip c '"' x [] gap (by simp) hg (hs.word_not_strip _ hw) hs.strip_quote he
    simpa using this
  have h2 : strip cls.isStrip (attrsBody (p :: r)) = attrsBody (p :: r) := by
    rw [hx]
    exact strip_self cls.isStrip c '"' x (hs.word_not_strip _ hw) hs.strip_quote he
  have hne1 : (attrsBody (p :: r) ++ gap).isEmpty = false := by rw [hx]; rfl
  have hne2 : (attrsBody (p :: r)).isEmpty = false := by rw [hx]; rfl
  rw [parseAttrs, parseAttrs]
  simp only [hne1, hne2, h1, h2]

/-! ### the start-tag expressions on a rendered start tag -/

/-- `(.+?)(/*)>` on text that ends with a non-slash character, then at most one slash, then `>` -/
theorem matchAttrsSlash_plain (A sl rest : List Char) (hne : A ≠ []) (hclean : ∀ c ∈ A, c ≠ '>' ∧ c ≠ '\n')
    (hq : ∃ r x, A = r ++ [x] ∧ x ≠ '/') (hsl : sl = [] ∨ sl = ['/']) :
    matchAttrsSlash (A ++ sl ++ '>' :: rest) = some (A, sl) := by
  cases A with
  | nil => exact absurd rfl hne
  | cons c r =>
    have hc : c ≠ '\n' := (hclean c (by simp)).2
    have hstop : ∀ x ∈ r ++ sl, (fun x => decide (x ≠ '>') && decide (x ≠ '\n')) x = true := by
      intro x hx
      rcases List.mem_append.mp hx with hx | hx
      · have := hclean x (List.mem_cons_of_mem _ hx)
        simp [this.1, this.2]
      · rcases hsl with rfl | rfl
        · simp at hx
        · simp only [List.mem_singleton] at hx; subst hx; decide
    obtain ⟨ht, hd⟩ := takeWhile_run (fun x => decide (x ≠ '>') && decide (x ≠ '\n')) (r ++ sl) '>' rest hstop (by simp)
    obtain ⟨r', x, hr', hx⟩ := hq
    have hcount : ((c :: (r ++ sl)).reverse.takeWhile (fun x => decide (x = '/'))).length = sl.length := by
      have : c :: (r ++ sl) = (c :: r) ++ sl := rfl
      rw [this, hr']
      rcases hsl with rfl | rfl
      · simp [List.takeWhile, hx]
      · simp [List.takeWhile, hx]
    have hxml : (c :: r) ++ sl ++ '>' :: rest = c :: ((r ++ sl) ++ '>' :: rest) := by simp
    rw [hxml]
    unfold matchAttrsSlash
    simp only [hc, ↓reduceIte, hd, ht, hcount]
    have hlen : (c :: (r ++ sl)).length - sl.length = (c :: r).length := by
      simp only [List.length_cons, List.length_append]; omega
    have hmax : max 1 ((c :: r).length) = (c :: r).length := by simp [Nat.max_def]
    rw [hlen, hmax]
    have : c :: (r ++ sl) = (c :: r) ++ sl := rfl
    rw [this]
    simp

/-- the attribute text with its trailing white space: what the expression captures as `attrs` -/
theorem attrsGap_facts {cls : Classes} (hs : Sane cls) (p : List Char × List Char) (r : Attrs) (gap : List Char)
    (ha : ∀ q ∈ p :: r, PlainAttr cls q) (hg : Gap cls (p :: r) gap) :
    attrsBody (p :: r) ++ gap ≠ [] ∧ (∀ c ∈ attrsBody (p :: r) ++ gap, c ≠ '>' ∧ c ≠ '\n') ∧
    (∃ r' x, attrsBody (p :: r) ++ gap = r' ++ [x] ∧ x ≠ '/') := by
  obtain ⟨c, x, hx, _⟩ := attrsBody_head (r := r) (ha p (by simp))
  refine ⟨by rw [hx]; simp, ?_, ?_⟩
  · intro y hy
    rcases List.mem_append.mp hy with hy | hy
    · exact attrsBody_clean hs _ ha y hy
    · have := hg.1 y hy
      refine ⟨?_, this.2⟩
      rintro rfl
      rw [hs.strip_gt] at this; cases this.1
  · rcases List.eq_nil_or_concat gap with hgn | ⟨g', y, hgy⟩
    · obtain ⟨r', hr'⟩ := attrsBody_endsQuote (p :: r) (by simp)
      exact ⟨r', '"', by rw [hgn, List.append_nil, hr'], by decide⟩
    · refine ⟨attrsBody (p :: r) ++ g', y, by rw [hgy]; simp, ?_⟩
      rintro rfl
      have := (hg.1 '/' (by rw [hgy]; simp)).1
      rw [hs.strip_slash] at this; cases this

theorem matchTag1_plain {cls : Classes} (hs : Sane cls) (n : List Char) (p : List Char × List Char) (r : Attrs)
    (gap sl rest : List Char) (hn : PlainName cls n) (ha : ∀ q ∈ p :: r, PlainAttr cls q)
    (hg : Gap cls (p :: r) gap) (hsl : sl = [] ∨ sl = ['/']) :
    matchTag1 cls ('<' :: (n ++ attrsText (p :: r) ++ gap ++ sl ++ '>' :: rest)) =
      some (n, [' '], attrsBody (p :: r) ++ gap, sl) := by
  have hxml : '<' :: (n ++ attrsText (p :: r) ++ gap ++ sl ++ '>' :: rest) =
      '<' :: (n ++ ' ' :: (attrsBody (p :: r) ++ gap ++ sl ++ '>' :: rest)) := by
    simp [attrsText_cons, List.append_assoc]
  obtain ⟨ht, hd⟩ := takeWhile_run cls.isWord n ' ' (attrsBody (p :: r) ++ gap ++ sl ++ '>' :: rest) hn.2 hs.word_sp
  have hne : n.isEmpty = false := by
    cases n with
    | nil => exact absurd rfl hn.1
    | cons _ _ => rfl
  obtain ⟨h1, h2, h3⟩ := attrsGap_facts hs p r gap ha hg
  have hm := matchAttrsSlash_plain (attrsBody (p :: r) ++ gap) sl rest h1 h2 h3 hsl
  rw [hxml]
  unfold matchTag1
  simp only [ht, hd, hne, Bool.false_eq_true, ↓reduceIte]
  unfold findWs
  simp only [hs.space_sp, ↓reduceIte, hm, List.nil_append]

theorem matchTag_attrless {cls : Classes} (hs : Sane cls) (n rest : List Char) (hn : PlainName cls n) :
    matchTag1 cls ('<' :: (n ++ '>' :: rest)) = none ∧ matchTag2 cls ('<' :: (n ++ '>' :: rest)) = some n := by
  obtain ⟨ht, hd⟩ := takeWhile_run cls.isWord n '>' rest hn.2 hs.word_gt
  have hne : n.isEmpty = false := by
    cases n with
    | nil => exact absurd rfl hn.1
    | cons _ _ => rfl
  constructor
  · unfold matchTag1
    simp only [ht, hd, hne, Bool.false_eq_true, ↓reduceIte]
    unfold findWs
    simp [hs.space_gt]
  · unfold matchTag2
    simp [ht, hd, hne]

theorem parseAttrs_tag {cls : Classes} (hs : Sane cls) (sw : Switches) (p : List Char × List Char) (r : Attrs)
    (gap : List Char) (ha : ∀ q ∈ p :: r, PlainAttr cls q) (hg : Gap cls (p :: r) gap) :
    parseAttrs cls sw ((attrsBody (p :: r) ++ gap).length + 1) (attrsBody (p :: r) ++ gap) [] =
      .ok (attrsDict (p :: r)) := by
  rw [parseAttrs_gap hs sw p r gap (ha p (by simp)) (fun c hc => (hg.1 c hc).1)]
  exact parseAttrs_plain hs sw (p :: r) ha _ [] (by simp only [List.length_append]; omega)

/-- **`_parse_tag` reads a rendered start tag**: the name, the attributes (None when there are none),
    and the index right after the tag. -/
theorem parseTag_plain {cls : Classes} (hs : Sane cls) (sw : Switches) (n : List Char) (a : Attrs)
    (gap rest : List Char) (hn : PlainName cls n) (ha : ∀ q ∈ a, PlainAttr cls q) (hg : Gap cls a gap) :
    parseTag cls sw (startTag n a gap ++ rest) = .ok (n, attrsOpt a, (startTag n a gap).length) := by
  cases a with
  | nil =>
    have hgap : gap = [] := hg.2 rfl
    subst hgap
    have hxml : startTag n [] [] ++ rest = '<' :: (n ++ '>' :: rest) := by simp [startTag, startBody, attrsText]
    obtain ⟨h1, h2⟩ := matchTag_attrless hs n rest hn
    rw [hxml]
    unfold parseTag
    simp only [h1, h2]
    simp [attrsOpt, startTag, startBody, attrsText]
  | cons p r =>
    have hxml : startTag n (p :: r) gap ++ rest = '<' :: (n ++ attrsText (p :: r) ++ gap ++ [] ++ '>' :: rest) := by
      simp [startTag, startBody, List.append_assoc]
    have h1 := matchTag1_plain hs n p r gap [] rest hn ha hg (Or.inl rfl)
    have h2 := parseAttrs_tag hs sw p r gap ha hg
    rw [hxml]
    unfold parseTag
    simp only [h1, h2]
    simp [attrsOpt, startTag, startBody, attrsText_cons]
    omega

/-- … and a rendered self-closing tag -/
theorem parseTag_self {cls : Classes} (hs : Sane cls) (sw : Switches) (n : List Char) (p : List Char × List Char)
    (r : Attrs) (gap rest : List Char) (hn : PlainName cls n) (ha : ∀ q ∈ p :: r, PlainAttr cls q)
    (hg : Gap cls (p :: r) gap) :
    parseTag cls sw (selfTag n (p :: r) gap ++ rest) =
      .ok (n, attrsOpt (p :: r), (selfTag n (p :: r) gap).length) := by
  have hxml : selfTag n (p :: r) gap ++ rest = '<' :: (n ++ attrsText (p :: r) ++ gap ++ ['/'] ++ '>' :: rest) := by
    simp [selfTag, selfBody, List.append_assoc]
  have h1 := matchTag1_plain hs n p r gap ['/'] rest hn ha hg (Or.inr rfl)
  have h2 := parseAttrs_tag hs sw p r gap ha hg
  rw [hxml]
  unfold parseTag
  simp only [h1, h2]
  simp [attrsOpt, selfTag, selfBody, attrsText_cons]
  omega

end Kskm.Xml

namespace Kskm.Xml

/-! ### the self-closing test on a rendered tag -/

theorem startTag_last2 {cls : Classes} (hs : Sane cls) (n : List Char) (a : Attrs) (gap : List Char)
    (hn : PlainName cls n) (hg : Gap cls a gap) :
    ∃ pre x, startTag n a gap = pre ++ [x, '>'] ∧ x ≠ '/' := by
  have : ∃ r x, n ++ attrsText a ++ gap = r ++ [x] ∧ x ≠ '/' := by
    rcases List.eq_nil_or_concat gap with hgn | ⟨g', y, hgy⟩
    · subst hgn
      cases a with
      | nil =>
        obtain ⟨r, x, hrx⟩ : ∃ r x, n = r ++ [x] := by
          rcases List.eq_nil_or_concat n with h | ⟨r, x, h⟩
          · exact absurd h hn.1
          · exact ⟨r, x, by simpa using h⟩
        refine ⟨r, x, by simp [attrsText, hrx], ?_⟩
        rintro rfl
        have := hn.2 '/' (by rw [hrx]; simp)
        rw [hs.word_slash] at this; cases this
      | cons p q =>
        obtain ⟨r, hr⟩ := attrsText_endsQuote (p :: q) (by simp)
        exact ⟨n ++ r, '"', by rw [hr]; simp, by decide⟩
    · refine ⟨n ++ attrsText a ++ g', y, by rw [hgy]; simp, ?_⟩
      rintro rfl
      have := (hg.1 '/' (by rw [hgy]; simp)).1
      rw [hs.strip_slash] at this; cases this
  obtain ⟨r, x, hrx, hx⟩ := this
  exact ⟨'<' :: r, x, by simp only [startTag, startBody, hrx]; simp, hx⟩

theorem slice_last2 (pre rest : List Char) (x y : Char) :
    slice (pre ++ [x, y] ++ rest) ((pre ++ [x, y]).length - 2) (pre ++ [x, y]).length = [x, y] := by
  have h1 : (pre ++ [x, y]).length - 2 = pre.length := by simp
  rw [h1]
  unfold slice
  rw [List.take_left']
  · simp
  · rfl

theorem slice_mid (s b tail : List Char) : slice (s ++ b ++ tail) s.length (s.length + b.length) = b := by
  unfold slice
  have : (s ++ b ++ tail).take (s.length + b.length) = s ++ b := by
    rw [← List.length_append]; exact List.take_left' rfl
  rw [this]
  simp

/-! ### `_find_end_of_element` on a rendered element -/

theorem nestedStep_eq (xml et pat : List Char) (e : Nat)
    (h : indexFrom pat xml 0 = none ∨ ∃ i, indexFrom pat xml 0 = some i ∧ (i = 0 ∨ e ≤ i)) :
    nestedStep xml et pat e = e := by
  unfold nestedStep
  rcases h with h | ⟨i, h, hi⟩
  · rw [h]
  · rw [h]
    simp only
    rcases hi with rfl | hi
    · simp
    · have : ¬ i < e := by omega
      simp [this]

theorem indexFrom_zero (pat xml : List Char) : indexFrom pat xml 0 = findAux pat xml 0 := by
  unfold indexFrom; simp

/-- the own start tag either IS the pattern's beginning (then `index` answers 0) or is passed over -/
theorem own_open {cls : Classes} (hs : Sane cls) (n : List Char) (a : Attrs) (gap : List Char)
    (hn : PlainName cls n) (ha : ∀ p ∈ a, PlainAttr cls p) (hg : Gap cls a gap) (t : Char) (ht : t = '>' ∨ t = ' ') :
    (∃ x, startTag n a gap = ('<' :: (n ++ [t])) ++ x) ∨ Skip ('<' :: (n ++ [t])) (startTag n a gap) := by
  obtain ⟨t', x, ht', hshape⟩ := startBody_shape n a gap hg
  by_cases htt : t = t'
  · left
    exact ⟨x, by rw [startTag_eq, hshape, htt]; simp⟩
  · right
    have htw : cls.isWord t = false := by
      rcases ht with rfl | rfl
      · exact hs.word_gt
      · exact hs.word_sp
    have htw' : cls.isWord t' = false := by
      rcases ht' with rfl | rfl
      · exact hs.word_sp
      · exact hs.word_gt
    rw [startTag_eq]
    apply skip_tag _ _ (startBody_no_lt hs hn ha hg)
    intro tail h
    have h1 := (List.cons_prefix_cons.mp h).2
    rw [hshape] at h1
    have := word_run_prefix cls.isWord n n t t' (x ++ tail) hn.2 hn.2 htw htw'
      (by simpa [List.append_assoc] using h1)
    exact htt this.2

theorem nested_check_plain {cls : Classes} (hs : Sane cls) (n : List Char) (a : Attrs) (gap B tail : List Char)
    (hn : PlainName cls n) (ha : ∀ p ∈ a, PlainAttr cls p) (hg : Gap cls a gap) (t : Char) (ht : t = '>' ∨ t = ' ')
    (hB : Skip ('<' :: (n ++ [t])) B) :
    nestedStep (startTag n a gap ++ B ++ endTag n ++ tail) (endTag n) ('<' :: (n ++ [t]))
      ((startTag n a gap).length + B.length) = (startTag n a gap).length + B.length := by
  apply nestedStep_eq
  rw [indexFrom_zero]
  rcases own_open hs n a gap hn ha hg t ht with ⟨x, hx⟩ | hskip
  · right
    refine ⟨0, ?_, Or.inl rfl⟩
    rw [hx]
    simp only [List.append_assoc]
    exact findAux_hit _ _ 0 (by simp)
  · have h1 : findAux ('<' :: (n ++ [t])) (startTag n a gap ++ B ++ endTag n ++ tail) 0 =
        findAux ('<' :: (n ++ [t])) tail ((startTag n a gap).length + B.length + (endTag n).length) := by
      rw [List.append_assoc, List.append_assoc, hskip, hB, skip_own_endTag hs hn t]
      simp
    rw [h1]
    cases hf : findAux ('<' :: (n ++ [t])) tail ((startTag n a gap).length + B.length + (endTag n).length) with
    | none => exact Or.inl rfl
    | some i =>
      right
      obtain ⟨k, hk, _, _⟩ := findAux_spec _ _ _ _ hf
      exact ⟨i, rfl, Or.inr (by omega)⟩

/-- **`_find_end_of_element` finds the element's own end tag** when its body is passed over by the
    three patterns (no `<`-text, no element of the same name inside). -/
theorem findEnd_plain {cls : Classes} (hs : Sane cls) (n : List Char) (a : Attrs) (gap B tail : List Char)
    (hn : PlainName cls n) (ha : ∀ p ∈ a, PlainAttr cls p) (hg : Gap cls a gap)
    (hB : ∀ pat, IsPat n pat → Skip pat B) :
    findEndOfElement (startTag n a gap ++ B ++ endTag n ++ tail) (startTag n a gap).length n =
      some ((startTag n a gap).length + B.length, (startTag n a gap).length + B.length + (endTag n).length) := by
  have hidx : indexFrom (endTag n) (startTag n a gap ++ B ++ endTag n ++ tail) (startTag n a gap).length =
      some ((startTag n a gap).length + B.length) := by
    unfold indexFrom
    have hle : ¬ (startTag n a gap).length > (startTag n a gap ++ B ++ endTag n ++ tail).length := by
      simp only [List.length_append]; omega
    simp only [hle, ↓reduceIte]
    have hdrop : (startTag n a gap ++ B ++ endTag n ++ tail).drop (startTag n a gap).length = B ++ (endTag n ++ tail) := by
      rw [List.append_assoc, List.append_assoc, List.drop_left']
      rfl
    rw [hdrop, hB _ IsPat.close]
    exact findAux_hit _ _ _ (by simp [endTag])
  unfold findEndOfElement
  simp only [hidx]
  rw [nested_check_plain hs n a gap B tail hn ha hg '>' (Or.inl rfl) (hB _ IsPat.openGt),
    nested_check_plain hs n a gap B tail hn ha hg ' ' (Or.inr rfl) (hB _ IsPat.openSp)]

/-! ### `parse_first_element` on a rendered element -/

theorem parseFirstElement_plain {cls : Classes} (hs : Sane cls) (sw : Switches) (n : List Char) (a : Attrs)
    (gap B tail : List Char) (hn : PlainName cls n) (ha : ∀ p ∈ a, PlainAttr cls p) (hg : Gap cls a gap)
    (hB : ∀ pat, IsPat n pat → Skip pat B) :
    parseFirstElement cls sw (startTag n a gap ++ B ++ endTag n ++ tail) =
      .ok ({ name := n, attrs := attrsOpt a, value := strip cls.isStrip B },
           (startTag n a gap ++ B ++ endTag n).length) := by
  have htag : parseTag cls sw (startTag n a gap ++ B ++ endTag n ++ tail) =
      .ok (n, attrsOpt a, (startTag n a gap).length) := by
    have := parseTag_plain hs sw n a gap (B ++ endTag n ++ tail) hn ha hg
    simpa [List.append_assoc] using this
  obtain ⟨pre, x, hpre, hx⟩ := startTag_last2 hs n a gap hn hg
  have hnot : ¬ slice (startTag n a gap ++ B ++ endTag n ++ tail) ((startTag n a gap).length - 2)
      (startTag n a gap).length = ['/', '>'] := by
    have := slice_last2 pre (B ++ endTag n ++ tail) x '>'
    rw [← hpre] at this
    have h2 : startTag n a gap ++ (B ++ endTag n ++ tail) = startTag n a gap ++ B ++ endTag n ++ tail := by
      simp [List.append_assoc]
    rw [h2] at this
    rw [this]
    intro h
    simp only [List.cons.injEq, and_true] at h
    exact hx h
  unfold parseFirstElement
  simp only [htag, hnot, ↓reduceIte, findEnd_plain hs n a gap B tail hn ha hg hB]
  have hsl : slice (startTag n a gap ++ B ++ endTag n ++ tail) (startTag n a gap).length
      ((startTag n a gap).length + B.length) = B := by
    have := slice_mid (startTag n a gap) B (endTag n ++ tail)
    simpa [List.append_assoc] using this
  rw [hsl]
  simp [List.length_append, Nat.add_assoc]

/-- a rendered self-closing element: empty value, ends right after the tag -/
theorem parseFirstElement_self {cls : Classes} (hs : Sane cls) (sw : Switches) (n : List Char)
    (p : List Char × List Char) (r : Attrs) (gap tail : List Char) (hn : PlainName cls n)
    (ha : ∀ q ∈ p :: r, PlainAttr cls q) (hg : Gap cls (p :: r) gap) :
    parseFirstElement cls sw (selfTag n (p :: r) gap ++ tail) =
      .ok ({ name := n, attrs := attrsOpt (p :: r), value := [] }, (selfTag n (p :: r) gap).length) := by
  have htag := parseTag_self hs sw n p r gap tail hn ha hg
  have hshape : selfTag n (p :: r) gap = ('<' :: (n ++ attrsText (p :: r) ++ gap)) ++ ['/', '>'] := by
    simp [selfTag, selfBody, List.append_assoc]
  have hsl : slice (selfTag n (p :: r) gap ++ tail) ((selfTag n (p :: r) gap).length - 2)
      (selfTag n (p :: r) gap).length = ['/', '>'] := by
    have := slice_last2 ('<' :: (n ++ attrsText (p :: r) ++ gap)) tail '/' '>'
    rw [← hshape] at this
    exact this
  unfold parseFirstElement
  simp only [htag, hsl, ↓reduceIte]

/-- the stripped text between the tags of a rendered element -/
def contentOf : PTree → List Char
  | .leaf _ _ _ text => text
  | .empty _ _ _ => []
  | .node _ _ _ _ first rest _ => levelText first rest

/-- **`parse_first_element` reads a rendered plain element**, whatever follows it. -/
theorem parseFirstElement_tree {cls : Classes} (hs : Sane cls) (sw : Switches) (t : PTree) (hp : PlainT cls t)
    (tail : List Char) :
    parseFirstElement cls sw (renderT t ++ tail) =
      .ok ({ name := t.name, attrs := attrsOpt t.attrs, value := contentOf t }, (renderT t).length) := by
  cases t with
  | leaf n a gap text =>
    obtain ⟨hn, ha, hg, htext⟩ := hp
    have := parseFirstElement_plain hs sw n a gap text tail hn ha hg (fun pat hpat => skip_text hpat htext.1)
    rw [renderT]
    simpa [PTree.name, PTree.attrs, contentOf, htext.2] using this
  | empty n a gap =>
    obtain ⟨hn, ha, hg, hane⟩ := hp
    cases a with
    | nil => exact absurd rfl hane
    | cons p r =>
      have := parseFirstElement_self hs sw n p r gap tail hn ha hg
      rw [renderT]
      simpa [PTree.name, PTree.attrs, contentOf] using this
  | node n a gap pre first rest post =>
    obtain ⟨hn, ha, hg, hpre, hpost, hf, hr, hof, hor⟩ := hp
    have hB : ∀ pat, IsPat n pat → Skip pat (pre ++ levelText first rest ++ post) := by
      intro pat hpat
      exact ((skip_text hpat (hpre.no_lt hs)).append (Skip.append (skipT hs hn hpat first hf hof)
        (skipF hs hn hpat rest hr hor))).append (skip_text hpat (hpost.no_lt hs))
    have := parseFirstElement_plain hs sw n a gap (pre ++ levelText first rest ++ post) tail hn ha hg hB
    obtain ⟨r, hr1, hr2⟩ := levelText_shape first rest
    have hstrip : strip cls.isStrip (pre ++ levelText first rest ++ post) = levelText first rest := by
      rw [hr1] at hr2 ⊢
      exact strip_padded cls.isStrip '<' '>' r pre post hpre hpost hs.strip_lt hs.strip_gt hr2
    rw [hstrip] at this
    have hrender : renderT (.node n a gap pre first rest post) =
        startTag n a gap ++ (pre ++ levelText first rest ++ post) ++ endTag n := by
      rw [renderT]; simp [levelText, List.append_assoc]
    rw [hrender]
    simpa [PTree.name, PTree.attrs, contentOf] using this

end Kskm.Xml

namespace Kskm.Xml

/-! ### one iteration of the element loop, the loop, the recursion -/

/-- what the recursive call must answer for the children of a node (nothing is asked for a leaf) -/
def InnerOkT (inner : List Char → Out Dict) : PTree → Prop
  | .leaf _ _ _ _ => True
  | .empty _ _ _ => True
  | .node _ _ _ _ first rest _ =>
    inner (levelText first rest) = .ok (storeF (storeElement [] first.name (valT first)) rest)

def InnerOkF (inner : List Char → Out Dict) : PForest → Prop
  | .nil => True
  | .cons _ t f => InnerOkT inner t ∧ InnerOkF inner f

theorem elementContent_tree {cls : Classes} (inner : List Char → Out Dict) (t : PTree) (hp : PlainT cls t)
    (hi : InnerOkT inner t) :
    (elementContent inner (contentOf t)).bind (fun v => .ok (elementValue (attrsOpt t.attrs) v)) = .ok (valT t) := by
  cases t with
  | leaf n a gap text =>
    have hlt : '<' ∉ text := hp.2.2.2.1
    have : elementContent inner text = .ok (.str text) := by
      unfold elementContent
      split
      · rename_i r
        exact absurd (by simp) hlt
      · rfl
    simp [contentOf, this, Out.bind, valT, PTree.attrs]
  | empty n a gap =>
    have : elementContent inner [] = .ok (.str []) := by simp [elementContent]
    simp [contentOf, this, Out.bind, valT, PTree.attrs]
  | node n a gap pre first rest post =>
    obtain ⟨r, hr1, _⟩ := levelText_shape first rest
    have : elementContent inner (levelText first rest) =
        .ok (.dict (storeF (storeElement [] first.name (valT first)) rest)) := by
      unfold elementContent
      rw [hr1]
      simp only
      rw [← hr1, hi]
    simp [contentOf, this, Out.bind, valT, PTree.attrs]

/-- **One iteration** on a string whose stripped form is a rendered plain element followed by `tl`:
    the element is stored and the loop goes on with `tl`. -/
theorem parseStep_tree {cls : Classes} (hs : Sane cls) (sw : Switches) (inner : List Char → Out Dict)
    (t : PTree) (hp : PlainT cls t) (hi : InnerOkT inner t) (xml tl : List Char) (res : Dict)
    (hstrip : strip cls.isStrip xml = renderT t ++ tl) :
    parseStep cls sw inner xml res = .next tl (storeElement res t.name (valT t)) := by
  obtain ⟨r, hr, _⟩ := renderT_shape t
  have hpf := parseFirstElement_tree hs sw t hp tl
  have hec := elementContent_tree inner t hp hi
  have hshape : strip cls.isStrip xml = '<' :: (r ++ tl) := by rw [hstrip, hr]; rfl
  have hback : '<' :: (r ++ tl) = renderT t ++ tl := by rw [hr]; rfl
  unfold parseStep
  rw [hshape]
  simp only [ne_eq, not_true_eq_false, ↓reduceIte]
  rw [hback, hpf]
  simp only
  cases hc : elementContent inner (contentOf t) with
  | err k => rw [hc] at hec; simp [Out.bind] at hec
  | outOfFuel => rw [hc] at hec; simp [Out.bind] at hec
  | ok v =>
    rw [hc] at hec
    simp only [Out.bind, Out.ok.injEq] at hec
    simp only [List.drop_left', hec]

theorem countF_le_length : ∀ (f : PForest), countF f ≤ (renderF f).length
  | .nil => by simp [countF]
  | .cons sep t f => by
    have := countF_le_length f
    have h1 : 0 < (renderT t).length := List.length_pos_iff.mpr (renderT_ne_nil t)
    rw [renderF, countF]
    simp only [List.length_append]
    omega

/-- **The loop over further siblings**: each is stored in document order. -/
theorem parseLoop_forest {cls : Classes} (hs : Sane cls) (sw : Switches) (inner : List Char → Out Dict) :
    ∀ (f : PForest), PlainF cls f → InnerOkF inner f → ∀ (fuel : Nat) (res : Dict), countF f ≤ fuel →
      parseLoop cls sw inner fuel (renderF f) res = .ok (storeF res f)
  | .nil, _, _, fuel, res, _ => by rw [renderF, parseLoop_nil, storeF]
  | .cons sep t f, hp, hi, fuel, res, hf => by
    cases fuel with
    | zero => simp [countF] at hf
    | succ fuel' =>
      obtain ⟨r, hr, he⟩ := renderT_shape t
      have hend : EndsWith '>' (renderT t ++ renderF f) := by
        cases f with
        | nil => rw [renderF, List.append_nil]; exact he
        | cons sep' t' f' => exact (renderF_endsGt _ (by simp)).append_left _
      have hstrip : strip cls.isStrip (renderF (.cons sep t f)) = renderT t ++ renderF f := by
        rw [renderF]
        rw [hr] at hend ⊢
        have := strip_padded cls.isStrip '<' '>' (r ++ renderF f) sep [] hp.1 (by simp) hs.strip_lt hs.strip_gt hend
        simpa [List.append_assoc] using this
      have hstep := parseStep_tree hs sw inner t hp.2.1 hi.1 (renderF (.cons sep t f)) (renderF f) res hstrip
      have hne : (renderF (.cons sep t f)).isEmpty = false := by
        rw [renderF, hr]
        cases sep <;> rfl
      rw [parseLoop]
      simp only [hne, Bool.false_eq_true, ↓reduceIte, hstep]
      rw [storeF]
      exact parseLoop_forest hs sw inner f hp.2.2 hi.2 fuel' _ (by simp [countF] at hf; omega)

/-- **The loop over the children of a node** (or over the document: one root element), with any
    white space before and after. -/
theorem parseLoop_level {cls : Classes} (hs : Sane cls) (sw : Switches) (inner : List Char → Out Dict)
    (first : PTree) (rest : PForest) (lead trail : List Char) (hpf : PlainT cls first) (hpr : PlainF cls rest)
    (hlead : Ws cls lead) (htrail : Ws cls trail)
    (hif : InnerOkT inner first) (hir : InnerOkF inner rest) (fuel : Nat) (res : Dict)
    (hfuel : countF rest + 1 ≤ fuel) :
    parseLoop cls sw inner fuel (lead ++ levelText first rest ++ trail) res =
      .ok (storeF (storeElement res first.name (valT first)) rest) := by
  cases fuel with
  | zero => omega
  | succ fuel' =>
    obtain ⟨r, hr, he⟩ := levelText_shape first rest
    have hstrip : strip cls.isStrip (lead ++ levelText first rest ++ trail) = renderT first ++ renderF rest := by
      rw [hr] at he ⊢
      have := strip_padded cls.isStrip '<' '>' r lead trail hlead htrail hs.strip_lt hs.strip_gt he
      rw [this, ← hr]
      rfl
    have hstep := parseStep_tree hs sw inner first hpf hif _ (renderF rest) res hstrip
    have hne : (lead ++ levelText first rest ++ trail).isEmpty = false := by
      rw [hr]
      cases lead <;> rfl
    rw [parseLoop]
    simp only [hne, Bool.false_eq_true, ↓reduceIte, hstep]
    exact parseLoop_forest hs sw inner rest hpr hir fuel' _ (by omega)

theorem levelText_fuel (first : PTree) (rest : PForest) (lead trail : List Char) :
    countF rest + 1 ≤ (lead ++ levelText first rest ++ trail).length + 1 := by
  have := countF_le_length rest
  simp only [levelText, List.length_append]
  omega

mutual
theorem innerOk_of_rec {cls : Classes} (inner : List Char → Out Dict) (d : Nat)
    (ih : ∀ (first : PTree) (rest : PForest), PlainT cls first → PlainF cls rest → heightT first ≤ d →
      heightF rest ≤ d → inner (levelText first rest) = .ok (storeF (storeElement [] first.name (valT first)) rest)) :
    ∀ (t : PTree), PlainT cls t → heightT t ≤ d + 1 → InnerOkT inner t
  | .leaf _ _ _ _, _, _ => trivial
  | .empty _ _ _, _, _ => trivial
  | .node n a gap pre first rest post, hp, hh => by
    obtain ⟨_, _, _, _, _, hf, hr, _, _⟩ := hp
    rw [heightT] at hh
    exact ih first rest hf hr (by omega) (by omega)
theorem innerOkF_of_rec {cls : Classes} (inner : List Char → Out Dict) (d : Nat)
    (ih : ∀ (first : PTree) (rest : PForest), PlainT cls first → PlainF cls rest → heightT first ≤ d →
      heightF rest ≤ d → inner (levelText first rest) = .ok (storeF (storeElement [] first.name (valT first)) rest)) :
    ∀ (f : PForest), PlainF cls f → heightF f ≤ d + 1 → InnerOkF inner f
  | .nil, _, _ => trivial
  | .cons sep t f, hp, hh => by
    rw [heightF] at hh
    exact ⟨innerOk_of_rec inner d ih t hp.2.1 (by omega), innerOkF_of_rec inner d ih f hp.2.2 (by omega)⟩
end

theorem innerOk_leaf_level (inner : List Char → Out Dict) :
    ∀ (t : PTree), heightT t ≤ 0 → InnerOkT inner t
  | .leaf _ _ _ _, _ => trivial
  | .empty _ _ _, _ => trivial
  | .node _ _ _ _ _ _ _, hh => by rw [heightT] at hh; omega

theorem innerOkF_leaf_level (inner : List Char → Out Dict) :
    ∀ (f : PForest), heightF f ≤ 0 → InnerOkF inner f
  | .nil, _ => trivial
  | .cons _ t f, hh => by
    rw [heightF] at hh
    exact ⟨innerOk_leaf_level inner t (by omega), innerOkF_leaf_level inner f (by omega)⟩

/-- **`_parse_recursively` with `recurse = d`** reads the children of a node — or a whole document, with
    any white space around it — whose element nesting is at most `d` levels deep, into the dict of the
    standard reading. -/
theorem parseRec_level {cls : Classes} (hs : Sane cls) (sw : Switches) : ∀ (d : Nat) (first : PTree) (rest : PForest)
    (lead trail : List Char),
    PlainT cls first → PlainF cls rest → Ws cls lead → Ws cls trail → heightT first ≤ d → heightF rest ≤ d →
      parseRec cls sw d (lead ++ levelText first rest ++ trail) =
        .ok (storeF (storeElement [] first.name (valT first)) rest) := by
  intro d
  induction d with
  | zero =>
    intro first rest lead trail hpf hpr hl ht hhf hhr
    rw [parseRec]
    exact parseLoop_level hs sw _ first rest lead trail hpf hpr hl ht (innerOk_leaf_level _ first hhf)
      (innerOkF_leaf_level _ rest hhr) _ [] (levelText_fuel first rest lead trail)
  | succ d ih =>
    intro first rest lead trail hpf hpr hl ht hhf hhr
    have ih' : ∀ (first : PTree) (rest : PForest), PlainT cls first → PlainF cls rest → heightT first ≤ d →
        heightF rest ≤ d → parseRec cls sw d (levelText first rest) =
          .ok (storeF (storeElement [] first.name (valT first)) rest) := by
      intro f r h1 h2 h3 h4
      have := ih f r [] [] h1 h2 (by intro c hc; simp at hc) (by intro c hc; simp at hc) h3 h4
      simpa using this
    rw [parseRec]
    exact parseLoop_level hs sw _ first rest lead trail hpf hpr hl ht (innerOk_of_rec _ d ih' first hpf hhf)
      (innerOkF_of_rec _ d ih' rest hpr hhr) _ [] (levelText_fuel first rest lead trail)

end Kskm.Xml
