/-
  C20 — the KSR receiver confines uploads, admits listed clients, judges like the signer.

  * `wash_*`, `path_confined`, `write_once_inside`: whatever file name the client supplies (any
    sequence of code points, lone surrogates included), the stored name consists of
    `[A-Za-z0-9_-]`, a timestamp suffix and `.xml`; the path written is the upload directory plus
    that single component.
  * `gates_before_write`: wrong content type → 400, missing size → 400, over-size → 413, each with
    an EMPTY effect log (body not read, nothing opened, nothing written).
  * `whitelist_403`, `no_certificate_no_handler`, `dispatch_callNext_iff`, `digest_never_none`:
    the middleware as written, including its `digest is None` pass-through branch, which is shown
    unreachable because `request_peercert` raises when there is no certificate.
  * `verdict_iff`, `verdict_error_iff`, `verdict_propagates`, `verdict_vs_signer`: `validate_ksr`
    answers OK exactly when the signer's KSR validation and the token-less chain validation accept,
    ERROR exactly on a policy violation of either, and lets every other failure through uncaught.
  * (work package B5) the rest of the receiver: `fingerprint_text`, `entry_not_lowercase_never_admits` (what
    a whitelist entry must look like to admit anybody), `loadTls_*` / `loadKsrSection_*` and the `*_current_tree`
    theorems (configuration model against the regenerated tables: `require_client_cert` has no default,
    `max_size > 0`, the defaults), `tls_cert_reqs` / `tls_requires_client_cert_current_tree` (what the TLS
    server is told), and the `POST /upload` route behind the middleware: `upload_refused_unlisted`,
    `upload_gate_failure`, `upload_page_iff`, `upload_ok_iff_signer_ok`, `upload_effects_order`,
    `upload_disk_needs_listed_and_gates`, `upload_writes_confined` (path confinement end to end, for every request).
-/
import Kskm.Wksr
import Kskm.WksrConfig
import Kskm.FileEffects
import KskmGen.Tables
import KskmProofs.Lemmas.C20Wash
import KskmProofs.Lemmas.C17Load
import KskmProofs.C17
namespace Kskm.C20
open Kskm.Wksr

/-! ## The regular expression the scan was derived from -/

/-- the `re.sub` pattern in `wksr/server.py` is still the one `wash` mirrors (regenerated on every run) -/
theorem regex_pinned :
    ("src/kskm/wksr/server.py:re.sub#1", "[^a-zA-Z0-9_\\-]+") ∈ KskmGen.regexLiterals := by decide

/-! ## File-name washing -/

/-- **wash_safe.** For every input, every output character is in `[A-Za-z0-9_-]`. -/
theorem wash_safe (s : List Nat) : ∀ c ∈ wash s, isSafeCp c = true := washFrom_safe s false

/-- **wash_no_separator.** No `/`, `\`, `.`, NUL, `:` or space survives; nor any non-ASCII code point. -/
theorem wash_no_separator (s : List Nat) :
    47 ∉ wash s ∧ 92 ∉ wash s ∧ 46 ∉ wash s ∧ 0 ∉ wash s ∧ 58 ∉ wash s ∧ 32 ∉ wash s ∧
    ∀ c ∈ wash s, c < 128 := by
  have h := wash_safe s
  refine ⟨fun m => ?_, fun m => ?_, fun m => ?_, fun m => ?_, fun m => ?_, fun m => ?_, ?_⟩
  · exact absurd (h _ m) (by decide)
  · exact absurd (h _ m) (by decide)
  · exact absurd (h _ m) (by decide)
  · exact absurd (h _ m) (by decide)
  · exact absurd (h _ m) (by decide)
  · exact absurd (h _ m) (by decide)
  · intro c hc
    have := h c hc
    simp only [isSafeCp, Bool.or_eq_true, Bool.and_eq_true, decide_eq_true_eq, beq_iff_eq] at this
    omega

/-- **wash_idempotent.** -/
theorem wash_idempotent (s : List Nat) : wash (wash s) = wash s :=
  washFrom_id_of_safe (wash s) (wash_safe s) false

/-- a name made of safe characters only is kept as it is -/
theorem wash_safe_fixed (s : List Nat) (h : ∀ c ∈ s, isSafeCp c = true) : wash s = s :=
  washFrom_id_of_safe s h false

/-- **Every maximal run of unsafe characters becomes ONE underscore** — the three equations that
    determine the function reading left to right: a safe character is copied; a non-empty run of
    unsafe characters followed by a safe one yields `_` and that character; a trailing run yields `_`. -/
theorem wash_runs :
    (∀ c r, isSafeCp c = true → wash (c :: r) = c :: wash r) ∧
    (∀ u c r, u ≠ [] → (∀ x ∈ u, isSafeCp x = false) → isSafeCp c = true →
        wash (u ++ c :: r) = 95 :: c :: wash r) ∧
    (∀ u, u ≠ [] → (∀ x ∈ u, isSafeCp x = false) → wash u = [95]) := by
  refine ⟨?_, ?_, ?_⟩
  · intro c r hc; simp [wash, washFrom, hc]
  · intro u c r hne hu hc
    have : u.isEmpty = false := by cases u <;> simp_all
    simp [wash, washFrom_run u hu c hc r false, this]
  · intro u hne hu
    have : u.isEmpty = false := by cases u <;> simp_all
    simp [wash, washFrom_trailing u hu false, this]

/-! ## Path confinement -/

/-- the shape of `strftime("_%Y%m%d_%H%M%S_%f")`: underscores and ASCII digits -/
def SuffixShape (suffix : List Nat) : Prop := ∀ c ∈ suffix, c = 95 ∨ (48 ≤ c ∧ c ≤ 57)

/-- **path_confined.** For every client file name, every clock string of the suffix shape and every
    upload directory: the final component `washed ++ suffix ++ ".xml"` contains no separator, is
    neither empty, `.` nor `..`, consists of `[A-Za-z0-9_-]` and the four characters of `.xml` only;
    the path is the upload directory extended by exactly that one component — its parent is the
    upload directory and it is absolute iff the upload directory is. -/
theorem path_confined (uploadDir : WPath) (filename : Option (List Nat)) (suffix : List Nat)
    (hs : SuffixShape suffix) :
    let name := wash (pyStrOpt filename) ++ suffix ++ dotXml
    let p := savePath uploadDir (wash (pyStrOpt filename)) suffix
    47 ∉ name ∧ 0 ∉ name ∧ name ≠ [] ∧ name ≠ [46] ∧ name ≠ [46, 46] ∧
    (∀ c ∈ name, isSafeCp c = true ∨ c ∈ dotXml) ∧
    p = { absolute := uploadDir.absolute, parts := uploadDir.parts ++ [name] } ∧
    p.parent = uploadDir ∧ p.name = name := by
  intro name p
  have hw := wash_safe (pyStrOpt filename)
  have hchars : ∀ c ∈ name, isSafeCp c = true ∨ c ∈ dotXml := by
    intro c hc
    simp only [name, List.mem_append] at hc
    rcases hc with (hc | hc) | hc
    · exact Or.inl (hw c hc)
    · left
      rcases hs c hc with rfl | h
      · decide
      · simp only [isSafeCp, Bool.or_eq_true, Bool.and_eq_true, decide_eq_true_eq, beq_iff_eq]; omega
    · exact Or.inr hc
  have h47 : 47 ∉ name := fun m => by
    rcases hchars 47 m with h | h
    · exact absurd h (by decide)
    · exact absurd h (by decide)
  have h0 : 0 ∉ name := fun m => by
    rcases hchars 0 m with h | h
    · exact absurd h (by decide)
    · exact absurd h (by decide)
  have hlen : 4 ≤ name.length := by simp [name, dotXml]; omega
  have hne : name ≠ [] := fun h => by rw [h] at hlen; simp at hlen
  have hdot : name ≠ [46] := fun h => by rw [h] at hlen; simp at hlen
  have hdd : name ≠ [46, 46] := fun h => by rw [h] at hlen; simp at hlen
  have hp : p = { absolute := uploadDir.absolute, parts := uploadDir.parts ++ [name] } := by
    show uploadDir.join (parsePath name) = _
    rw [parsePath_plain name h47 hne hdot]
    simp [WPath.join]
  refine ⟨h47, h0, hne, hdot, hdd, hchars, hp, ?_, ?_⟩
  · rw [hp]; simp [WPath.parent]
  · rw [hp]; simp [WPath.name]

/-! ## The gates and the single write -/

/-- **gates_before_write.** Each failing gate gives its exact status with an EMPTY effect log: the
    body is not read, the clock not consulted, nothing opened, nothing written. -/
theorem gates_before_write (cfg : KsrCfg) (hashHex : Bytes → String) (suffix : List Nat) (openOk : Bool)
    (u : Upload) :
    (u.contentType ≠ some cfg.contentType →
        saveKsr cfg hashHex suffix openOk u = (.error (.http 400), [])) ∧
    (u.contentType = some cfg.contentType → u.size = none →
        saveKsr cfg hashHex suffix openOk u = (.error (.http 400), [])) ∧
    (u.contentType = some cfg.contentType → ∀ size, u.size = some size → size > cfg.maxSize →
        saveKsr cfg hashHex suffix openOk u = (.error (.http 413), [])) := by
  refine ⟨?_, ?_, ?_⟩
  · intro h; simp [saveKsr, h]
  · intro h1 h2; simp [saveKsr, h1, h2]
  · intro h1 size h2 h3; simp [saveKsr, h1, h2, h3]

/-- no effect that touches the disk, and no read of the body, unless all three gates pass -/
theorem no_disk_effect_unless_gates_pass (cfg : KsrCfg) (hashHex : Bytes → String) (suffix : List Nat)
    (openOk : Bool) (u : Upload) (e : WEffect)
    (he : e ∈ (saveKsr cfg hashHex suffix openOk u).2) :
    u.contentType = some cfg.contentType ∧ ∃ size, u.size = some size ∧ size ≤ cfg.maxSize := by
  unfold saveKsr at he
  by_cases h1 : u.contentType = some cfg.contentType
  · refine ⟨h1, ?_⟩
    cases h2 : u.size with
    | none => simp [h1, h2] at he
    | some size =>
      by_cases h3 : size > cfg.maxSize
      · simp [h1, h2, h3] at he
      · exact ⟨size, rfl, by omega⟩
  · simp [h1] at he

/-- **write_once_inside.** A successful `save_ksr` passed all three gates, issued exactly one write —
    of exactly the body, to exactly the returned path —, returns the hash of that body, and the path
    is the upload directory plus the washed, timestamped, `.xml`-terminated component. -/
theorem write_once_inside (cfg : KsrCfg) (hashHex : Bytes → String) (suffix : List Nat) (openOk : Bool)
    (u : Upload) (p : WPath) (h : String)
    (hok : (saveKsr cfg hashHex suffix openOk u).1 = .ok (p, h)) :
    u.contentType = some cfg.contentType ∧ (∃ size, u.size = some size ∧ size ≤ cfg.maxSize) ∧
    p = savePath cfg.uploadPath (wash (pyStrOpt u.filename)) suffix ∧
    h = hashHex u.body ∧
    (saveKsr cfg hashHex suffix openOk u).2 = [.readBody, .now, .openWrite p, .write p u.body, .logSaved] := by
  unfold saveKsr at hok ⊢
  by_cases h1 : u.contentType = some cfg.contentType
  · cases h2 : u.size with
    | none => simp [h1, h2] at hok
    | some size =>
      by_cases h3 : size > cfg.maxSize
      · simp [h1, h2, h3] at hok
      · cases openOk
        · simp [h1, h2, h3] at hok
        · simp only [h1, h2, h3, bne_self_eq_false, Bool.false_eq_true, ↓reduceIte, Bool.not_true,
            Except.ok.injEq, Prod.mk.injEq] at hok ⊢
          obtain ⟨rfl, rfl⟩ := hok
          exact ⟨trivial, ⟨size, rfl, by omega⟩, rfl, rfl, rfl⟩
  · simp [h1] at hok

/-- a failed `open` writes nothing -/
theorem open_failure_writes_nothing (cfg : KsrCfg) (hashHex : Bytes → String) (suffix : List Nat) (u : Upload) :
    ∀ e ∈ (saveKsr cfg hashHex suffix false u).2, ∀ p d, e ≠ .write p d := by
  intro e he p d
  unfold saveKsr at he
  by_cases h1 : u.contentType = some cfg.contentType
  · cases h2 : u.size with
    | none => simp [h1, h2] at he
    | some size =>
      by_cases h3 : size > cfg.maxSize
      · simp [h1, h2, h3] at he
      · simp [h1, h2, h3] at he
        rcases he with rfl | rfl | rfl <;> simp
  · simp [h1] at he

/-! ## The whitelist -/

/-- **whitelist_403.** A client whose certificate parses and whose fingerprint is not on the list is
    refused with 403 — for every list, in particular the empty one. -/
theorem whitelist_403 (parseOk truthy : Bytes → Bool) (fp : Bytes → String) (whitelist : List String)
    (der : Bytes) (hp : parseOk der = true) (ht : truthy der = true) (hn : fp der ∉ whitelist) :
    dispatch parseOk truthy fp whitelist (.der der) = .ok (.http 403) := by
  simp [dispatch, requestPeercertDigest, requestPeercert, hp, ht, hn, bind, Except.bind, pure, Except.pure]

/-- **no_certificate_no_handler.** Without a TLS object, without a client certificate, or with
    octets that are not a certificate, the middleware ends in an exception: the request neither
    reaches the handler nor gets the `digest is None` pass-through. -/
theorem no_certificate_no_handler (parseOk truthy : Bytes → Bool) (fp : Bytes → String)
    (whitelist : List String) :
    dispatch parseOk truthy fp whitelist .noTls = err .attribute ∧
    dispatch parseOk truthy fp whitelist .noCert = err .type ∧
    (∀ der, parseOk der = false → dispatch parseOk truthy fp whitelist (.der der) = err .value) := by
  refine ⟨rfl, rfl, ?_⟩
  intro der h
  simp [dispatch, requestPeercertDigest, requestPeercert, h, err, bind, Except.bind]

/-- **digest_never_none.** `request_peercert_digest` returns `None` only for a certificate OBJECT
    that is falsy; `x509.Certificate` defines neither `__bool__` nor `__len__` (checked on the real
    class by harness/corr_C20.py), so with `truthy = fun _ => true` the `digest is None` branch of
    `dispatch` is dead code. -/
theorem digest_never_none (parseOk : Bytes → Bool) (fp : Bytes → String) (p : Peer) :
    requestPeercertDigest parseOk (fun _ => true) fp p ≠ .ok none := by
  cases p with
  | noTls => simp [requestPeercertDigest, requestPeercert, err, bind, Except.bind]
  | noCert => simp [requestPeercertDigest, requestPeercert, err, bind, Except.bind]
  | der b =>
    cases h : parseOk b <;>
      simp [requestPeercertDigest, requestPeercert, h, err, bind, Except.bind, pure, Except.pure]

/-- **dispatch_callNext_iff.** The request reaches the handler exactly when the client presented a
    parseable certificate whose fingerprint is on the list (certificate objects being truthy). -/
theorem dispatch_callNext_iff (parseOk : Bytes → Bool) (fp : Bytes → String) (whitelist : List String)
    (p : Peer) :
    dispatch parseOk (fun _ => true) fp whitelist p = .ok .callNext ↔
      ∃ der, p = .der der ∧ parseOk der = true ∧ fp der ∈ whitelist := by
  cases p with
  | noTls => simp [dispatch, requestPeercertDigest, requestPeercert, err, bind, Except.bind]
  | noCert => simp [dispatch, requestPeercertDigest, requestPeercert, err, bind, Except.bind]
  | der b =>
    cases h : parseOk b
    · simp [dispatch, requestPeercertDigest, requestPeercert, h, err, bind, Except.bind]
    · by_cases hm : fp b ∈ whitelist
      · simp [dispatch, requestPeercertDigest, requestPeercert, h, hm, bind, Except.bind, pure, Except.pure]
      · simp [dispatch, requestPeercertDigest, requestPeercert, h, hm, bind, Except.bind, pure, Except.pure]

/-- the code AS WRITTEN would pass a falsy certificate object through unchecked (the modelled
    branch); stated so that the dependence on `bool(cert)` is visible -/
theorem dispatch_falsy_certificate_passes (parseOk : Bytes → Bool) (fp : Bytes → String)
    (whitelist : List String) (der : Bytes) (hp : parseOk der = true) :
    dispatch parseOk (fun _ => false) fp whitelist (.der der) = .ok .callNext := by
  simp [dispatch, requestPeercertDigest, requestPeercert, hp, bind, Except.bind, pure, Except.pure]

/-! ## The verdict -/

/-- **verdict_iff.** `validate_ksr` reports OK exactly when the configuration loaded, the previous
    SKR (if one is configured) loaded, the upload parsed, the signer's `validate_request` accepts
    under the configured policy, and — with a previous SKR — the token-less `check_skr_and_ksr`
    accepts. -/
theorem verdict_iff (verify : Verifier) (now : Int) (cfg : Res RequestPolicy)
    (prev : Option (Res Response)) (parsed : Res Request) :
    validateKsr verify now cfg prev parsed = .ok .OK ↔
      ∃ pol ksr, cfg = .ok pol ∧ parsed = .ok ksr ∧
        validateRequest verify now ksr pol = .ok () ∧
        (prev = none ∨ ∃ skr, prev = some (.ok skr) ∧ checkSkrAndKsr ksr skr pol none = .ok ()) := by
  unfold validateKsr
  cases cfg with
  | error e => simp
  | ok pol =>
    simp only [Except.ok.injEq, exists_and_left, exists_eq_left']
    unfold validateKsrBody
    cases prev with
    | none =>
      cases parsed with
      | error e => cases e <;> simp [bind, Except.bind, pure, Except.pure]
      | ok ksr =>
        cases hv : validateRequest verify now ksr pol with
        | error e => cases e <;> simp [bind, Except.bind, pure, Except.pure, hv]
        | ok u => cases u; simp [bind, Except.bind, pure, Except.pure, hv]
    | some r =>
      cases r with
      | error e => cases e <;> simp [bind, Except.bind]
      | ok skr =>
        cases parsed with
        | error e => cases e <;> simp [bind, Except.bind, pure, Except.pure]
        | ok ksr =>
          cases hv : validateRequest verify now ksr pol with
          | error e => cases e <;> simp [bind, Except.bind, pure, Except.pure, hv]
          | ok u =>
            cases u
            cases hc : checkSkrAndKsr ksr skr pol none with
            | error e => cases e <;> simp [bind, Except.bind, pure, Except.pure, hv, hc]
            | ok u => cases u; simp [bind, Except.bind, pure, Except.pure, hv, hc]
/-- **verdict_error_iff.** ERROR exactly when the configuration loaded and the `try` body ended in a
    policy violation (of any rule). -/
theorem verdict_error_iff (verify : Verifier) (now : Int) (cfg : Res RequestPolicy)
    (prev : Option (Res Response)) (parsed : Res Request) :
    validateKsr verify now cfg prev parsed = .ok .ERROR ↔
      ∃ pol r, cfg = .ok pol ∧ validateKsrBody verify now pol prev parsed = .error (.violation r) := by
  unfold validateKsr
  cases cfg with
  | error e => simp
  | ok pol =>
    cases hb : validateKsrBody verify now pol prev parsed with
    | ok u => cases u; simp [hb]
    | error e => cases e <;> simp [hb]

/-- **A violation of the signer's KSR rules, or of the chain rules, is reported as ERROR** (when the
    files involved loaded at all). -/
theorem verdict_violation_is_error (verify : Verifier) (now : Int) (pol : RequestPolicy)
    (ksr : Request) (r : Rule) :
    (∀ prev, (prev = none ∨ ∃ skr, prev = some (.ok skr)) →
      validateRequest verify now ksr pol = .error (.violation r) →
      validateKsr verify now (.ok pol) prev (.ok ksr) = .ok .ERROR) ∧
    (∀ skr, validateRequest verify now ksr pol = .ok () →
      checkSkrAndKsr ksr skr pol none = .error (.violation r) →
      validateKsr verify now (.ok pol) (some (.ok skr)) (.ok ksr) = .ok .ERROR) := by
  refine ⟨?_, ?_⟩
  · intro prev hprev hv
    rcases hprev with rfl | ⟨skr, rfl⟩ <;>
      simp [validateKsr, validateKsrBody, hv, bind, Except.bind, pure, Except.pure]
  · intro skr hv hc
    simp [validateKsr, validateKsrBody, hv, hc, bind, Except.bind, pure, Except.pure]

/-- **verdict_propagates.** Nothing but `PolicyViolation` is caught: a configuration that does not
    load, and any non-policy failure inside the `try` (unreadable or unparsable file, over-size
    file, `RuntimeError` from `load_skr`, …) leave `validate_ksr` as that same failure. -/
theorem verdict_propagates (verify : Verifier) (now : Int) (prev : Option (Res Response))
    (parsed : Res Request) :
    (∀ e, validateKsr verify now (.error e) prev parsed = .error e) ∧
    (∀ pol k, validateKsrBody verify now pol prev parsed = .error (.error k) →
        validateKsr verify now (.ok pol) prev parsed = .error (.error k)) ∧
    (∀ pol, validateKsrBody verify now pol prev parsed = .error .unsupported →
        validateKsr verify now (.ok pol) prev parsed = .error .unsupported) := by
  refine ⟨fun e => rfl, ?_, ?_⟩
  · intro pol k h; simp [validateKsr, h]
  · intro pol h; simp [validateKsr, h]

/-- **An invalid previous SKR is NOT reported as ERROR.** `load_skr` turns the SKR's policy
    violations into `RuntimeError` before `validate_ksr`'s `except PolicyViolation` can see them:
    whatever `load_skr` fails with leaves `validate_ksr` uncaught (the model of `load_skr` is
    `Kskm.loadSkr`; `hparse`: the XML parser itself raises no `PolicyViolation`). -/
theorem previous_skr_failure_propagates (verify : Verifier) (now : Int) (pol : RequestPolicy)
    (parsed : Res Request)
    (maxSize : Nat) (hash : Bytes → Bytes) (parse : Bytes → Res Response) (validate : Response → Res Unit)
    (path : String) (content : Nat → Bytes) (t0 : Nat)
    (hparse : ∀ b r, parse b ≠ .error (.violation r)) (e : Fail)
    (hfail : (loadSkr maxSize hash parse validate path content t0).1 = .error e) :
    validateKsr verify now (.ok pol) (some (loadSkr maxSize hash parse validate path content t0).1) parsed
      = .error e := by
  have hnv := C17.loadSkr_no_violation maxSize hash parse validate path content t0 hparse
  rw [hfail] at hnv ⊢
  cases e with
  | violation r => exact absurd rfl (hnv r)
  | error k => simp [validateKsr, validateKsrBody, bind, Except.bind]
  | unsupported => simp [validateKsr, validateKsrBody, bind, Except.bind]

/-- **verdict_vs_signer.** The signer runs the same `check_skr_and_ksr` WITH its token; that accepts
    exactly when the token-less run accepts and the extra "SKR(n-1) keys are in the HSM" check does.
    So everything the signer accepts the receiver reports OK, and a KSR reported OK can only be
    refused by the signer's chain check on account of the HSM content. -/
theorem verdict_vs_signer (ksr : Request) (skr : Response) (pol : RequestPolicy) (tok : TokenLookup) :
    checkSkrAndKsr ksr skr pol (some tok) = .ok () ↔
      checkSkrAndKsr ksr skr pol none = .ok () ∧ checkLastSkrKeyPresent skr pol (some tok) = .ok () := by
  unfold checkSkrAndKsr
  simp only [seq_ok_iff, checkLastSkrKeyPresent, and_assoc]
  constructor
  · rintro ⟨h1, h2, h3, h4, h5⟩
    exact ⟨h1, h2, h3, h4, rfl, h5⟩
  · rintro ⟨h1, h2, h3, h4, _, h5⟩
    exact ⟨h1, h2, h3, h4, h5⟩

/-! ## Non-vacuity -/

/-- `../../etc/passwd`, a NUL, a non-BMP code point and a lone surrogate -/
example : wash [46, 46, 47, 46, 46, 47, 101, 116, 99, 47, 112, 97, 115, 115, 119, 100, 0, 0x1F600, 0xD800, 120]
    = [95, 101, 116, 99, 95, 112, 97, 115, 115, 119, 100, 95, 120] := by decide
example : wash [] = [] ∧ wash [47, 47, 47] = [95] ∧ wash [0xFF11, 0x0661] = [95] := by decide
/-- `_20260926_120000_000001` has the suffix shape -/
example : SuffixShape [95, 50, 48, 50, 54, 48, 57, 50, 54, 95, 49, 50, 48, 48, 48, 48, 95, 48, 48, 48, 48, 48, 49] := by
  unfold SuffixShape; decide
/-- the default `upload_path: upload` and a hostile name -/
example : (savePath (parsePath [117, 112, 108, 111, 97, 100]) (wash [46, 46, 47, 120]) [95, 49]).render
    = [117, 112, 108, 111, 97, 100, 47, 95, 120, 95, 49, 46, 120, 109, 108] := by decide
/-- what pathlib would do WITHOUT washing: `..` is kept, an absolute name replaces the directory —
    so the confinement does rest on `wash` -/
example : ((parsePath [117, 112]).join (parsePath [46, 46, 47, 120])).parts = [[117, 112], [46, 46], [120]] ∧
    ((parsePath [117, 112]).join (parsePath [47, 120])) = { absolute := true, parts := [[120]] } := by decide

def exCfg : KsrCfg := { contentType := "application/xml", maxSize := 65535, uploadPath := parsePath [117, 112] }
def exUpload : Upload := { contentType := some "application/xml", size := some 3, filename := some [97, 47, 98], body := [1, 2, 3] }

example : (saveKsr exCfg (fun _ => "h") [95, 49] true exUpload).1.toOption.map (·.1.render) =
    some [117, 112, 47, 97, 95, 98, 95, 49, 46, 120, 109, 108] := by decide
example : saveKsr exCfg (fun _ => "h") [95, 49] true { exUpload with size := some 65536 } = (.error (.http 413), []) := by
  rfl
example : (saveKsr exCfg (fun _ => "h") [95, 49] true { exUpload with size := some 65535 }).2.length = 5 := by decide
example : saveKsr exCfg (fun _ => "h") [95, 49] true { exUpload with contentType := none } = (.error (.http 400), []) := by
  rfl

example : dispatch (fun _ => true) (fun _ => true) (fun _ => "ab") ["ab"] (.der [1]) = .ok .callNext := by decide
example : dispatch (fun _ => true) (fun _ => true) (fun _ => "ab") [] (.der [1]) = .ok (.http 403) := by decide
/-- an upper-case entry never matches the lower-case fingerprint: the comparison is on the text -/
example : dispatch (fun _ => true) (fun _ => true) (fun _ => "ab") ["AB"] (.der [1]) = .ok (.http 403) := by decide

/-- a request every rule accepts under a policy with the optional checks off … -/
def exPol : RequestPolicy :=
  { KskmGen.requestPolicyDefaults with
    numBundles := 1, validateSignatures := false, keysMatchZskPolicy := false,
    checkKeysMatchKskOperatorPolicy := false, checkCycleLength := false,
    signatureCheckExpireHorizon := false }
def exBundle (id : String) (i e : Int) : Bundle := { id := id, inception := i, expiration := e, keys := [], signatures := [] }
def exReq : Request :=
  { id := "ksr-2", serial := 2, domain := ".", zskPolicy := {}, bundles := [exBundle "b2" 100 100] }
def exSkr (id : String) : Response :=
  { id := id, serial := 1, domain := ".", zskPolicy := {}, kskPolicy := {}, bundles := [exBundle "b1" 0 100] }
def anyVerifier : Verifier := fun _ _ _ _ => .valid

example : validateKsr anyVerifier 0 (.ok exPol) none (.ok exReq) = .ok .OK := by decide +kernel
example : validateKsr anyVerifier 0 (.ok exPol) (some (.ok (exSkr "skr-1"))) (.ok exReq) = .ok .OK := by decide +kernel
/-- … ERROR for a replayed request id (chain rule) and for a wrong bundle count (KSR rule) … -/
example : validateKsr anyVerifier 0 (.ok exPol) (some (.ok (exSkr "ksr-2"))) (.ok exReq) = .ok .ERROR := by
  decide +kernel
example : validateKsr anyVerifier 0 (.ok { exPol with numBundles := 9 }) none (.ok exReq) = .ok .ERROR := by
  decide +kernel
/-- … and an uncaught failure for an unparsable upload or an unloadable previous SKR. -/
example : validateKsr anyVerifier 0 (.ok exPol) none (err .value) = err .value := by decide +kernel
example : validateKsr anyVerifier 0 (.ok exPol) (some (err .runtime)) (.ok exReq) = err .runtime := by decide +kernel

/-! # The rest of the receiver (work package B5): fingerprint text, configuration, TLS options, the route -/

/-! ## The fingerprint text and what a whitelist entry must look like -/

/-- **fingerprint_text.** `request_peercert_digest` yields two characters of `0-9a-f` per digest octet —
    lower-case, no separators — and two certificates get the same text only with the same digest. -/
theorem fingerprint_text (sha : Bytes → Bytes) (der : Bytes) :
    (fingerprintHex sha der).toList.length = 2 * (sha der).length ∧
    (∀ c ∈ (fingerprintHex sha der).toList, ('0' ≤ c ∧ c ≤ '9') ∨ ('a' ≤ c ∧ c ≤ 'f')) ∧
    (∀ der', fingerprintHex sha der = fingerprintHex sha der' → sha der = sha der') := by
  have h := C17.hex_layout (sha der)
  refine ⟨by simpa [fingerprintHex] using h.1, by simpa [fingerprintHex] using h.2, ?_⟩
  intro der' he
  apply C17.hex_injective
  simpa [fingerprintHex, String.ofList_inj] using he

/-- **entry_not_lowercase_never_admits.** The whitelist is compared as TEXT: an entry with any character
    outside `0-9a-f` (an upper-case digit — which the configuration model accepts —, a colon, a blank)
    equals no fingerprint, so it admits nobody. -/
theorem entry_not_lowercase_never_admits (sha : Bytes → Bytes) (der : Bytes) (entry : String)
    (h : ∃ c ∈ entry.toList, ¬ (('0' ≤ c ∧ c ≤ '9') ∨ ('a' ≤ c ∧ c ≤ 'f'))) :
    fingerprintHex sha der ≠ entry := by
  intro he
  obtain ⟨c, hc, hn⟩ := h
  rw [← he] at hc
  exact hn ((fingerprint_text sha der).2.1 c hc)

example : isHexDigestString "AB12" = true ∧ (∃ c ∈ "AB12".toList, ¬ (('0' ≤ c ∧ c ≤ '9') ∨ ('a' ≤ c ∧ c ≤ 'f'))) :=
  ⟨by decide, 'A', by decide, by decide⟩
example : fingerprintHex (fun _ => [0xE5, 0x82, 0x0A]) [1] = "e5820a" := by decide +kernel

/-! ## The configuration model (config_wksr.py) -/

/-- the defaults of the CURRENT tree (regenerated on every run) -/
def currentDefaults : WksrDefaults :=
  { ciphers := KskmGen.wksrCiphersDefault, requireClientCert := KskmGen.wksrRequireClientCertDefault,
    clientWhitelist := KskmGen.wksrClientWhitelistDefault, maxSize := KskmGen.wksrMaxSizeDefault,
    maxSizeGt := KskmGen.wksrMaxSizeGt, contentType := KskmGen.wksrContentTypeDefault,
    uploadPath := KskmGen.wksrUploadPathDefault.toList.map Char.toNat }

/-- the pattern `isHexDigestString` was derived from is still the one of the whitelist entries -/
theorem whitelist_pattern_pinned : KskmGen.wksrWhitelistPattern = "^[0-9a-fA-F]+$" := by decide

/-- the keys without a default, per model, as regenerated: in particular `require_client_cert` -/
theorem required_keys_current_tree :
    (KskmGen.wksrFields.filter (fun r => r.2.2.1)).map (fun r => (r.1, r.2.1)) =
      [("WKSR_Config", "tls"), ("WKSR_Config", "ksr"), ("WKSR_Config", "templates"),
       ("WKSR_TLS", "cert"), ("WKSR_TLS", "key"), ("WKSR_TLS", "ca_cert"), ("WKSR_TLS", "require_client_cert"),
       ("WKSR_Templates", "upload"), ("WKSR_Templates", "result"), ("WKSR_Templates", "email"),
       ("WKSR_Notify", "from"), ("WKSR_Notify", "to"), ("WKSR_Notify", "subject"), ("WKSR_Notify", "smtp_server")] := by
  decide +kernel

/-- **loadTls_ok_iff.** The `tls:` section loads exactly when the three files exist, `require_client_cert`
    is given (or defaulted, where a default exists) and every GIVEN whitelist entry is a non-empty string
    of hex digits; the loaded object then holds the given values, defaults elsewhere. -/
theorem loadTls_ok_iff (dflt : WksrDefaults) (d : TlsDoc) (c : TlsCfg) :
    loadTls dflt d = .ok c ↔
      d.cert = .present true ∧ d.key = .present true ∧ d.caCert = .present true ∧
      (d.requireClientCert.orElse fun _ => dflt.requireClientCert) = some c.requireClientCert ∧
      (∀ l, d.clientWhitelist = some l → ∀ s ∈ l, isHexDigestString s = true) ∧
      c.ciphers = d.ciphers.getD dflt.ciphers ∧
      c.clientWhitelist = d.clientWhitelist.getD dflt.clientWhitelist := by
  have hok : ∀ k : FileKey, k.ok = true ↔ k = .present true := by
    intro k; cases k with
    | absent => simp [FileKey.ok]
    | present b => cases b <;> simp [FileKey.ok]
  unfold loadTls
  by_cases hf : (d.cert.ok && d.key.ok && d.caCert.ok) = true
  · have hf' := hf
    simp only [Bool.and_eq_true, hok] at hf'
    obtain ⟨⟨h1, h2⟩, h3⟩ := hf'
    simp only [h1, h2, h3, FileKey.ok, Bool.and_self, Bool.not_true, Bool.false_eq_true, ↓reduceIte, true_and]
    cases hr : (d.requireClientCert.orElse fun _ => dflt.requireClientCert) with
    | none => simp [err]
    | some r =>
      cases hw : d.clientWhitelist with
      | none =>
        simp only [Bool.not_true, Bool.false_eq_true, ↓reduceIte, pure, Except.pure, Except.ok.injEq]
        constructor
        · rintro rfl; simp
        · rintro ⟨h4, _, h5, h6⟩
          cases c; simp_all
      | some l =>
        by_cases hl : l.all isHexDigestString = true
        · simp only [hl, Bool.not_true, Bool.false_eq_true, ↓reduceIte, pure, Except.pure, Except.ok.injEq]
          constructor
          · rintro rfl
            refine ⟨rfl, ?_, rfl, rfl⟩
            intro l' hl' s hs
            cases hl'
            exact List.all_eq_true.mp hl s hs
          · rintro ⟨h4, _, h5, h6⟩
            cases c; simp_all
        · simp only [hl, Bool.not_false, ↓reduceIte, err]
          constructor
          · intro h; cases h
          · rintro ⟨_, h5, _⟩
            exact absurd (List.all_eq_true.mpr (h5 l rfl)) hl
  · have hf' := hf
    simp only [Bool.and_eq_true, hok, not_and] at hf'
    simp only [hf, Bool.not_false, ↓reduceIte, err]
    constructor
    · intro h; cases h
    · rintro ⟨h1, h2, h3, _⟩
      exact absurd h3 (hf' ⟨h1, h2⟩)

/-- **loadKsrSection_ok_iff.** The `ksr:` section loads exactly when a GIVEN `max_size` exceeds the bound
    and a given `ksrsigner_configfile` exists. -/
theorem loadKsrSection_ok_iff (dflt : WksrDefaults) (d : KsrDoc) (s : KsrSection) :
    loadKsrSection dflt d = .ok s ↔
      (∀ m, d.maxSize = some m → m > dflt.maxSizeGt) ∧ d.ksrsignerConfigfile ≠ .present false ∧
      s = { maxSize := d.maxSize.getD dflt.maxSize, contentType := d.contentType.getD dflt.contentType,
            uploadPath := d.uploadPath.getD dflt.uploadPath,
            hasSignerConfig := d.ksrsignerConfigfile == .present true } := by
  unfold loadKsrSection
  cases hm : d.maxSize with
  | none =>
    by_cases hk : d.ksrsignerConfigfile = .present false
    · simp [hk, err]
    · constructor
      · intro h
        simp [hk, pure, Except.pure] at h
        exact ⟨by simp, hk, h.symm⟩
      · rintro ⟨_, _, rfl⟩
        simp [hk, pure, Except.pure]
  | some m =>
    by_cases hgt : m > dflt.maxSizeGt
    · by_cases hk : d.ksrsignerConfigfile = .present false
      · simp [hgt, hk, err]
      · constructor
        · intro h
          simp [hgt, hk, pure, Except.pure] at h
          exact ⟨by simpa using hgt, hk, h.symm⟩
        · rintro ⟨_, _, rfl⟩
          simp [hgt, hk, pure, Except.pure]
    · constructor
      · intro h; simp [hgt, err] at h
      · rintro ⟨h1, _⟩; exact absurd (h1 m rfl) hgt

/-- **config_current_tree.** Under the defaults of the current tree: a document that does not say
    `require_client_cert` is refused; every loaded whitelist consists of hex strings; every loaded size
    limit is positive, and an unset one is 1 MiB; the content type defaults to `application/xml` and the
    upload directory to the relative path `upload`. -/
theorem config_current_tree :
    (∀ d, d.requireClientCert = none → loadTls currentDefaults d = err .validation) ∧
    (∀ d c, loadTls currentDefaults d = .ok c →
        d.requireClientCert = some c.requireClientCert ∧ ∀ s ∈ c.clientWhitelist, isHexDigestString s = true) ∧
    (∀ d s, loadKsrSection currentDefaults d = .ok s → s.maxSize > 0) ∧
    (∀ d s, loadKsrSection currentDefaults d = .ok s → d.maxSize = none → s.maxSize = 1048576) ∧
    currentDefaults.contentType = "application/xml" ∧
    parsePath currentDefaults.uploadPath = { absolute := false, parts := [[117, 112, 108, 111, 97, 100]] } := by
  refine ⟨?_, ?_, ?_, ?_, by decide, by decide +kernel⟩
  · intro d h
    unfold loadTls
    rw [h]
    simp [currentDefaults, KskmGen.wksrRequireClientCertDefault, err]
  · intro d c h
    obtain ⟨_, _, _, hr, hw, _, hc⟩ := (loadTls_ok_iff _ _ _).mp h
    constructor
    · cases hd : d.requireClientCert with
      | none => rw [hd] at hr; simp [currentDefaults, KskmGen.wksrRequireClientCertDefault] at hr
      | some r => rw [hd] at hr; simpa using hr
    · intro s hs
      rw [hc] at hs
      cases hd : d.clientWhitelist with
      | none => rw [hd] at hs; simp [currentDefaults, KskmGen.wksrClientWhitelistDefault] at hs
      | some l => rw [hd] at hs; exact hw l hd s (by simpa using hs)
  · intro d s h
    obtain ⟨hm, _, rfl⟩ := (loadKsrSection_ok_iff _ _ _).mp h
    cases hd : d.maxSize with
    | none => simp [currentDefaults, KskmGen.wksrMaxSizeDefault]
    | some m =>
      have := hm m hd
      simp only [currentDefaults, KskmGen.wksrMaxSizeGt] at this
      simpa using this
  · intro d s h hn
    obtain ⟨_, _, rfl⟩ := (loadKsrSection_ok_iff _ _ _).mp h
    simp [hn, currentDefaults, KskmGen.wksrMaxSizeDefault]

/-! ## What the TLS server is told (tools/wksr.py) -/

/-- **tls_cert_reqs.** For every configuration: the server is told `CERT_REQUIRED` exactly when
    `require_client_cert` is true, `CERT_OPTIONAL` exactly when it is false, and never `CERT_NONE`; the
    cipher string is the configured list joined by colons. -/
theorem tls_cert_reqs (tls : TlsCfg) (host : String) (port : Int) (debug : Bool) :
    ((serverArgs tls host port debug).sslCertReqs = .certRequired ↔ tls.requireClientCert = true) ∧
    ((serverArgs tls host port debug).sslCertReqs = .certOptional ↔ tls.requireClientCert = false) ∧
    (serverArgs tls host port debug).sslCertReqs ≠ .certNone ∧
    (serverArgs tls host port debug).sslCiphers = joinColon tls.ciphers := by
  cases h : tls.requireClientCert <;> simp [serverArgs, certReqsOf, h]

/-- **tls_requires_client_cert_current_tree.** In the tree as it is now (tables regenerated by reading
    tools/wksr.py and by EXECUTING its `main()` with a recording `uvicorn.run`): `ssl_cert_reqs` is the
    expression `certReqsOf` mirrors and is what `uvicorn.run` receives; executed, `true` gave CERT_REQUIRED,
    `false` CERT_OPTIONAL, and a document without the key started no server; the whitelist middleware
    is installed.  Client verification CAN be configured down to OPTIONAL — never to NONE — but not by
    omission; see `optional_tls_still_needs_certificate` for what OPTIONAL then admits. -/
theorem tls_requires_client_cert_current_tree :
    KskmGen.wksrCertReqsExpr = "ssl.CERT_REQUIRED if app.config.tls.require_client_cert else ssl.CERT_OPTIONAL" ∧
    ("ssl_cert_reqs", "ssl_cert_reqs") ∈ KskmGen.wksrUvicornKeywords ∧
    ("ssl_ciphers", "':'.join(app.config.tls.ciphers)") ∈ KskmGen.wksrUvicornKeywords ∧
    ("ssl_ca_certs", "str(app.config.tls.ca_cert)") ∈ KskmGen.wksrUvicornKeywords ∧
    KskmGen.wksrCertReqsObserved =
      [("true", some (certReqsOf true).toNat), ("false", some (certReqsOf false).toNat), ("absent", none)] ∧
    KskmGen.sslVerifyModes =
      [("CERT_NONE", CertReqs.certNone.toNat), ("CERT_OPTIONAL", CertReqs.certOptional.toNat),
       ("CERT_REQUIRED", CertReqs.certRequired.toNat)] ∧
    KskmGen.wksrRequireClientCertDefault = none ∧
    KskmGen.wksrMiddleware = ["ClientCertificateWhitelist"] := by
  refine ⟨by decide, by decide, by decide, by decide, by decide, by decide, by decide, by decide⟩

/-! ## `POST /upload` behind the whitelist middleware -/

/-- the client presented a parseable certificate whose fingerprint is on the list -/
def Listed (parseOk : Bytes → Bool) (fp : Bytes → String) (whitelist : List String) (peer : Peer) : Prop :=
  ∃ der, peer = .der der ∧ parseOk der = true ∧ fp der ∈ whitelist

/-- a whitelist none of whose entries is lower-case hex (e.g. fingerprints pasted in upper case or with
    colons — both of which a configuration may hold only in part: colons are refused, upper case is
    accepted) lists NOBODY: every client is refused -/
theorem non_lowercase_whitelist_lists_nobody (sha : Bytes → Bytes) (parseOk : Bytes → Bool) (whitelist : List String)
    (h : ∀ e ∈ whitelist, ∃ c ∈ e.toList, ¬ (('0' ≤ c ∧ c ≤ '9') ∨ ('a' ≤ c ∧ c ≤ 'f'))) (peer : Peer) :
    ¬ Listed parseOk (fingerprintHex sha) whitelist peer := by
  rintro ⟨der, rfl, _, hm⟩
  exact entry_not_lowercase_never_admits sha der _ (h _ hm) rfl

section Route
variable (parseOk : Bytes → Bool) (fp : Bytes → String) (whitelist : List String) (cfg : KsrCfg)
  (hashHex : Bytes → String) (suffix : List Nat) (openOk : Bool) (validate : WPath → Res KsrStatus)
  (smtp : Option String) (mailOk : Bool)

/-- a listed client's request is the route's business, with the digest the middleware saw -/
theorem handleUpload_listed (der : Bytes) (hp : parseOk der = true) (hm : fp der ∈ whitelist) (u : Upload) :
    handleUpload parseOk (fun _ => true) fp whitelist (.der der) cfg hashHex suffix openOk validate smtp mailOk u =
      uploadPost cfg hashHex suffix openOk validate (.ok (some (fp der))) smtp mailOk u := by
  simp [handleUpload, dispatch, requestPeercertDigest, requestPeercert, hp, hm, bind, Except.bind, pure, Except.pure]

/-- **upload_refused_unlisted.** For EVERY request (any file name, size, content type, body) of a client
    that is not listed — no TLS object, no certificate, octets that are no certificate, a certificate
    whose fingerprint is not on the list — the effect log is EMPTY: the body is not read, nothing is
    written, nothing validated, no mail, no page; a parseable certificate is answered 403, the others end
    in an exception.  (The whitelist comes before every gate of `save_ksr`.) -/
theorem upload_refused_unlisted (peer : Peer) (u : Upload) (h : ¬ Listed parseOk fp whitelist peer) :
    (handleUpload parseOk (fun _ => true) fp whitelist peer cfg hashHex suffix openOk validate smtp mailOk u).2 = [] ∧
    ((∃ der, peer = .der der ∧ parseOk der = true) →
      (handleUpload parseOk (fun _ => true) fp whitelist peer cfg hashHex suffix openOk validate smtp mailOk u).1
        = .http 403) ∧
    ((¬ ∃ der, peer = .der der ∧ parseOk der = true) →
      ∃ k, (handleUpload parseOk (fun _ => true) fp whitelist peer cfg hashHex suffix openOk validate smtp mailOk u).1
        = .exception (.error k)) := by
  cases peer with
  | noTls => simp [handleUpload, dispatch, requestPeercertDigest, requestPeercert, err, bind, Except.bind]
  | noCert => simp [handleUpload, dispatch, requestPeercertDigest, requestPeercert, err, bind, Except.bind]
  | der b =>
    cases hp : parseOk b
    · simp [handleUpload, dispatch, requestPeercertDigest, requestPeercert, hp, err, bind, Except.bind]
    · have hm : fp b ∉ whitelist := fun hm => h ⟨b, rfl, hp, hm⟩
      simp [handleUpload, dispatch, requestPeercertDigest, requestPeercert, hp, hm, bind, Except.bind, pure,
        Except.pure]

/-- **optional_tls_still_needs_certificate.** Whatever `require_client_cert` says: a client that presents
    no certificate (possible under CERT_OPTIONAL) never reaches the route — the middleware ends in a
    `TypeError`, with an empty effect log. -/
theorem optional_tls_still_needs_certificate (truthy : Bytes → Bool) (u : Upload) :
    handleUpload parseOk truthy fp whitelist .noCert cfg hashHex suffix openOk validate smtp mailOk u =
      (.exception (.error .type), []) := rfl

/-- **upload_gate_failure.** For a listed client: wrong content type → 400, no size → 400, over-size → 413,
    each with an EMPTY effect log (body unread, nothing written, nothing validated, no mail). -/
theorem upload_gate_failure (der : Bytes) (hp : parseOk der = true) (hm : fp der ∈ whitelist) (u : Upload) :
    (u.contentType ≠ some cfg.contentType →
      handleUpload parseOk (fun _ => true) fp whitelist (.der der) cfg hashHex suffix openOk validate smtp mailOk u
        = (.http 400, [])) ∧
    (u.contentType = some cfg.contentType → u.size = none →
      handleUpload parseOk (fun _ => true) fp whitelist (.der der) cfg hashHex suffix openOk validate smtp mailOk u
        = (.http 400, [])) ∧
    (u.contentType = some cfg.contentType → ∀ size, u.size = some size → size > cfg.maxSize →
      handleUpload parseOk (fun _ => true) fp whitelist (.der der) cfg hashHex suffix openOk validate smtp mailOk u
        = (.http 413, [])) := by
  obtain ⟨g1, g2, g3⟩ := gates_before_write cfg hashHex suffix openOk u
  rw [handleUpload_listed parseOk fp whitelist cfg hashHex suffix openOk validate smtp mailOk der hp hm u]
  refine ⟨fun h => ?_, fun h1 h2 => ?_, fun h1 size h2 h3 => ?_⟩
  · simp [uploadPost, g1 h]
  · simp [uploadPost, g2 h1 h2]
  · simp [uploadPost, g3 h1 size h2 h3]

/-- **upload_page_iff.** The result page with status `st`, stored path `p`, hash `h` and client digest `dg`
    is produced exactly when: the client is listed, `save_ksr` stored the upload at `p` with hash `h`,
    `validate_ksr` ON THAT PATH returned `st`, `dg` is the client's fingerprint, and the notification (if
    one is configured) went through. -/
theorem upload_page_iff (peer : Peer) (u : Upload) (st : KsrStatus) (p : WPath) (h : String) (dg : Option String) :
    (handleUpload parseOk (fun _ => true) fp whitelist peer cfg hashHex suffix openOk validate smtp mailOk u).1
        = .page st p h dg ↔
      Listed parseOk fp whitelist peer ∧ (saveKsr cfg hashHex suffix openOk u).1 = .ok (p, h) ∧
      validate p = .ok st ∧ (∃ der, peer = .der der ∧ dg = some (fp der)) ∧
      (notifyActive smtp = true → mailOk = true) := by
  by_cases hl : Listed parseOk fp whitelist peer
  · obtain ⟨der, rfl, hp, hm⟩ := hl
    rw [handleUpload_listed parseOk fp whitelist cfg hashHex suffix openOk validate smtp mailOk der hp hm u]
    have hl' : Listed parseOk fp whitelist (.der der) := ⟨der, rfl, hp, hm⟩
    unfold uploadPost
    rcases hs : saveKsr cfg hashHex suffix openOk u with ⟨r, effs⟩
    cases r with
    | error e => cases e <;> simp
    | ok ph =>
      obtain ⟨p', h'⟩ := ph
      dsimp only
      cases hv : validate p' with
      | error f =>
        constructor
        · intro hx; simp at hx
        · rintro ⟨_, hs2, hv', _⟩
          simp only [Except.ok.injEq, Prod.mk.injEq] at hs2
          obtain ⟨rfl, rfl⟩ := hs2
          rw [hv] at hv'; cases hv'
      | ok st' =>
        have fwd : (RouteOut.page st' p' h' (some (fp der)) = RouteOut.page st p h dg) →
            (Except.ok (p', h') : Except SaveFail (WPath × String)) = .ok (p, h) ∧ validate p = .ok st ∧
              ∃ der', Peer.der der = .der der' ∧ dg = some (fp der') := by
          intro hx
          simp only [RouteOut.page.injEq] at hx
          obtain ⟨rfl, rfl, rfl, rfl⟩ := hx
          exact ⟨rfl, hv, der, rfl, rfl⟩
        have bwd : (Except.ok (p', h') : Except SaveFail (WPath × String)) = .ok (p, h) → validate p = .ok st →
            (∃ der', Peer.der der = .der der' ∧ dg = some (fp der')) →
            RouteOut.page st' p' h' (some (fp der)) = RouteOut.page st p h dg := by
          intro hs2 hv' hd
          simp only [Except.ok.injEq, Prod.mk.injEq] at hs2
          obtain ⟨rfl, rfl⟩ := hs2
          obtain ⟨der', hd1, rfl⟩ := hd
          cases hd1
          rw [hv] at hv'; cases hv'; rfl
        cases hn : notifyActive smtp
        · simp only [Bool.false_eq_true, ↓reduceIte]
          constructor
          · intro hx
            obtain ⟨a, b, c⟩ := fwd hx
            exact ⟨hl', a, b, c, by simp⟩
          · rintro ⟨_, a, b, c, _⟩; exact bwd a b c
        · cases mailOk
          · simp only [↓reduceIte, Bool.false_eq_true]
            constructor
            · intro hx; simp at hx
            · rintro ⟨_, _, _, _, hmail⟩; simp at hmail
          · simp only [↓reduceIte]
            constructor
            · intro hx
              obtain ⟨a, b, c⟩ := fwd hx
              exact ⟨hl', a, b, c, by simp⟩
            · rintro ⟨_, a, b, c, _⟩; exact bwd a b c
  · have hr := (upload_refused_unlisted parseOk fp whitelist cfg hashHex suffix openOk validate smtp mailOk peer u hl)
    constructor
    · intro hx
      by_cases hd : ∃ der, peer = .der der ∧ parseOk der = true
      · rw [hr.2.1 hd] at hx; cases hx
      · obtain ⟨k, hk⟩ := hr.2.2 hd; rw [hk] at hx; cases hx
    · rintro ⟨hl', _⟩; exact absurd hl' hl

/-- **upload_ok_iff_signer_ok.** End to end, with `validate_ksr` in the route: the client is shown `OK`
    exactly when it is listed, the upload passed the gates and was stored, and the signer's own checks
    accept the stored KSR: the ksrsigner configuration loaded, the file parsed, `validate_request` accepts
    under the configured policy and — with a previous SKR — the token-less `check_skr_and_ksr` accepts
    (and a configured notification went through). -/
theorem upload_ok_iff_signer_ok (verify : Verifier) (now : Int) (scfg : Res RequestPolicy)
    (prev : Option (Res Response)) (parsed : WPath → Res Request)
    (peer : Peer) (u : Upload) (p : WPath) (h : String) (dg : Option String) :
    (handleUpload parseOk (fun _ => true) fp whitelist peer cfg hashHex suffix openOk
        (fun q => validateKsr verify now scfg prev (parsed q)) smtp mailOk u).1 = .page .OK p h dg ↔
      Listed parseOk fp whitelist peer ∧ (saveKsr cfg hashHex suffix openOk u).1 = .ok (p, h) ∧
      (∃ pol ksr, scfg = .ok pol ∧ parsed p = .ok ksr ∧ validateRequest verify now ksr pol = .ok () ∧
        (prev = none ∨ ∃ skr, prev = some (.ok skr) ∧ checkSkrAndKsr ksr skr pol none = .ok ())) ∧
      (∃ der, peer = .der der ∧ dg = some (fp der)) ∧ (notifyActive smtp = true → mailOk = true) := by
  rw [upload_page_iff, verdict_iff]

/-- **upload_effects_order.** When `save_ksr` stored the upload, the effect log of the request is: read
    the body, the clock, open `p`, write the body to `p`, log; then `validate_ksr` on THE SAME `p`; then
    — whatever the verdict — at most the mail and the page.  So what is judged is what was stored, and it
    was stored before it was judged: an upload that is then reported `ERROR`, or whose validation raises,
    stays in the upload directory. -/
theorem upload_effects_order (der : Bytes) (hp : parseOk der = true) (hm : fp der ∈ whitelist) (u : Upload)
    (p : WPath) (h : String) (hs : (saveKsr cfg hashHex suffix openOk u).1 = .ok (p, h)) :
    ∃ tail, (handleUpload parseOk (fun _ => true) fp whitelist (.der der) cfg hashHex suffix openOk validate smtp
        mailOk u).2 =
      [.save .readBody, .save .now, .save (.openWrite p), .save (.write p u.body), .save .logSaved, .validate p]
        ++ tail ∧
      (tail = [] ∨ tail = [.mail] ∨ tail = [.mail, .respond] ∨ tail = [.respond]) := by
  rw [handleUpload_listed parseOk fp whitelist cfg hashHex suffix openOk validate smtp mailOk der hp hm u]
  obtain ⟨_, _, _, _, he⟩ := write_once_inside cfg hashHex suffix openOk u p h hs
  unfold uploadPost
  rcases hs' : saveKsr cfg hashHex suffix openOk u with ⟨r, effs⟩
  rw [hs'] at hs he
  simp only at hs he
  subst hs he
  cases hv : validate p with
  | error f => exact ⟨[], by simp [hv], Or.inl rfl⟩
  | ok st =>
    cases hn : notifyActive smtp <;> cases mailOk
    · exact ⟨[.respond], by simp [hv], by simp⟩
    · exact ⟨[.respond], by simp [hv], by simp⟩
    · exact ⟨[.mail], by simp [hv], by simp⟩
    · exact ⟨[.mail, .respond], by simp [hv], by simp⟩

/-- **upload_disk_needs_listed_and_gates.** Any effect of a request that touches the disk implies a listed
    client and an upload that passed all three gates. -/
theorem upload_disk_needs_listed_and_gates (peer : Peer) (u : Upload) (e : RouteEffect)
    (he : e ∈ (handleUpload parseOk (fun _ => true) fp whitelist peer cfg hashHex suffix openOk validate smtp
      mailOk u).2) :
    Listed parseOk fp whitelist peer ∧ u.contentType = some cfg.contentType ∧
      ∃ size, u.size = some size ∧ size ≤ cfg.maxSize := by
  by_cases hl : Listed parseOk fp whitelist peer
  · refine ⟨hl, ?_⟩
    obtain ⟨der, rfl, hp, hm⟩ := hl
    rw [handleUpload_listed parseOk fp whitelist cfg hashHex suffix openOk validate smtp mailOk der hp hm u] at he
    by_cases h1 : u.contentType = some cfg.contentType
    · refine ⟨h1, ?_⟩
      cases h2 : u.size with
      | none => simp [uploadPost, saveKsr, h1, h2] at he
      | some size =>
        by_cases h3 : size > cfg.maxSize
        · simp [uploadPost, saveKsr, h1, h2, h3] at he
        · exact ⟨size, rfl, by omega⟩
    · simp [uploadPost, saveKsr, h1] at he
  · rw [(upload_refused_unlisted parseOk fp whitelist cfg hashHex suffix openOk validate smtp mailOk peer u hl).1] at he
    cases he

/-- **upload_writes_confined.** End to end, for EVERY request (any peer, file name, size, content type,
    body) and every clock string of the suffix shape: whatever the request writes, it writes the body, to
    the upload directory extended by exactly one component — the washed name + timestamp + `.xml`, which
    contains no separator. -/
theorem upload_writes_confined (peer : Peer) (u : Upload) (p : WPath) (data : Bytes) (hsfx : SuffixShape suffix)
    (he : RouteEffect.save (.write p data) ∈ (handleUpload parseOk (fun _ => true) fp whitelist peer cfg hashHex
      suffix openOk validate smtp mailOk u).2) :
    data = u.body ∧ p.parent = cfg.uploadPath ∧
      p.name = wash (pyStrOpt u.filename) ++ suffix ++ dotXml ∧ 47 ∉ p.name ∧ 0 ∉ p.name ∧
      p.name ≠ [46, 46] := by
  have hc := path_confined cfg.uploadPath u.filename suffix hsfx
  simp only at hc
  obtain ⟨c47, c0, _, _, cdd, _, _, cpar, cname⟩ := hc
  obtain ⟨hl, h1, size, h2, h3⟩ :=
    upload_disk_needs_listed_and_gates parseOk fp whitelist cfg hashHex suffix openOk validate smtp mailOk peer u _ he
  obtain ⟨der, rfl, hp, hm⟩ := hl
  cases openOk with
  | false =>
    rw [handleUpload_listed parseOk fp whitelist cfg hashHex suffix false validate smtp mailOk der hp hm u] at he
    have h3' : ¬ size > cfg.maxSize := by omega
    simp [uploadPost, saveKsr, h1, h2, h3'] at he
  | true =>
    have h3' : ¬ size > cfg.maxSize := by omega
    have hs' : (saveKsr cfg hashHex suffix true u).1 =
        .ok (savePath cfg.uploadPath (wash (pyStrOpt u.filename)) suffix, hashHex u.body) := by
      simp [saveKsr, h1, h2, h3']
    obtain ⟨tail, heq, htail⟩ :=
      upload_effects_order parseOk fp whitelist cfg hashHex suffix true validate smtp mailOk der hp hm u _ _ hs'
    rw [heq] at he
    have : p = savePath cfg.uploadPath (wash (pyStrOpt u.filename)) suffix ∧ data = u.body := by
      rcases htail with rfl | rfl | rfl | rfl <;> simpa using he
    obtain ⟨rfl, rfl⟩ := this
    exact ⟨rfl, cpar, cname, by rw [cname]; exact c47, by rw [cname]; exact c0, by rw [cname]; exact cdd⟩

end Route

/-! ### Non-vacuity of the route theorems -/

def exTls : TlsDoc :=
  { cert := .present true, key := .present true, caCert := .present true, ciphers := none,
    requireClientCert := some false, clientWhitelist := some ["ab", "AB"] }
example : (loadTls currentDefaults exTls).toOption.map (·.clientWhitelist) = some ["ab", "AB"] := by decide +kernel
example : loadTls currentDefaults { exTls with clientWhitelist := some ["ab:cd"] } = err .validation := by decide +kernel
example : loadTls currentDefaults { exTls with clientWhitelist := some [""] } = err .validation := by decide +kernel
example : loadTls currentDefaults { exTls with requireClientCert := none } = err .validation := by decide +kernel
def exKsrDoc : KsrDoc := { maxSize := some 1, contentType := none, uploadPath := none, ksrsignerConfigfile := .absent }
example : loadKsrSection currentDefaults { exKsrDoc with maxSize := some 0 } = err .validation := by decide +kernel
example : loadKsrSection currentDefaults { exKsrDoc with ksrsignerConfigfile := .present false } = err .validation := by
  decide +kernel
example : (loadKsrSection currentDefaults exKsrDoc).toOption.map (·.maxSize) = some 1 := by decide +kernel
example : (serverArgs { ciphers := ["A", "B"], requireClientCert := false, clientWhitelist := [] } "h" 1 false)
    = { host := "h", port := 1, logLevel := "info", sslCiphers := "A:B", sslCertReqs := .certOptional } := by
  decide +kernel

/-- a listed client, a good upload, the signer's checks accept, mail configured and delivered: the page says OK … -/
example : (handleUpload (fun _ => true) (fun _ => true) (fun _ => "ab") ["ab"] (.der [1]) exCfg (fun _ => "h") [95, 49] true
    (fun _ => validateKsr anyVerifier 0 (.ok exPol) none (.ok exReq)) (some "mx") true exUpload).1
    = .page .OK (savePath exCfg.uploadPath (wash [97, 47, 98]) [95, 49]) "h" (some "ab") := by decide +kernel
/-- … the write of that request (hypothesis of `upload_writes_confined`) … -/
example : RouteEffect.save (.write (savePath exCfg.uploadPath (wash [97, 47, 98]) [95, 49]) [1, 2, 3]) ∈
    (handleUpload (fun _ => true) (fun _ => true) (fun _ => "ab") ["ab"] (.der [1]) exCfg (fun _ => "h") [95, 49] true
      (fun _ => validateKsr anyVerifier 0 (.ok exPol) none (.ok exReq)) (some "mx") true exUpload).2 := by decide +kernel
/-- … ERROR under a policy the KSR violates (the file is stored all the same) … -/
example : (handleUpload (fun _ => true) (fun _ => true) (fun _ => "ab") ["ab"] (.der [1]) exCfg (fun _ => "h") [95, 49] true
    (fun _ => validateKsr anyVerifier 0 (.ok { exPol with numBundles := 9 }) none (.ok exReq)) none true exUpload).2.length
    = 7 := by decide +kernel
/-- … and an unlisted client with the same request: 403 and nothing happened. -/
example : handleUpload (fun _ => true) (fun _ => true) (fun _ => "ab") ["AB"] (.der [1]) exCfg (fun _ => "h") [95, 49] true
    (fun _ => validateKsr anyVerifier 0 (.ok exPol) none (.ok exReq)) none true exUpload = (.http 403, []) := by
  decide +kernel

end Kskm.C20
