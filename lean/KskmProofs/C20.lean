/-
  C20 — the KSR receiver confines uploads, admits listed clients, judges like the signer.

  * `wash_*`, `path_confined`, `write_once_inside`: whatever file name the client supplies (any
    sequence of code points, lone surrogates included), the stored name consists of
    `[A-Za-z0-9_-]`, a timestamp suffix and `.xml`; the path written is the upload directory plus
    that single component.
  * `gates_before_write`: wrong content type → 400, missing size → 400, over-size → 413, each with
    an EMPTY effect log (body not read, nothing opened, nothing written).
  * `whitelist_403`, `no_certificate_no_handler`, `dispatch_callNext_iff`, `digest_never_none`:
    the middleware as written, including its `digest is None` pass-through branch, which is shown
    unreachable because `request_peercert` raises when there is no certificate.
  * `verdict_iff`, `verdict_error_iff`, `verdict_propagates`, `verdict_vs_signer`: `validate_ksr`
    answers OK exactly when the signer's KSR validation and the token-less chain validation accept,
    ERROR exactly on a policy violation of either, and lets every other failure through uncaught.
-/
import Kskm.Wksr
import Kskm.FileEffects
import KskmGen.Tables
import KskmProofs.Lemmas.C20Wash
import KskmProofs.Lemmas.C17Load
namespace Kskm.C20
open Kskm.Wksr

/-! ## The regular expression the scan was derived from -/

/-- the `re.sub` pattern in `wksr/server.py` is still the one `wash` mirrors (regenerated on every run) -/
theorem regex_pinned :
    ("src/kskm/wksr/server.py:re.sub#1", "[^a-zA-Z0-9_\\-]+") ∈ KskmGen.regexLiterals := by decide

/-! ## File-name washing -/

/-- **wash_safe.** For every input, every output character is in `[A-Za-z0-9_-]`. -/
theorem wash_safe (s : List Nat) : ∀ c ∈ wash s, isSafeCp c = true := washFrom_safe s false

/-- **wash_no_separator.** No `/`, `\`, `.`, NUL, `:` or space survives; nor any non-ASCII code point. -/
theorem wash_no_separator (s : List Nat) :
    47 ∉ wash s ∧ 92 ∉ wash s ∧ 46 ∉ wash s ∧ 0 ∉ wash s ∧ 58 ∉ wash s ∧ 32 ∉ wash s ∧
    ∀ c ∈ wash s, c < 128 := by
  have h := wash_safe s
  refine ⟨fun m => ?_, fun m => ?_, fun m => ?_, fun m => ?_, fun m => ?_, fun m => ?_, ?_⟩
  · exact absurd (h _ m) (by decide)
  · exact absurd (h _ m) (by decide)
  · exact absurd (h _ m) (by decide)
  · exact absurd (h _ m) (by decide)
  · exact absurd (h _ m) (by decide)
  · exact absurd (h _ m) (by decide)
  · intro c hc
    have := h c hc
    simp only [isSafeCp, Bool.or_eq_true, Bool.and_eq_true, decide_eq_true_eq, beq_iff_eq] at this
    omega

/-- **wash_idempotent.** -/
theorem wash_idempotent (s : List Nat) : wash (wash s) = wash s :=
  washFrom_id_of_safe (wash s) (wash_safe s) false

/-- a name made of safe characters only is kept as it is -/
theorem wash_safe_fixed (s : List Nat) (h : ∀ c ∈ s, isSafeCp c = true) : wash s = s :=
  washFrom_id_of_safe s h false

/-- **Every maximal run of unsafe characters becomes ONE underscore** — the three equations that
    determine the function reading left to right: a safe character is copied; a non-empty run of
    unsafe characters followed by a safe one yields `_` and that character; a trailing run yields `_`. -/
theorem wash_runs :
    (∀ c r, isSafeCp c = true → wash (c :: r) = c :: wash r) ∧
    (∀ u c r, u ≠ [] → (∀ x ∈ u, isSafeCp x = false) → isSafeCp c = true →
        wash (u ++ c :: r) = 95 :: c :: wash r) ∧
    (∀ u, u ≠ [] → (∀ x ∈ u, isSafeCp x = false) → wash u = [95]) := by
  refine ⟨?_, ?_, ?_⟩
  · intro c r hc; simp [wash, washFrom, hc]
  · intro u c r hne hu hc
    have : u.isEmpty = false := by cases u <;> simp_all
    simp [wash, washFrom_run u hu c hc r false, this]
  · intro u hne hu
    have : u.isEmpty = false := by cases u <;> simp_all
    simp [wash, washFrom_trailing u hu false, this]

/-! ## Path confinement -/

/-- the shape of `strftime("_%Y%m%d_%H%M%S_%f")`: underscores and ASCII digits -/
def SuffixShape (suffix : List Nat) : Prop := ∀ c ∈ suffix, c = 95 ∨ (48 ≤ c ∧ c ≤ 57)

/-- **path_confined.** For every client file name, every clock string of the suffix shape and every
    upload directory: the final component `washed ++ suffix ++ ".xml"` contains no separator, is
    neither empty, `.` nor `..`, consists of `[A-Za-z0-9_-]` and the four characters of `.xml` only;
    the path is the upload directory extended by exactly that one component — its parent is the
    upload directory and it is absolute iff the upload directory is. -/
theorem path_confined (uploadDir : WPath) (filename : Option (List Nat)) (suffix : List Nat)
    (hs : SuffixShape suffix) :
    let name := wash (pyStrOpt filename) ++ suffix ++ dotXml
    let p := savePath uploadDir (wash (pyStrOpt filename)) suffix
    47 ∉ name ∧ 0 ∉ name ∧ name ≠ [] ∧ name ≠ [46] ∧ name ≠ [46, 46] ∧
    (∀ c ∈ name, isSafeCp c = true ∨ c ∈ dotXml) ∧
    p = { absolute := uploadDir.absolute, parts := uploadDir.parts ++ [name] } ∧
    p.parent = uploadDir ∧ p.name = name := by
  intro name p
  have hw := wash_safe (pyStrOpt filename)
  have hchars : ∀ c ∈ name, isSafeCp c = true ∨ c ∈ dotXml := by
    intro c hc
    simp only [name, List.mem_append] at hc
    rcases hc with (hc | hc) | hc
    · exact Or.inl (hw c hc)
    · left
      rcases hs c hc with rfl | h
      · decide
      · simp only [isSafeCp, Bool.or_eq_true, Bool.and_eq_true, decide_eq_true_eq, beq_iff_eq]; omega
    · exact Or.inr hc
  have h47 : 47 ∉ name := fun m => by
    rcases hchars 47 m with h | h
    · exact absurd h (by decide)
    · exact absurd h (by decide)
  have h0 : 0 ∉ name := fun m => by
    rcases hchars 0 m with h | h
    · exact absurd h (by decide)
    · exact absurd h (by decide)
  have hlen : 4 ≤ name.length := by simp [name, dotXml]; omega
  have hne : name ≠ [] := fun h => by rw [h] at hlen; simp at hlen
  have hdot : name ≠ [46] := fun h => by rw [h] at hlen; simp at hlen
  have hdd : name ≠ [46, 46] := fun h => by rw [h] at hlen; simp at hlen
  have hp : p = { absolute := uploadDir.absolute, parts := uploadDir.parts ++ [name] } := by
    show uploadDir.join (parsePath name) = _
    rw [parsePath_plain name h47 hne hdot]
    simp [WPath.join]
  refine ⟨h47, h0, hne, hdot, hdd, hchars, hp, ?_, ?_⟩
  · rw [hp]; simp [WPath.parent]
  · rw [hp]; simp [WPath.name]

/-! ## The gates and the single write -/

/-- **gates_before_write.** Each failing gate gives its exact status with an EMPTY effect log: the
    body is not read, the clock not consulted, nothing opened, nothing written. -/
theorem gates_before_write (cfg : KsrCfg) (hashHex : Bytes → String) (suffix : List Nat) (openOk : Bool)
    (u : Upload) :
    (u.contentType ≠ some cfg.contentType →
        saveKsr cfg hashHex suffix openOk u = (.error (.http 400), [])) ∧
    (u.contentType = some cfg.contentType → u.size = none →
        saveKsr cfg hashHex suffix openOk u = (.error (.http 400), [])) ∧
    (u.contentType = some cfg.contentType → ∀ size, u.size = some size → size > cfg.maxSize →
        saveKsr cfg hashHex suffix openOk u = (.error (.http 413), [])) := by
  refine ⟨?_, ?_, ?_⟩
  · intro h; simp [saveKsr, h]
  · intro h1 h2; simp [saveKsr, h1, h2]
  · intro h1 size h2 h3; simp [saveKsr, h1, h2, h3]

/-- no effect that touches the disk, and no read of the body, unless all three gates pass -/
theorem no_disk_effect_unless_gates_pass (cfg : KsrCfg) (hashHex : Bytes → String) (suffix : List Nat)
    (openOk : Bool) (u : Upload) (e : WEffect)
    (he : e ∈ (saveKsr cfg hashHex suffix openOk u).2) :
    u.contentType = some cfg.contentType ∧ ∃ size, u.size = some size ∧ size ≤ cfg.maxSize := by
  unfold saveKsr at he
  by_cases h1 : u.contentType = some cfg.contentType
  · refine ⟨h1, ?_⟩
    cases h2 : u.size with
    | none => simp [h1, h2] at he
    | some size =>
      by_cases h3 : size > cfg.maxSize
      · simp [h1, h2, h3] at he
      · exact ⟨size, rfl, by omega⟩
  · simp [h1] at he

/-- **write_once_inside.** A successful `save_ksr` passed all three gates, issued exactly one write —
    of exactly the body, to exactly the returned path —, returns the hash of that body, and the path
    is the upload directory plus the washed, timestamped, `.xml`-terminated component. -/
theorem write_once_inside (cfg : KsrCfg) (hashHex : Bytes → String) (suffix : List Nat) (openOk : Bool)
    (u : Upload) (p : WPath) (h : String)
    (hok : (saveKsr cfg hashHex suffix openOk u).1 = .ok (p, h)) :
    u.contentType = some cfg.contentType ∧ (∃ size, u.size = some size ∧ size ≤ cfg.maxSize) ∧
    p = savePath cfg.uploadPath (wash (pyStrOpt u.filename)) suffix ∧
    h = hashHex u.body ∧
    (saveKsr cfg hashHex suffix openOk u).2 = [.readBody, .now, .openWrite p, .write p u.body, .logSaved] := by
  unfold saveKsr at hok ⊢
  by_cases h1 : u.contentType = some cfg.contentType
  · cases h2 : u.size with
    | none => simp [h1, h2] at hok
    | some size =>
      by_cases h3 : size > cfg.maxSize
      · simp [h1, h2, h3] at hok
      · cases openOk
        · simp [h1, h2, h3] at hok
        · simp only [h1, h2, h3, bne_self_eq_false, Bool.false_eq_true, ↓reduceIte, Bool.not_true,
            Except.ok.injEq, Prod.mk.injEq] at hok ⊢
          obtain ⟨rfl, rfl⟩ := hok
          exact ⟨trivial, ⟨size, rfl, by omega⟩, rfl, rfl, rfl⟩
  · simp [h1] at hok

/-- a failed `open` writes nothing -/
theorem open_failure_writes_nothing (cfg : KsrCfg) (hashHex : Bytes → String) (suffix : List Nat) (u : Upload) :
    ∀ e ∈ (saveKsr cfg hashHex suffix false u).2, ∀ p d, e ≠ .write p d := by
  intro e he p d
  unfold saveKsr at he
  by_cases h1 : u.contentType = some cfg.contentType
  · cases h2 : u.size with
    | none => simp [h1, h2] at he
    | some size =>
      by_cases h3 : size > cfg.maxSize
      · simp [h1, h2, h3] at he
      · simp [h1, h2, h3] at he
        rcases he with rfl | rfl | rfl <;> simp
  · simp [h1] at he

/-! ## The whitelist -/

/-- **whitelist_403.** A client whose certificate parses and whose fingerprint is not on the list is
    refused with 403 — for every list, in particular the empty one. -/
theorem whitelist_403 (parseOk truthy : Bytes → Bool) (fp : Bytes → String) (whitelist : List String)
    (der : Bytes) (hp : parseOk der = true) (ht : truthy der = true) (hn : fp der ∉ whitelist) :
    dispatch parseOk truthy fp whitelist (.der der) = .ok (.http 403) := by
  simp [dispatch, requestPeercertDigest, requestPeercert, hp, ht, hn, bind, Except.bind, pure, Except.pure]

/-- **no_certificate_no_handler.** Without a TLS object, without a client certificate, or with
    octets that are not a certificate, the middleware ends in an exception: the request neither
    reaches the handler nor gets the `digest is None` pass-through. -/
theorem no_certificate_no_handler (parseOk truthy : Bytes → Bool) (fp : Bytes → String)
    (whitelist : List String) :
    dispatch parseOk truthy fp whitelist .noTls = err .attribute ∧
    dispatch parseOk truthy fp whitelist .noCert = err .type ∧
    (∀ der, parseOk der = false → dispatch parseOk truthy fp whitelist (.der der) = err .value) := by
  refine ⟨rfl, rfl, ?_⟩
  intro der h
  simp [dispatch, requestPeercertDigest, requestPeercert, h, err, bind, Except.bind]

/-- **digest_never_none.** `request_peercert_digest` returns `None` only for a certificate OBJECT
    that is falsy; `x509.Certificate` defines neither `__bool__` nor `__len__` (checked on the real
    class by harness/corr_C20.py), so with `truthy = fun _ => true` the `digest is None` branch of
    `dispatch` is dead code. -/
theorem digest_never_none (parseOk : Bytes → Bool) (fp : Bytes → String) (p : Peer) :
    requestPeercertDigest parseOk (fun _ => true) fp p ≠ .ok none := by
  cases p with
  | noTls => simp [requestPeercertDigest, requestPeercert, err, bind, Except.bind]
  | noCert => simp [requestPeercertDigest, requestPeercert, err, bind, Except.bind]
  | der b =>
    cases h : parseOk b <;>
      simp [requestPeercertDigest, requestPeercert, h, err, bind, Except.bind, pure, Except.pure]

/-- **dispatch_callNext_iff.** The request reaches the handler exactly when the client presented a
    parseable certificate whose fingerprint is on the list (certificate objects being truthy). -/
theorem dispatch_callNext_iff (parseOk : Bytes → Bool) (fp : Bytes → String) (whitelist : List String)
    (p : Peer) :
    dispatch parseOk (fun _ => true) fp whitelist p = .ok .callNext ↔
      ∃ der, p = .der der ∧ parseOk der = true ∧ fp der ∈ whitelist := by
  cases p with
  | noTls => simp [dispatch, requestPeercertDigest, requestPeercert, err, bind, Except.bind]
  | noCert => simp [dispatch, requestPeercertDigest, requestPeercert, err, bind, Except.bind]
  | der b =>
    cases h : parseOk b
    · simp [dispatch, requestPeercertDigest, requestPeercert, h, err, bind, Except.bind]
    · by_cases hm : fp b ∈ whitelist
      · simp [dispatch, requestPeercertDigest, requestPeercert, h, hm, bind, Except.bind, pure, Except.pure]
      · simp [dispatch, requestPeercertDigest, requestPeercert, h, hm, bind, Except.bind, pure, Except.pure]

/-- the code AS WRITTEN would pass a falsy certificate object through unchecked (the modelled
    branch); stated so that the dependence on `bool(cert)` is visible -/
theorem dispatch_falsy_certificate_passes (parseOk : Bytes → Bool) (fp : Bytes → String)
    (whitelist : List String) (der : Bytes) (hp : parseOk der = true) :
    dispatch parseOk (fun _ => false) fp whitelist (.der der) = .ok .callNext := by
  simp [dispatch, requestPeercertDigest, requestPeercert, hp, bind, Except.bind, pure, Except.pure]

/-! ## The verdict -/

/-- **verdict_iff.** `validate_ksr` reports OK exactly when the configuration loaded, the previous
    SKR (if one is configured) loaded, the upload parsed, the signer's `validate_request` accepts
    under the configured policy, and — with a previous SKR — the token-less `check_skr_and_ksr`
    accepts. -/
theorem verdict_iff (verify : Verifier) (now : Int) (cfg : Res RequestPolicy)
    (prev : Option (Res Response)) (parsed : Res Request) :
    validateKsr verify now cfg prev parsed = .ok .OK ↔
      ∃ pol ksr, cfg = .ok pol ∧ parsed = .ok ksr ∧
        validateRequest verify now ksr pol = .ok () ∧
        (prev = none ∨ ∃ skr, prev = some (.ok skr) ∧ checkSkrAndKsr ksr skr pol none = .ok ()) := by
  unfold validateKsr
  cases cfg with
  | error e => simp
  | ok pol =>
    simp only [Except.ok.injEq, exists_and_left, exists_eq_left']
    unfold validateKsrBody
    cases prev with
    | none =>
      cases parsed with
      | error e => cases e <;> simp [bind, Except.bind, pure, Except.pure]
      | ok ksr =>
        cases hv : validateRequest verify now ksr pol with
        | error e => cases e <;> simp [bind, Except.bind, pure, Except.pure, hv]
        | ok u => cases u; simp [bind, Except.bind, pure, Except.pure, hv]
    | some r =>
      cases r with
      | error e => cases e <;> simp [bind, Except.bind]
      | ok skr =>
        cases parsed with
        | error e => cases e <;> simp [bind, Except.bind, pure, Except.pure]
        | ok ksr =>
          cases hv : validateRequest verify now ksr pol with
          | error e => cases e <;> simp [bind, Except.bind, pure, Except.pure, hv]
          | ok u =>
            cases u
            cases hc : checkSkrAndKsr ksr skr pol none with
            | error e => cases e <;> simp [bind, Except.bind, pure, Except.pure, hv, hc]
            | ok u => cases u; simp [bind, Except.bind, pure, Except.pure, hv, hc]
/-- **verdict_error_iff.** ERROR exactly when the configuration loaded and the `try` body ended in a
    policy violation (of any rule). -/
theorem verdict_error_iff (verify : Verifier) (now : Int) (cfg : Res RequestPolicy)
    (prev : Option (Res Response)) (parsed : Res Request) :
    validateKsr verify now cfg prev parsed = .ok .ERROR ↔
      ∃ pol r, cfg = .ok pol ∧ validateKsrBody verify now pol prev parsed = .error (.violation r) := by
  unfold validateKsr
  cases cfg with
  | error e => simp
  | ok pol =>
    cases hb : validateKsrBody verify now pol prev parsed with
    | ok u => cases u; simp [hb]
    | error e => cases e <;> simp [hb]

/-- **A violation of the signer's KSR rules, or of the chain rules, is reported as ERROR** (when the
    files involved loaded at all). -/
theorem verdict_violation_is_error (verify : Verifier) (now : Int) (pol : RequestPolicy)
    (ksr : Request) (r : Rule) :
    (∀ prev, (prev = none ∨ ∃ skr, prev = some (.ok skr)) →
      validateRequest verify now ksr pol = .error (.violation r) →
      validateKsr verify now (.ok pol) prev (.ok ksr) = .ok .ERROR) ∧
    (∀ skr, validateRequest verify now ksr pol = .ok () →
      checkSkrAndKsr ksr skr pol none = .error (.violation r) →
      validateKsr verify now (.ok pol) (some (.ok skr)) (.ok ksr) = .ok .ERROR) := by
  refine ⟨?_, ?_⟩
  · intro prev hprev hv
    rcases hprev with rfl | ⟨skr, rfl⟩ <;>
      simp [validateKsr, validateKsrBody, hv, bind, Except.bind, pure, Except.pure]
  · intro skr hv hc
    simp [validateKsr, validateKsrBody, hv, hc, bind, Except.bind, pure, Except.pure]

/-- **verdict_propagates.** Nothing but `PolicyViolation` is caught: a configuration that does not
    load, and any non-policy failure inside the `try` (unreadable or unparsable file, over-size
    file, `RuntimeError` from `load_skr`, …) leave `validate_ksr` as that same failure. -/
theorem verdict_propagates (verify : Verifier) (now : Int) (prev : Option (Res Response))
    (parsed : Res Request) :
    (∀ e, validateKsr verify now (.error e) prev parsed = .error e) ∧
    (∀ pol k, validateKsrBody verify now pol prev parsed = .error (.error k) →
        validateKsr verify now (.ok pol) prev parsed = .error (.error k)) ∧
    (∀ pol, validateKsrBody verify now pol prev parsed = .error .unsupported →
        validateKsr verify now (.ok pol) prev parsed = .error .unsupported) := by
  refine ⟨fun e => rfl, ?_, ?_⟩
  · intro pol k h; simp [validateKsr, h]
  · intro pol h; simp [validateKsr, h]

/-- **An invalid previous SKR is NOT reported as ERROR.** `load_skr` turns the SKR's policy
    violations into `RuntimeError` before `validate_ksr`'s `except PolicyViolation` can see them:
    whatever `load_skr` fails with leaves `validate_ksr` uncaught (the model of `load_skr` is
    `Kskm.loadSkr`; `hparse`: the XML parser itself raises no `PolicyViolation`). -/
theorem previous_skr_failure_propagates (verify : Verifier) (now : Int) (pol : RequestPolicy)
    (parsed : Res Request)
    (maxSize : Nat) (hash : Bytes → Bytes) (parse : Bytes → Res Response) (validate : Response → Res Unit)
    (path : String) (content : Nat → Bytes) (t0 : Nat)
    (hparse : ∀ b r, parse b ≠ .error (.violation r)) (e : Fail)
    (hfail : (loadSkr maxSize hash parse validate path content t0).1 = .error e) :
    validateKsr verify now (.ok pol) (some (loadSkr maxSize hash parse validate path content t0).1) parsed
      = .error e := by
  have hnv := C17.loadSkr_no_violation maxSize hash parse validate path content t0 hparse
  rw [hfail] at hnv ⊢
  cases e with
  | violation r => exact absurd rfl (hnv r)
  | error k => simp [validateKsr, validateKsrBody, bind, Except.bind]
  | unsupported => simp [validateKsr, validateKsrBody, bind, Except.bind]

/-- **verdict_vs_signer.** The signer runs the same `check_skr_and_ksr` WITH its token; that accepts
    exactly when the token-less run accepts and the extra "SKR(n-1) keys are in the HSM" check does.
    So everything the signer accepts the receiver reports OK, and a KSR reported OK can only be
    refused by the signer's chain check on account of the HSM content. -/
theorem verdict_vs_signer (ksr : Request) (skr : Response) (pol : RequestPolicy) (tok : TokenLookup) :
    checkSkrAndKsr ksr skr pol (some tok) = .ok () ↔
      checkSkrAndKsr ksr skr pol none = .ok () ∧ checkLastSkrKeyPresent skr pol (some tok) = .ok () := by
  unfold checkSkrAndKsr
  simp only [seq_ok_iff, checkLastSkrKeyPresent, and_assoc]
  constructor
  · rintro ⟨h1, h2, h3, h4, h5⟩
    exact ⟨h1, h2, h3, h4, rfl, h5⟩
  · rintro ⟨h1, h2, h3, h4, _, h5⟩
    exact ⟨h1, h2, h3, h4, h5⟩

/-! ## Non-vacuity -/

/-- `../../etc/passwd`, a NUL, a non-BMP code point and a lone surrogate -/
example : wash [46, 46, 47, 46, 46, 47, 101, 116, 99, 47, 112, 97, 115, 115, 119, 100, 0, 0x1F600, 0xD800, 120]
    = [95, 101, 116, 99, 95, 112, 97, 115, 115, 119, 100, 95, 120] := by decide
example : wash [] = [] ∧ wash [47, 47, 47] = [95] ∧ wash [0xFF11, 0x0661] = [95] := by decide
/-- `_20260926_120000_000001` has the suffix shape -/
example : SuffixShape [95, 50, 48, 50, 54, 48, 57, 50, 54, 95, 49, 50, 48, 48, 48, 48, 95, 48, 48, 48, 48, 48, 49] := by
  unfold SuffixShape; decide
/-- the default `upload_path: upload` and a hostile name -/
example : (savePath (parsePath [117, 112, 108, 111, 97, 100]) (wash [46, 46, 47, 120]) [95, 49]).render
    = [117, 112, 108, 111, 97, 100, 47, 95, 120, 95, 49, 46, 120, 109, 108] := by decide
/-- what pathlib would do WITHOUT washing: `..` is kept, an absolute name replaces the directory —
    so the confinement does rest on `wash` -/
example : ((parsePath [117, 112]).join (parsePath [46, 46, 47, 120])).parts = [[117, 112], [46, 46], [120]] ∧
    ((parsePath [117, 112]).join (parsePath [47, 120])) = { absolute := true, parts := [[120]] } := by decide

def exCfg : KsrCfg := { contentType := "application/xml", maxSize := 65535, uploadPath := parsePath [117, 112] }
def exUpload : Upload := { contentType := some "application/xml", size := some 3, filename := some [97, 47, 98], body := [1, 2, 3] }

example : (saveKsr exCfg (fun _ => "h") [95, 49] true exUpload).1.toOption.map (·.1.render) =
    some [117, 112, 47, 97, 95, 98, 95, 49, 46, 120, 109, 108] := by decide
example : saveKsr exCfg (fun _ => "h") [95, 49] true { exUpload with size := some 65536 } = (.error (.http 413), []) := by
  rfl
example : (saveKsr exCfg (fun _ => "h") [95, 49] true { exUpload with size := some 65535 }).2.length = 5 := by decide
example : saveKsr exCfg (fun _ => "h") [95, 49] true { exUpload with contentType := none } = (.error (.http 400), []) := by
  rfl

example : dispatch (fun _ => true) (fun _ => true) (fun _ => "ab") ["ab"] (.der [1]) = .ok .callNext := by decide
example : dispatch (fun _ => true) (fun _ => true) (fun _ => "ab") [] (.der [1]) = .ok (.http 403) := by decide
/-- an upper-case entry never matches the lower-case fingerprint: the comparison is on the text -/
example : dispatch (fun _ => true) (fun _ => true) (fun _ => "ab") ["AB"] (.der [1]) = .ok (.http 403) := by decide

/-- a request every rule accepts under a policy with the optional checks off … -/
def exPol : RequestPolicy :=
  { KskmGen.requestPolicyDefaults with
    numBundles := 1, validateSignatures := false, keysMatchZskPolicy := false,
    checkKeysMatchKskOperatorPolicy := false, checkCycleLength := false,
    signatureCheckExpireHorizon := false }
def exBundle (id : String) (i e : Int) : Bundle := { id := id, inception := i, expiration := e, keys := [], signatures := [] }
def exReq : Request :=
  { id := "ksr-2", serial := 2, domain := ".", zskPolicy := {}, bundles := [exBundle "b2" 100 100] }
def exSkr (id : String) : Response :=
  { id := id, serial := 1, domain := ".", zskPolicy := {}, kskPolicy := {}, bundles := [exBundle "b1" 0 100] }
def anyVerifier : Verifier := fun _ _ _ _ => .valid

example : validateKsr anyVerifier 0 (.ok exPol) none (.ok exReq) = .ok .OK := by decide +kernel
example : validateKsr anyVerifier 0 (.ok exPol) (some (.ok (exSkr "skr-1"))) (.ok exReq) = .ok .OK := by decide +kernel
/-- … ERROR for a replayed request id (chain rule) and for a wrong bundle count (KSR rule) … -/
example : validateKsr anyVerifier 0 (.ok exPol) (some (.ok (exSkr "ksr-2"))) (.ok exReq) = .ok .ERROR := by
  decide +kernel
example : validateKsr anyVerifier 0 (.ok { exPol with numBundles := 9 }) none (.ok exReq) = .ok .ERROR := by
  decide +kernel
/-- … and an uncaught failure for an unparsable upload or an unloadable previous SKR. -/
example : validateKsr anyVerifier 0 (.ok exPol) none (err .value) = err .value := by decide +kernel
example : validateKsr anyVerifier 0 (.ok exPol) (some (err .runtime)) (.ok exReq) = err .runtime := by decide +kernel

end Kskm.C20
