/-
  C09 — a new SKR is released only if KSK publish and retire safety hold at the boundary.

  The two clauses below are written from the property text, in its vocabulary ("published in",
  "signed", "revoked key", "within the retire-safety period of the first"), independently of the
  loops of `Kskm.Chain` (which mirror /repo's `check_publish_safety` / `check_retire_safety` step by
  step).  The theorems say: for every previous SKR and every new SKR with at least one bundle each,
  every policy and every pair of safety periods, each check accepts exactly its clause, bounds
  inclusive, and is skipped by its own flag only.
-/
import Kskm.Chain
import KskmProofs.Lemmas.Res
import KskmProofs.Lemmas.C09Basic
namespace Kskm.C09

/-! ## The documented region -/

/-- a key with identifier `id` is published in bundle `b` -/
def Published (b : Bundle) (id : String) : Prop := ∃ k ∈ b.keys, k.keyIdentifier = id

/-- bit 7 (REVOKE, 0x80) of a DNSKEY flags value is set — as a statement about the binary expansion
    (two's complement for a negative value), not about `%` -/
def RevokeBitSet (flags : Int) : Prop := ∃ q r : Int, flags = 256 * q + 128 + r ∧ 0 ≤ r ∧ r < 128

/-- `id` is the identifier of a REVOKED key of bundle `b` -/
def RevokedIn (b : Bundle) (id : String) : Prop :=
  ∃ k ∈ b.keys, RevokeBitSet k.flags ∧ k.keyIdentifier = id

/-- **Publish half.**  Every key signing the new first bundle was published in the previous last
    bundle, and `first.inception − PublishSafety` lies in `[prev.inception, prev.expiration]`,
    both ends included. -/
def PublishClause (prev first : Bundle) (publishSafety : Int) : Prop :=
  (∀ sig ∈ first.signatures, Published prev sig.keyIdentifier) ∧
  prev.inception ≤ first.inception - publishSafety ∧
  first.inception - publishSafety ≤ prev.expiration

/-- **Retire half.**  (a) every key that signed the previous last bundle is still published in each
    new bundle whose inception is within `RetireSafety` of the first inception (inclusive);
    (b) every signer of new bundle `i` that is not a revoked key of that bundle is published in every
    later bundle `j > i` of the same SKR. -/
def RetireClause (prev first : Bundle) (bundles : List Bundle) (retireSafety : Int) : Prop :=
  (∀ b ∈ bundles, b.inception ≤ first.inception + retireSafety →
      ∀ sig ∈ prev.signatures, Published b sig.keyIdentifier) ∧
  (∀ (i j : Nat) bi bj, i < j → bundles[i]? = some bi → bundles[j]? = some bj →
      ∀ sig ∈ bi.signatures, ¬ RevokedIn bi sig.keyIdentifier → Published bj sig.keyIdentifier)

/-- The documented region of `check_last_skr_and_new_skr` under a given flag assignment. -/
def SafetyRegion (prev first : Bundle) (new : Response) (pol : RequestPolicy) : Prop :=
  (pol.checkKeysPublishSafety = true → PublishClause prev first new.kskPolicy.publishSafety) ∧
  (pol.checkKeysRetireSafety = true → RetireClause prev first new.bundles new.kskPolicy.retireSafety)

/-! ## Vocabulary bridges -/

theorem isRevokedKey_iff (k : Key) : isRevokedKey k = true ↔ RevokeBitSet k.flags := by
  unfold isRevokedKey RevokeBitSet
  simp only [decide_eq_true_eq]
  constructor
  · intro h
    exact ⟨k.flags / 256, k.flags % 256 - 128, by omega, by omega, by omega⟩
  · rintro ⟨q, r, h1, h2, h3⟩
    omega

theorem revokedIds_iff (b : Bundle) (id : String) :
    ((b.keys.filter isRevokedKey).map (·.keyIdentifier)).contains id = true ↔ RevokedIn b id := by
  rw [mem_revokedIds]
  unfold RevokedIn
  simp only [isRevokedKey_iff]

theorem published_iff (b : Bundle) (id : String) : hasKeyId b id = true ↔ Published b id :=
  hasKeyId_iff b id

/-! ## Publish half -/

/-- **Publish safety accepts exactly its clause**, for every pair of SKRs with a bundle each. -/
theorem publish_iff (last new : Response) (pol : RequestPolicy) (prev first : Bundle)
    (hl : last.bundles.getLast? = some prev) (hf : new.bundles.head? = some first) :
    checkPublishSafety last new pol = .ok () ↔
      (pol.checkKeysPublishSafety = true → PublishClause prev first new.kskPolicy.publishSafety) := by
  unfold checkPublishSafety PublishClause
  cases hflag : pol.checkKeysPublishSafety
  · simp
  · simp only [Bool.not_true, Bool.false_eq_true, ↓reduceIte, hl, hf, seq_ok_iff, forEach_ok_iff,
      forall_const, ite_ok_viol_iff, published_iff]
    apply and_congr_right; intro _
    split
    · simp; omega
    · split
      · simp; omega
      · simp; omega

/-! ## Retire half -/

/-- the per-pair test of the second loop: a signer of `curr` that is not one of its revoked keys
    must be published in `b` -/
theorem retire_step_iff (curr b : Bundle) :
    (forEach curr.signatures fun sig =>
        if ((curr.keys.filter isRevokedKey).map (·.keyIdentifier)).contains sig.keyIdentifier then (pure () : Res Unit)
        else if hasKeyId b sig.keyIdentifier then pure () else violation .policySafety) = .ok () ↔
      ∀ sig ∈ curr.signatures, ¬ RevokedIn curr sig.keyIdentifier → Published b sig.keyIdentifier := by
  rw [forEach_ok_iff]
  apply forall_congr'; intro sig; apply imp_congr_right; intro _
  by_cases hr : ((curr.keys.filter isRevokedKey).map (·.keyIdentifier)).contains sig.keyIdentifier = true
  · have := (revokedIds_iff curr sig.keyIdentifier).mp hr
    simp only [hr, ↓reduceIte, pure_eq_ok, true_iff]
    intro hn; exact absurd this hn
  · have hn : ¬ RevokedIn curr sig.keyIdentifier := fun h => hr ((revokedIds_iff curr sig.keyIdentifier).mpr h)
    simp only [hr, Bool.false_eq_true, ↓reduceIte, ite_ok_viol_iff, published_iff, hn, not_false_eq_true,
      forall_const]

/-- **The "stays published later" loop, by induction over the bundle list:** it accepts iff for all
    positions `i < j` every non-revoked signer of bundle `i` is published in bundle `j`. -/
theorem retireLater_iff (l : List Bundle) :
    retireLater l = .ok () ↔
      ∀ (i j : Nat) bi bj, i < j → l[i]? = some bi → l[j]? = some bj →
        ∀ sig ∈ bi.signatures, ¬ RevokedIn bi sig.keyIdentifier → Published bj sig.keyIdentifier := by
  induction l with
  | nil => simp [retireLater]
  | cons curr later ih =>
    unfold retireLater
    simp only [seq_ok_iff, ih]
    rw [forEach_ok_iff]
    constructor
    · rintro ⟨h0, hrest⟩ i j bi bj hij hi hj
      cases j with
      | zero => omega
      | succ j' =>
        cases i with
        | zero =>
          simp only [List.getElem?_cons_zero, Option.some.injEq] at hi
          simp only [List.getElem?_cons_succ] at hj
          subst hi
          exact (retire_step_iff curr bj).mp (h0 bj (List.mem_iff_getElem?.mpr ⟨j', hj⟩))
        | succ i' =>
          simp only [List.getElem?_cons_succ] at hi hj
          exact hrest i' j' bi bj (by omega) hi hj
    · intro h
      refine ⟨?_, ?_⟩
      · intro b hb
        obtain ⟨j', hj'⟩ := List.mem_iff_getElem?.mp hb
        exact (retire_step_iff curr b).mpr (h 0 (j' + 1) curr b (by omega) (by simp) (by simpa using hj'))
      · intro i j bi bj hij hi hj
        exact h (i + 1) (j + 1) bi bj (by omega) (by simpa using hi) (by simpa using hj)

/-- **Retire safety accepts exactly its clause.** -/
theorem retire_iff (last new : Response) (pol : RequestPolicy) (prev first : Bundle)
    (hl : last.bundles.getLast? = some prev) (hf : new.bundles.head? = some first) :
    checkRetireSafety last new pol = .ok () ↔
      (pol.checkKeysRetireSafety = true →
        RetireClause prev first new.bundles new.kskPolicy.retireSafety) := by
  unfold checkRetireSafety RetireClause
  cases hflag : pol.checkKeysRetireSafety
  · simp
  · simp only [Bool.not_true, Bool.false_eq_true, ↓reduceIte, hl, hf, seq_ok_iff, forEach_ok_iff,
      forall_const, retireLater_iff]
    apply and_congr_left; intro _
    apply forall_congr'; intro b; apply imp_congr_right; intro _
    by_cases hb : b.inception ≤ first.inception + new.kskPolicy.retireSafety
    · simp only [hb, ↓reduceIte, forEach_ok_iff, ite_ok_viol_iff, published_iff, forall_const]
    · simp [hb]

/-! ## The composite -/

/-- **C09.**  `check_last_skr_and_new_skr` accepts iff the pair lies in the documented region: the
    publish clause under `check_keys_publish_safety`, the retire clause under
    `check_keys_retire_safety`, and nothing else. -/
theorem C09_iff (last new : Response) (pol : RequestPolicy) (prev first : Bundle)
    (hl : last.bundles.getLast? = some prev) (hf : new.bundles.head? = some first) :
    checkLastSkrAndNewSkr last new pol = .ok () ↔ SafetyRegion prev first new pol := by
  unfold checkLastSkrAndNewSkr SafetyRegion
  rw [seq_ok_iff, publish_iff last new pol prev first hl hf, retire_iff last new pol prev first hl hf]

/-- **Composite is the plain conjunction** (neither half masks the other). -/
theorem composite_is_conjunction (last new : Response) (pol : RequestPolicy) :
    checkLastSkrAndNewSkr last new pol = .ok () ↔
      checkPublishSafety last new pol = .ok () ∧ checkRetireSafety last new pol = .ok () := by
  unfold checkLastSkrAndNewSkr
  rw [seq_ok_iff]

/-- **A switched-off half never rejects** … -/
theorem C09_flags_off (last new : Response) (pol : RequestPolicy) :
    (pol.checkKeysPublishSafety = false → checkPublishSafety last new pol = .ok ()) ∧
    (pol.checkKeysRetireSafety = false → checkRetireSafety last new pol = .ok ()) := by
  refine ⟨?_, ?_⟩ <;> intro h
  · simp [checkPublishSafety, h]
  · simp [checkRetireSafety, h]

/-- … **and each half is skipped by its own flag only**: its verdict is a function of its own flag
    and of nothing else in the operator's policy (in particular not of the other half's flag). -/
theorem own_flag_only (last new : Response) (pol pol' : RequestPolicy) :
    (pol.checkKeysPublishSafety = pol'.checkKeysPublishSafety →
      checkPublishSafety last new pol = checkPublishSafety last new pol') ∧
    (pol.checkKeysRetireSafety = pol'.checkKeysRetireSafety →
      checkRetireSafety last new pol = checkRetireSafety last new pol') := by
  refine ⟨?_, ?_⟩ <;> intro h
  · unfold checkPublishSafety; rw [h]
  · unfold checkRetireSafety; rw [h]

/-- with its flag on, a half never accepts outside its clause, whatever the other flag says -/
theorem flag_on_enforces (last new : Response) (pol : RequestPolicy) (prev first : Bundle)
    (hl : last.bundles.getLast? = some prev) (hf : new.bundles.head? = some first)
    (hok : checkLastSkrAndNewSkr last new pol = .ok ()) :
    (pol.checkKeysPublishSafety = true → PublishClause prev first new.kskPolicy.publishSafety) ∧
    (pol.checkKeysRetireSafety = true →
      RetireClause prev first new.bundles new.kskPolicy.retireSafety) :=
  (C09_iff last new pol prev first hl hf).mp hok

/-- an SKR without bundles on either side is never accepted by an enabled half (Python `IndexError`) -/
theorem empty_refused (last new : Response) (pol : RequestPolicy)
    (he : last.bundles = [] ∨ new.bundles = []) :
    (pol.checkKeysPublishSafety = true → checkPublishSafety last new pol = err .index) ∧
    (pol.checkKeysRetireSafety = true → checkRetireSafety last new pol = err .index) := by
  refine ⟨?_, ?_⟩ <;> intro h
  · unfold checkPublishSafety
    rcases he with he | he
    · simp [h, he]
    · cases hl : last.bundles.getLast? <;> simp [h, he]
  · unfold checkRetireSafety
    rcases he with he | he
    · simp [h, he]
    · cases hl : last.bundles.getLast? <;> simp [h, he]

/-! ## Boundaries are inclusive -/

/-- `first.inception − PublishSafety = prev.inception` is accepted (given the signer clause and a
    previous bundle that does not expire before it starts) … -/
theorem publish_boundary_inception (last new : Response) (pol : RequestPolicy) (prev first : Bundle)
    (hl : last.bundles.getLast? = some prev) (hf : new.bundles.head? = some first)
    (hs : ∀ sig ∈ first.signatures, Published prev sig.keyIdentifier)
    (hv : prev.inception ≤ prev.expiration)
    (hb : first.inception - new.kskPolicy.publishSafety = prev.inception) :
    checkPublishSafety last new pol = .ok () := by
  rw [publish_iff last new pol prev first hl hf]
  intro _; exact ⟨hs, by omega, by omega⟩

/-- … and so is `first.inception − PublishSafety = prev.expiration`; … -/
theorem publish_boundary_expiration (last new : Response) (pol : RequestPolicy) (prev first : Bundle)
    (hl : last.bundles.getLast? = some prev) (hf : new.bundles.head? = some first)
    (hs : ∀ sig ∈ first.signatures, Published prev sig.keyIdentifier)
    (hv : prev.inception ≤ prev.expiration)
    (hb : first.inception - new.kskPolicy.publishSafety = prev.expiration) :
    checkPublishSafety last new pol = .ok () := by
  rw [publish_iff last new pol prev first hl hf]
  intro _; exact ⟨hs, by omega, by omega⟩

/-- … while one microsecond outside either end is refused when the flag is on. -/
theorem publish_boundary_outside (last new : Response) (pol : RequestPolicy) (prev first : Bundle)
    (hl : last.bundles.getLast? = some prev) (hf : new.bundles.head? = some first)
    (hflag : pol.checkKeysPublishSafety = true)
    (hb : first.inception - new.kskPolicy.publishSafety = prev.inception - 1 ∨
          first.inception - new.kskPolicy.publishSafety = prev.expiration + 1) :
    checkPublishSafety last new pol ≠ .ok () := by
  rw [Ne, publish_iff last new pol prev first hl hf]
  intro h
  have := h hflag
  unfold PublishClause at this
  omega

/-- a new bundle whose inception equals `first.inception + RetireSafety` exactly is still inside the
    retire-safety period: an accepted SKR publishes every previous signer in it; … -/
theorem retire_boundary_inside (last new : Response) (pol : RequestPolicy) (prev first b : Bundle)
    (hl : last.bundles.getLast? = some prev) (hf : new.bundles.head? = some first)
    (hflag : pol.checkKeysRetireSafety = true)
    (hok : checkRetireSafety last new pol = .ok ())
    (hb : b ∈ new.bundles) (hat : b.inception = first.inception + new.kskPolicy.retireSafety) :
    ∀ sig ∈ prev.signatures, Published b sig.keyIdentifier :=
  (((retire_iff last new pol prev first hl hf).mp hok) hflag).1 b hb (by omega)

/-- … and one microsecond later the bundle is outside the period: dropping the previous signers from
    such bundles (only) does not make part (a) fail. -/
theorem retire_boundary_outside (prev first : Bundle) (bundles : List Bundle) (rs : Int)
    (hlater : ∀ (i j : Nat) bi bj, i < j → bundles[i]? = some bi → bundles[j]? = some bj →
      ∀ sig ∈ bi.signatures, ¬ RevokedIn bi sig.keyIdentifier → Published bj sig.keyIdentifier)
    (hin : ∀ b ∈ bundles, b.inception < first.inception + rs + 1 →
      ∀ sig ∈ prev.signatures, Published b sig.keyIdentifier) :
    RetireClause prev first bundles rs :=
  ⟨fun b hb hle => hin b hb (by omega), hlater⟩

/-! ## Non-vacuity: a two-bundle previous SKR and a three-bundle new SKR shaped like the example
    `rollover` → `revoke` schemas (previous: `A`, `B` published, `B` signs; new: bundle 1 signed by
    `B`; bundle 2 publishes `A` as revoked, co-signed by `A` and `B`; bundle 3 without `A`).
    Periods as archived: P10D / P28D; the publish point sits exactly on the previous inception. -/

def day : Int := usPerDay
def exKey (id : String) (flags : Int) : Key :=
  { keyIdentifier := id, keyTag := 1, ttl := 172800, flags, protocol := 3, algorithm := 8, publicKey := "AQAB" }
def exSig (id : String) : Signature :=
  { keyIdentifier := id, ttl := 172800, algorithm := 8, labels := 0, originalTtl := 172800,
    expiration := 0, inception := 0, keyTag := 1, signersName := ".", signatureData := "AA==" }
def exBundle (id : String) (inc : Int) (keys : List Key) (sigs : List Signature) : Bundle :=
  { id, inception := inc * day, expiration := (inc + 21) * day, keys, signatures := sigs }
def exKsk : SigPolicy := { publishSafety := 10 * day, retireSafety := 28 * day }
def exPrevLast : Bundle :=
  exBundle "q1-9" 80 [exKey "Z1" 256, exKey "Z2" 256, exKey "A" 257, exKey "B" 257] [exSig "B"]
def exLast : Response :=
  { id := "q1", serial := 1, domain := ".", zskPolicy := {}, kskPolicy := exKsk,
    bundles := [exBundle "q1-8" 70 [exKey "Z1" 256, exKey "A" 257, exKey "B" 257] [exSig "B"], exPrevLast] }
def exFirst : Bundle :=
  exBundle "q2-1" 90 [exKey "Z1" 256, exKey "Z2" 256, exKey "A" 257, exKey "B" 257] [exSig "B"]
def exNewBundles (flagsA : Int) : List Bundle :=
  [exFirst,
   exBundle "q2-2" 100 [exKey "Z2" 256, exKey "A" flagsA, exKey "B" 257] [exSig "A", exSig "B"],
   exBundle "q2-3" 130 [exKey "Z2" 256, exKey "B" 257] [exSig "B"]]
def exNew (flagsA : Int) : Response :=
  { id := "q2", serial := 2, domain := ".", zskPolicy := {}, kskPolicy := exKsk, bundles := exNewBundles flagsA }

example : checkLastSkrAndNewSkr exLast (exNew 385) {} = .ok () := by decide +kernel
/-- the revoked-key exemption is what lets `A` leave in the third bundle: without the REVOKE bit on
    `A` in the second bundle the same SKR is refused -/
example : checkLastSkrAndNewSkr exLast (exNew 257) {} = violation .policySafety := by decide +kernel
example : exLast.bundles.getLast? = some exPrevLast ∧ (exNew 385).bundles.head? = some exFirst := ⟨rfl, rfl⟩
/-- hence (by `C09_iff`) the example lies in the documented region with both flags on -/
example : SafetyRegion exPrevLast exFirst (exNew 385) {} :=
  (C09_iff exLast (exNew 385) {} exPrevLast exFirst rfl rfl).mp (by decide +kernel)

end Kskm.C09
