/-
  C17 — the digest and PGP words shown to the operator are of the bytes actually used.

  1. The word table.  `KskmGen.WORDS` is regenerated from /repo on every run; `words_standard` says it
     IS the published list (the reference copy in `Lemmas/C17Reference.lean`, whose structural facts
     — 256 rows, columns duplicate-free and disjoint, sorted apart from the one published inversion —
     are proved there about the copy).  Every other table fact is carried over through that equality,
     so any change to WORDS in /repo breaks `words_standard` and everything below it.
     `words_decode` / `words_injective` / `words_line_injective`: every rendering decodes to one
     digest, two digests never render alike — for octet strings of EVERY length, not only 32.
  2. `single_read` / `single_read_skr`: over a file whose content changes at every operation
     (`content : Nat → Bytes`, any schedule), the loader opens once, reads once, and the digest it
     shows, the `xml_hash` it stores and the object it parses are functions of that one buffer.
     `display_of_loaded`: what `ksrsigner` prints before the prompt is the hex / words of that hash.
  3. `hash_of_written`: the digest logged for an SKR / trust anchor is the hash of exactly the bytes
     handed to the single write.
  4. `get_config` reads its file twice through one descriptor; what that does and does not
     guarantee is stated (`getConfig_*`).  The property claims replacement-robustness for KSR and SKR only.
  5. `table_rows` / `table_columns`: the bundle table shows, row by row, inception, expiration and the
     tags of exactly the parsed keys, each in the column its flags dictate.

  The hash is a parameter throughout; no theorem depends on what SHA-256 computes.
-/
import Kskm.Wordlist
import Kskm.FileEffects
import Kskm.BundleTable
import KskmGen.Tables
import KskmProofs.Lemmas.C17Reference
import KskmProofs.Lemmas.C17Load
import KskmProofs.Lemmas.C17Join
import KskmProofs.Lemmas.C17Table
namespace Kskm.C17
open Kskm.C17Reference

/-! ## 1. The word table -/

/-- **The regenerated table is the published PGP word list.** (512 string equalities, by the kernel.) -/
theorem words_standard : KskmGen.WORDS = pgpWordListReference := by decide +kernel

/-- **Shape of the regenerated table**: 256 rows, neither column repeats a word, no word is in both. -/
theorem words_table_shape :
    KskmGen.WORDS.length = 256 ∧ evenWords.Nodup ∧ oddWords.Nodup ∧ (∀ w ∈ evenWords, w ∉ oddWords) := by
  have he : evenWords = refEven := by unfold evenWords refEven; rw [words_standard]
  have ho : oddWords = refOdd := by unfold oddWords refOdd; rw [words_standard]
  rw [he, ho, words_standard]
  exact ⟨reference_rows, reference_even_nodup, reference_odd_nodup, reference_disjoint⟩

/-- **Structure of the published list, on the regenerated table**: the even column is strictly
    increasing case-insensitively; the odd column is not, its one inversion is `applicant`/`Apollo`
    at rows 09/0A, and with these two exchanged it is strictly increasing; all words are 4…11 ASCII
    letters. -/
theorem words_published_structure :
    ciStrictSorted evenWords = true ∧
    ciStrictSorted oddWords = false ∧
    oddWords[9]? = some "applicant" ∧ oddWords[10]? = some "Apollo" ∧
    ciStrictSorted (swapAt 9 oddWords) = true ∧
    (KskmGen.WORDS.all fun r => wordOk r.1 && wordOk r.2) = true := by
  have he : evenWords = refEven := by unfold evenWords refEven; rw [words_standard]
  have ho : oddWords = refOdd := by unfold oddWords refOdd; rw [words_standard]
  rw [he, ho, words_standard]
  exact ⟨reference_even_sorted, reference_odd_not_sorted, reference_odd_inversion.1,
    reference_odd_inversion.2.1, reference_odd_sorted_but_one, reference_words_are_letters⟩

/-- the column used at a position of the given parity -/
def col (odd : Bool) : List String := if odd then oddWords else evenWords

theorem col_length (odd : Bool) : (col odd).length = 256 := by
  have h := words_table_shape.1
  cases odd <;> simp [col, evenWords, oddWords, h]

theorem col_nodup (odd : Bool) : (col odd).Nodup := by
  cases odd
  · exact words_table_shape.2.1
  · exact words_table_shape.2.2.1

/-- the table is long enough for every octet: `WORDS[byte]` never raises and the model's default
    word is never used -/
theorem wordAt_eq (odd : Bool) (b : UInt8) :
    wordAt odd b = (col odd)[b.toNat]'(by rw [col_length]; exact UInt8.toNat_lt b) := by
  unfold wordAt
  have : b.toNat < (col odd).length := by rw [col_length]; exact UInt8.toNat_lt b
  show (col odd).getD b.toNat "" = _
  simp [List.getD, this]

/-- **Even/odd rendering, position by position** (the specification, written against the REFERENCE
    list and the position index, not against the model's flag): the word at position `i` is the
    first-column word of row `d[i]` when `i` is even and the second-column word when `i` is odd. -/
def specWord (i : Nat) (b : UInt8) : String :=
  let row := pgpWordListReference.getD b.toNat ("", "")
  if i % 2 = 0 then row.1 else row.2

theorem words_even_odd (d : Bytes) (i : Nat) (b : UInt8) (h : d[i]? = some b) :
    (pgpWordlist d)[i]? = some (specWord i b) := by
  have gen : ∀ (d : Bytes) (odd : Bool) (i : Nat) (b : UInt8), d[i]? = some b →
      (pgpWordlistFrom odd d)[i]? = some (wordAt (if i % 2 = 0 then odd else !odd) b) := by
    intro d
    induction d with
    | nil => intro odd i b h; simp at h
    | cons x r ih =>
      intro odd i b h
      cases i with
      | zero =>
        simp only [List.getElem?_cons_zero, Option.some.injEq] at h
        subst h; simp [pgpWordlistFrom]
      | succ j =>
        simp only [List.getElem?_cons_succ] at h
        simp only [pgpWordlistFrom, List.getElem?_cons_succ, ih (!odd) j b h]
        have : (j + 1) % 2 = 0 ↔ ¬ j % 2 = 0 := by omega
        by_cases hj : j % 2 = 0 <;> simp [hj, this]
  rw [pgpWordlist, gen d false i b h]
  have hw : ∀ odd, wordAt odd b =
      (if odd then (pgpWordListReference.getD b.toNat ("", "")).2
       else (pgpWordListReference.getD b.toNat ("", "")).1) := by
    intro odd
    unfold wordAt evenWords oddWords
    rw [words_standard]
    cases odd <;> simp [List.getD, List.getElem?_map] <;>
      cases pgpWordListReference[b.toNat]? <;> rfl
  unfold specWord
  by_cases hi : i % 2 = 0 <;> simp [hi, hw]

/-- **One word per octet.** -/
theorem words_length (d : Bytes) : (pgpWordlist d).length = d.length := by
  unfold pgpWordlist
  generalize false = odd
  induction d generalizing odd with
  | nil => rfl
  | cons b r ih => simp [pgpWordlistFrom, ih]

/-- **Every rendering decodes to one digest**: the decoder recovers the octets, whatever parity the
    walk starts with (so also for inputs longer or shorter than 32 octets). -/
theorem words_decode_from (d : Bytes) : ∀ odd, unwordsFrom odd (pgpWordlistFrom odd d) = some d := by
  induction d with
  | nil => intro odd; rfl
  | cons b r ih =>
    intro odd
    simp only [pgpWordlistFrom, unwordsFrom]
    have h1 : (col odd).idxOf (wordAt odd b) = b.toNat := by
      rw [wordAt_eq]; exact List.Nodup.idxOf_getElem (col_nodup odd) _ _
    have h2 := col_length odd
    unfold col at h1 h2
    rw [h1, h2, ih (!odd)]
    have : b.toNat < 256 := UInt8.toNat_lt b
    simp [this]

theorem words_decode (d : Bytes) : unwords (pgpWordlist d) = some d := words_decode_from d false

/-- **Two different digests never render as the same words** — for all octet strings of all lengths. -/
theorem words_injective (a b : Bytes) (h : pgpWordlist a = pgpWordlist b) : a = b := by
  have := words_decode a
  rw [h, words_decode b] at this
  exact (Option.some.inj this).symm

/-- a word at an even position is never a word of the odd column and vice versa: exchanging two
    neighbouring words, dropping or doubling one is visible in the rendering itself -/
theorem words_parity (d : Bytes) (i : Nat) (w : String) (h : (pgpWordlist d)[i]? = some w) :
    (i % 2 = 0 → w ∈ evenWords ∧ w ∉ oddWords) ∧ (i % 2 = 1 → w ∈ oddWords ∧ w ∉ evenWords) := by
  have hlen : i < d.length := by
    have := (List.getElem?_eq_some_iff.mp h).1
    rwa [words_length] at this
  have hb : d[i]? = some d[i] := List.getElem?_eq_getElem hlen
  have hs := words_even_odd d i d[i] hb
  rw [h] at hs
  have hw : w = specWord i d[i] := Option.some.inj hs
  have hmem : ∀ odd, wordAt odd d[i] ∈ col odd := by
    intro odd; rw [wordAt_eq]; exact List.getElem_mem _
  have hspec : ∀ odd, wordAt odd d[i] =
      (if odd then (pgpWordListReference.getD d[i].toNat ("", "")).2
       else (pgpWordListReference.getD d[i].toNat ("", "")).1) := by
    intro odd
    unfold wordAt evenWords oddWords
    rw [words_standard]
    cases odd <;> simp [List.getD, List.getElem?_map] <;>
      cases pgpWordListReference[d[i].toNat]? <;> rfl
  constructor
  · intro hi
    have : w = wordAt false d[i] := by rw [hw, hspec]; simp [specWord, hi]
    have hm := hmem false
    rw [← this] at hm
    exact ⟨hm, words_table_shape.2.2.2 w hm⟩
  · intro hi
    have : w = wordAt true d[i] := by
      rw [hw, hspec]; have : ¬ i % 2 = 0 := by omega
      simp [specWord, this]
    have hm := hmem true
    rw [← this] at hm
    exact ⟨hm, fun he => words_table_shape.2.2.2 w he hm⟩

/-- **The displayed line** (`' '.join(words)`) is injective too: no word is empty or contains the
    separator, so the line splits back into the words. -/
theorem words_line_injective (a b : Bytes) (h : wordsLine a = wordsLine b) : a = b := by
  have hok : ∀ (d : Bytes) (w : List Char), w ∈ (pgpWordlist d).map String.toList → w ≠ [] ∧ ' ' ∉ w := by
    intro d w hw
    obtain ⟨s, hs, rfl⟩ := List.mem_map.mp hw
    obtain ⟨i, hi⟩ := List.getElem?_of_mem hs
    have hp := words_parity d i s hi
    have hall := List.all_eq_true.mp words_published_structure.2.2.2.2.2
    have hwok : wordOk s = true := by
      by_cases hpar : i % 2 = 0
      · obtain ⟨r, hr, rfl⟩ := List.mem_map.mp (hp.1 hpar).1
        have := hall r hr; simp only [Bool.and_eq_true] at this; exact this.1
      · obtain ⟨r, hr, rfl⟩ := List.mem_map.mp (hp.2 (by omega)).1
        have := hall r hr; simp only [Bool.and_eq_true] at this; exact this.2
    simp only [wordOk, Bool.and_eq_true, decide_eq_true_eq, List.all_eq_true] at hwok
    refine ⟨?_, ?_⟩
    · intro he; rw [he] at hwok; simp at hwok
    · intro hsp
      have := hwok.1.1 ' ' hsp
      simp [isAsciiLetter] at this
  have := joinSp_injective _ _ (hok a) (hok b) h
  have := (List.map_inj_right (fun x y hxy => String.toList_injective hxy)).mp this
  exact words_injective a b this

/-! ### lower-case hex -/

/-- the hex rendering is two characters of `0-9a-f` per octet … -/
theorem hex_layout (d : Bytes) :
    (hexlify d).length = 2 * d.length ∧
    ∀ c ∈ hexlify d, (('0' ≤ c ∧ c ≤ '9') ∨ ('a' ≤ c ∧ c ≤ 'f')) := by
  have nib : ∀ i : Fin 16, (('0' ≤ hexNibble i.val ∧ hexNibble i.val ≤ '9') ∨
      ('a' ≤ hexNibble i.val ∧ hexNibble i.val ≤ 'f')) := by decide
  induction d with
  | nil => simp [hexlify]
  | cons b r ih =>
    have hb := UInt8.toNat_lt b
    refine ⟨by simp [hexlify, ih.1]; omega, ?_⟩
    intro c hc
    simp only [hexlify, List.mem_cons] at hc
    rcases hc with rfl | rfl | hc
    · exact nib ⟨b.toNat / 16, by omega⟩
    · exact nib ⟨b.toNat % 16, by omega⟩
    · exact ih.2 c hc

/-- … and **injective**: two different digests never show the same hex. -/
theorem hex_injective : ∀ a b : Bytes, hexlify a = hexlify b → a = b
  | [], [], _ => rfl
  | [], _ :: _, h => by simp [hexlify] at h
  | _ :: _, [], h => by simp [hexlify] at h
  | x :: xs, y :: ys, h => by
    have nib : ∀ i j : Fin 16, hexNibble i.val = hexNibble j.val → i = j := by decide
    simp only [hexlify, List.cons.injEq] at h
    obtain ⟨h1, h2, h3⟩ := h
    have hx := UInt8.toNat_lt x
    have hy := UInt8.toNat_lt y
    have e1 := Fin.mk.inj_iff.mp (nib ⟨x.toNat / 16, by omega⟩ ⟨y.toNat / 16, by omega⟩ h1)
    have e2 := Fin.mk.inj_iff.mp (nib ⟨x.toNat % 16, by omega⟩ ⟨y.toNat % 16, by omega⟩ h2)
    have : x = y := UInt8.toNat_inj.mp (by omega)
    rw [this, hex_injective xs ys h3]

/-! ## 2. One read: hash and parse from the same buffer, for every schedule -/

variable {α : Type}

/-- what "the digest shown and the object used come from one buffer" means for a KSR loader run
    `out = (result, effects)` over the schedule `content` started at tick `t0` -/
def KsrSingleRead (maxSize : Nat) (hash : Bytes → Bytes) (parse : Bytes → Res α) (validate : α → Res Unit)
    (path : String) (content : Nat → Bytes) (t0 : Nat)
    (out : Res (LoadedRequest α) × List FileEffect) : Prop :=
  -- exactly one open, at most one read, no write — whatever happens
  (out.2.filter FileEffect.isOpenRead).length = 1 ∧
  (out.2.filter FileEffect.isRead).length ≤ 1 ∧
  (out.2.filter FileEffect.isWrite).length = 0 ∧
  (out.2.filter FileEffect.isOpenWrite).length = 0 ∧
  -- the size gate: an over-size file is refused before any read, nothing is shown
  ((content (t0 + 1)).length > maxSize →
      out.1 = err .runtime ∧ readBuffers out.2 = [] ∧ shownDigests out.2 = []) ∧
  -- at most one digest is ever shown, and it is the hash of the one buffer read
  (∀ d ∈ shownDigests out.2, ∃ buf, readBuffers out.2 = [buf] ∧ d = hash buf) ∧
  -- a loaded request was parsed from, and carries the hash of, exactly that buffer
  (∀ request, out.1 = .ok request →
    ∃ buf, readBuffers out.2 = [buf] ∧ shownDigests out.2 = [hash buf] ∧
      parse buf = .ok request.body ∧ request.xmlHash = some (hash buf) ∧
      request.xmlFilename = path ∧ validate request.body = .ok () ∧
      buf = (content (t0 + 2)).take maxSize ∧ buf.length ≤ maxSize)

/-- **single_read (KSR).** For EVERY schedule of content changes, every hash, parser and validator. -/
theorem single_read (maxSize : Nat) (hash : Bytes → Bytes) (parse : Bytes → Res α)
    (validate : α → Res Unit) (raiseOriginal : Bool) (path : String) (content : Nat → Bytes) (t0 : Nat) :
    KsrSingleRead maxSize hash parse validate path content t0
      (loadKsr maxSize hash parse validate raiseOriginal path content t0) := by
  unfold KsrSingleRead
  by_cases hs : (content (t0 + 1)).length > maxSize
  · rw [loadKsr_gate maxSize hash parse validate raiseOriginal path content t0 hs]
    refine ⟨rfl, by simp [gateEffects, FileEffect.isRead], rfl, rfl, fun _ => ⟨rfl, rfl, rfl⟩, ?_, ?_⟩
    · intro d hd; simp [gateEffects, shownDigests] at hd
    · intro request h; simp [err] at h
  · have he := loadKsr_effects maxSize hash parse validate raiseOriginal path content t0 hs
    rw [he]
    refine ⟨rfl, Nat.le_of_eq rfl, rfl, rfl, fun h => absurd h hs, ?_, ?_⟩
    · intro d hd
      simp only [loadEffects, shownDigests, List.filterMap_cons, List.filterMap_nil, List.mem_singleton] at hd
      exact ⟨_, rfl, hd⟩
    · intro request h
      obtain ⟨h1, h2, h3, h4⟩ := loadKsr_ok maxSize hash parse validate raiseOriginal path content t0 hs request h
      exact ⟨_, rfl, rfl, h1, h2, h3, h4, rfl, by simp [List.length_take]; omega⟩

/-- the same for the SKR loader (a `Response` carries no stored hash) -/
def SkrSingleRead (maxSize : Nat) (hash : Bytes → Bytes) (parse : Bytes → Res α) (validate : α → Res Unit)
    (content : Nat → Bytes) (t0 : Nat) (out : Res α × List FileEffect) : Prop :=
  (out.2.filter FileEffect.isOpenRead).length = 1 ∧
  (out.2.filter FileEffect.isRead).length ≤ 1 ∧
  (out.2.filter FileEffect.isWrite).length = 0 ∧
  (out.2.filter FileEffect.isOpenWrite).length = 0 ∧
  ((content (t0 + 1)).length > maxSize →
      out.1 = err .runtime ∧ readBuffers out.2 = [] ∧ shownDigests out.2 = []) ∧
  (∀ d ∈ shownDigests out.2, ∃ buf, readBuffers out.2 = [buf] ∧ d = hash buf) ∧
  (∀ response, out.1 = .ok response →
    ∃ buf, readBuffers out.2 = [buf] ∧ shownDigests out.2 = [hash buf] ∧
      parse buf = .ok response ∧ validate response = .ok () ∧
      buf = (content (t0 + 2)).take maxSize ∧ buf.length ≤ maxSize)

/-- **single_read (SKR).** -/
theorem single_read_skr (maxSize : Nat) (hash : Bytes → Bytes) (parse : Bytes → Res α)
    (validate : α → Res Unit) (path : String) (content : Nat → Bytes) (t0 : Nat) :
    SkrSingleRead maxSize hash parse validate content t0
      (loadSkr maxSize hash parse validate path content t0) := by
  unfold SkrSingleRead
  by_cases hs : (content (t0 + 1)).length > maxSize
  · rw [loadSkr_gate maxSize hash parse validate path content t0 hs]
    refine ⟨rfl, by simp [gateEffects, FileEffect.isRead], rfl, rfl, fun _ => ⟨rfl, rfl, rfl⟩, ?_, ?_⟩
    · intro d hd; simp [gateEffects, shownDigests] at hd
    · intro response h; simp [err] at h
  · have he := loadSkr_effects maxSize hash parse validate path content t0 hs
    rw [he]
    refine ⟨rfl, Nat.le_of_eq rfl, rfl, rfl, fun h => absurd h hs, ?_, ?_⟩
    · intro d hd
      simp only [loadEffects, shownDigests, List.filterMap_cons, List.filterMap_nil, List.mem_singleton] at hd
      exact ⟨_, rfl, hd⟩
    · intro response h
      obtain ⟨h1, h2⟩ := loadSkr_ok maxSize hash parse validate path content t0 hs response h
      exact ⟨_, rfl, rfl, h1, h2, rfl, by simp [List.length_take]; omega⟩

/-- **Replacement between the fstat and the read, or after the read, changes nothing that is shown
    without changing what is used**: two schedules that serve the same bytes at the read tick and
    agree on the gate yield the same result and the same digest, whatever they serve at any other
    tick (before the open, at the open, after the read — e.g. when the operator compares). -/
theorem load_depends_only_on_read (maxSize : Nat) (hash : Bytes → Bytes) (parse : Bytes → Res α)
    (validate : α → Res Unit) (raiseOriginal : Bool) (path : String) (c1 c2 : Nat → Bytes) (t0 : Nat)
    (hread : c1 (t0 + 2) = c2 (t0 + 2))
    (hgate : ((c1 (t0 + 1)).length > maxSize ↔ (c2 (t0 + 1)).length > maxSize)) :
    (loadKsr maxSize hash parse validate raiseOriginal path c1 t0).1 =
      (loadKsr maxSize hash parse validate raiseOriginal path c2 t0).1 ∧
    shownDigests (loadKsr maxSize hash parse validate raiseOriginal path c1 t0).2 =
      shownDigests (loadKsr maxSize hash parse validate raiseOriginal path c2 t0).2 := by
  by_cases hs : (c1 (t0 + 1)).length > maxSize
  · rw [loadKsr_gate _ _ _ _ _ _ c1 _ hs, loadKsr_gate _ _ _ _ _ _ c2 _ (hgate.mp hs)]
    exact ⟨rfl, rfl⟩
  · have hs2 : ¬ (c2 (t0 + 1)).length > maxSize := fun h => hs (hgate.mpr h)
    refine ⟨?_, ?_⟩
    · simp only [loadKsr, hs, hs2, ↓reduceIte, hread]
      split
      · rfl
      · split <;> rfl
    · rw [loadKsr_effects _ _ _ _ _ _ c1 _ hs, loadKsr_effects _ _ _ _ _ _ c2 _ hs2]
      simp [loadEffects, shownDigests, hread]

/-- **What the operator confirms.** The `SHA-256 HEX` and `SHA-256 WORDS` lines `ksrsigner` prints
    before the prompt are the lower-case hex and the PGP words of the hash of the buffer the request
    was parsed from. -/
theorem display_of_loaded (maxSize : Nat) (hash : Bytes → Bytes) (parse : Bytes → Res α)
    (validate : α → Res Unit) (raiseOriginal : Bool) (path : String) (content : Nat → Bytes) (t0 : Nat)
    (request : LoadedRequest α)
    (h : (loadKsr maxSize hash parse validate raiseOriginal path content t0).1 = .ok request) :
    ∃ buf, parse buf = .ok request.body ∧
      readBuffers (loadKsr maxSize hash parse validate raiseOriginal path content t0).2 = [buf] ∧
      ksrsignerDisplay request.xmlFilename request.xmlHash =
        ["", "FILENAME:       " ++ path,
         "SHA-256 HEX:    " ++ String.ofList (hexlify (hash buf)),
         "SHA-256 WORDS:  " ++ String.ofList (joinSp ((pgpWordlist (hash buf)).map String.toList)), ""] := by
  obtain ⟨buf, h1, _, h3, h4, h5, _⟩ :=
    (single_read maxSize hash parse validate raiseOriginal path content t0).2.2.2.2.2.2 request h
  exact ⟨buf, h3, h1, by simp [ksrsignerDisplay, h4, h5, wordsLine]⟩

/-! ## 3. Outputs: the digest logged is the hash of the bytes written -/

/-- **hash_of_written.** With a file name: exactly one write, of exactly `xmlBytes`, to that path,
    and exactly one digest logged — the hash of those same bytes.  Without a file name nothing is
    written and no digest is logged.  (`output_skr_xml` and `output_trustanchor_xml` are this with
    their own log text.) -/
theorem hash_of_written (what : String) (hash : Bytes → Bytes) (xmlBytes : Bytes) :
    (∀ path, writtenBuffers (outputXml what hash xmlBytes (some path)) = [(path, xmlBytes)] ∧
      shownDigests (outputXml what hash xmlBytes (some path)) = [hash xmlBytes] ∧
      ((outputXml what hash xmlBytes (some path)).filter FileEffect.isOpenWrite).length = 1 ∧
      ((outputXml what hash xmlBytes (some path)).filter FileEffect.isRead).length = 0) ∧
    (writtenBuffers (outputXml what hash xmlBytes none) = [] ∧
      shownDigests (outputXml what hash xmlBytes none) = []) :=
  ⟨fun _ => ⟨rfl, rfl, rfl, rfl⟩, rfl, rfl⟩

theorem hash_of_written_skr_and_trustanchor (hash : Bytes → Bytes) (xmlBytes : Bytes) (path : String) :
    (∀ b ∈ writtenBuffers (outputSkrXml hash xmlBytes (some path)),
        shownDigests (outputSkrXml hash xmlBytes (some path)) = [hash b.2]) ∧
    (∀ b ∈ writtenBuffers (outputTrustanchorXml hash xmlBytes (some path)),
        shownDigests (outputTrustanchorXml hash xmlBytes (some path)) = [hash b.2]) := by
  constructor <;> intro b hb <;>
    simp only [outputSkrXml, outputTrustanchorXml, outputXml, writtenBuffers, List.filterMap_cons,
      List.filterMap_nil, List.mem_singleton] at hb <;> subst hb <;> rfl

/-! ## 4. The configuration file: two reads through one descriptor -/

/-- what `get_config` does: one open, TWO reads; the digest logged is of the first read, the
    configuration is parsed from the second -/
theorem getConfig_effects (hash : Bytes → Bytes) (parse : Bytes → Res α) (dflt : α) (path : String)
    (content : Nat → Bytes) (t0 : Nat) :
    let out := getConfig hash parse dflt (some path) content t0
    (out.2.filter FileEffect.isOpenRead).length = 1 ∧
    readBuffers out.2 = [content (t0 + 1), content (t0 + 2)] ∧
    shownDigests out.2 = [hash (content (t0 + 1))] ∧
    out.1 = parse (content (t0 + 2)) :=
  ⟨rfl, rfl, rfl, rfl⟩

/-- GUARANTEED: if the bytes behind the open descriptor do not change between the two reads (no
    in-place modification; a rename-style replacement does not affect an open descriptor — that
    operating-system fact is outside the model), digest and configuration come from one buffer. -/
theorem getConfig_agree_if_unmodified (hash : Bytes → Bytes) (parse : Bytes → Res α) (dflt : α)
    (path : String) (content : Nat → Bytes) (t0 : Nat) (h : content (t0 + 1) = content (t0 + 2)) :
    ∃ buf, shownDigests (getConfig hash parse dflt (some path) content t0).2 = [hash buf] ∧
      (getConfig hash parse dflt (some path) content t0).1 = parse buf :=
  ⟨content (t0 + 1), rfl, by rw [h]; rfl⟩

/-- NOT GUARANTEED: for schedules that modify the file between the two reads the logged digest is
    of bytes that were not parsed (witness: identity hash and parser, content `[t]` at tick `t`).
    The property text claims robustness against replacement for KSR and SKR only. -/
theorem getConfig_not_schedule_robust :
    ∃ (content : Nat → Bytes) (buf : Bytes),
      (getConfig (fun b => b) (fun b => (.ok b : Res Bytes)) [] (some "cfg") content 0).1 = .ok buf ∧
      shownDigests (getConfig (fun b => b) (fun b => (.ok b : Res Bytes)) [] (some "cfg") content 0).2 ≠ [buf] :=
  ⟨fun t => [UInt8.ofNat t], [2], rfl, by decide⟩

/-! ## 5. The bundle table -/

/-- **table_rows.** One header line, then one line per bundle in order; line `i + 1` is the
    rendering of the row whose number is `i + 1`, whose times are the formatted inception and
    expiration of bundle `i`, and whose columns are exactly the specification columns of bundle `i`. -/
theorem table_rows (fmtTime : Int → String) (bundles : List Bundle) :
    (formatBundlesForHumans fmtTime bundles).length = bundles.length + 1 ∧
    (formatBundlesForHumans fmtTime bundles)[0]? = some headerLine ∧
    ∀ i b, bundles[i]? = some b →
      ∃ row : Row, (formatBundlesForHumans fmtTime bundles)[i + 1]? = some row.render ∧
        (tableRows fmtTime bundles)[i]? = some row ∧
        row.num = toString (i + 1) ∧
        row.inception = fmtTime b.inception ∧ row.expiration = fmtTime b.expiration ∧
        row.zskTags = zskColumnSpec b ∧ row.kskEntries = kskColumnSpec b := by
  refine ⟨by simp [formatBundlesForHumans, tableRows, tableRowsFrom_length], rfl, ?_⟩
  intro i b h
  have := tableRowsFrom_getElem fmtTime bundles 1 i b h
  refine ⟨_, ?_, this, ?_, rfl, rfl, rfl, rfl⟩
  · simp [formatBundlesForHumans, tableRows, this]
  · simp [Nat.add_comm]

/-- **table_columns.** Every key's tag appears in exactly the column its flags dictate (SEP clear →
    ZSK column, SEP set → KSK column with label and `[R]S|P` usage), and nothing else appears: each
    entry of either column comes from a key of the bundle with the matching flag, and the two
    columns together have exactly as many entries as the bundle has keys. -/
theorem table_columns (b : Bundle) :
    (∀ k ∈ b.keys, isSepKey k = false → tagStr k ∈ zskColumnSpec b) ∧
    (∀ k ∈ b.keys, isSepKey k = true → kskEntry b k ∈ kskColumnSpec b) ∧
    (∀ s ∈ zskColumnSpec b, ∃ k ∈ b.keys, isSepKey k = false ∧ s = tagStr k) ∧
    (∀ e ∈ kskColumnSpec b, ∃ k ∈ b.keys, isSepKey k = true ∧ e = kskEntry b k) ∧
    (zskColumnSpec b).length + (kskColumnSpec b).length = b.keys.length := by
  refine ⟨?_, ?_, ?_, ?_, ?_⟩
  · intro k hk hs
    exact List.mem_map.mpr ⟨k, List.mem_filter.mpr ⟨hk, by simp [hs]⟩, rfl⟩
  · intro k hk hs
    exact List.mem_map.mpr ⟨k, List.mem_filter.mpr ⟨hk, hs⟩, rfl⟩
  · intro s hs
    obtain ⟨k, hk, rfl⟩ := List.mem_map.mp hs
    obtain ⟨h1, h2⟩ := List.mem_filter.mp hk
    exact ⟨k, h1, by simpa using h2, rfl⟩
  · intro e he
    obtain ⟨k, hk, rfl⟩ := List.mem_map.mp he
    obtain ⟨h1, h2⟩ := List.mem_filter.mp hk
    exact ⟨k, h1, h2, rfl⟩
  · simp only [zskColumnSpec, kskColumnSpec, List.length_map]
    induction b.keys with
    | nil => rfl
    | cons k r ih =>
      simp only [List.filter_cons, List.length_cons]
      cases isSepKey k <;> simp <;> omega

/-! ## Non-vacuity -/

/-- the published example digest `E582 94F2 E9A2 2748 6E8B 061B 31CC 528F D7FA 3F19` -/
example : pgpWordlist [0xE5, 0x82, 0x94, 0xF2, 0xE9, 0xA2, 0x27, 0x48, 0x6E, 0x8B, 0x06, 0x1B, 0x31,
      0xCC, 0x52, 0x8F, 0xD7, 0xFA, 0x3F, 0x19] =
    ["topmost", "Istanbul", "Pluto", "vagabond", "treadmill", "Pacific", "brackish", "dictator",
     "goldfish", "Medusa", "afflict", "bravado", "chatter", "revolver", "Dupont", "midsummer",
     "stopwatch", "whimsical", "cowbell", "bottomless"] := by decide +kernel

example : unwords ["topmost", "Istanbul", "Pluto"] = some [0xE5, 0x82, 0x94] := by decide +kernel
/-- a rendering with two neighbouring words exchanged does not decode -/
example : unwords ["Istanbul", "topmost"] = none := by decide +kernel
example : String.ofList (hexlify [0xE5, 0x82, 0x0A]) = "e5820a" := by decide +kernel

/-- a schedule that serves different bytes at every tick: the run that passes the gate shows the
    digest of, stores the hash of, and parses, the bytes of tick 2 (identity hash and parser) -/
example :
    let content : Nat → Bytes := fun t => [UInt8.ofNat t, 7]
    let out := loadKsr (α := Bytes) 10 (fun b => b) (fun b => .ok b) (fun _ => .ok ()) true "ksr.xml" content 0
    (out.1.toOption.map (·.body)) = some [2, 7] ∧ (out.1.toOption.map (·.xmlHash)) = some (some [2, 7]) ∧
    shownDigests out.2 = [[2, 7]] ∧ readBuffers out.2 = [[2, 7]] := by decide
/-- the gate: content grown past the limit at the `fstat` tick -/
example :
    let content : Nat → Bytes := fun t => if t = 1 then List.replicate 11 0 else [1]
    readBuffers (loadKsr (α := Bytes) 10 (fun b => b) (fun b => .ok b) (fun _ => .ok ()) true "k" content 0).2 = [] := by
  decide

example : (KskmGen.maxKsrSize, KskmGen.maxSkrSize) = (1048576, 1048576) := by decide

/-- a bundle with one ZSK (flags 256), one signing KSK (257) and one revoked, non-signing KSK (385) -/
def exBundle : Bundle :=
  { id := "b", inception := 0, expiration := 1,
    keys := [{ keyIdentifier := "Kzsk", keyTag := 55138, ttl := 0, flags := 256, protocol := 3, algorithm := 8, publicKey := "" },
             { keyIdentifier := "Kjqmt7v", keyTag := 19036, ttl := 0, flags := 257, protocol := 3, algorithm := 8, publicKey := "" },
             { keyIdentifier := "Kold", keyTag := 19164, ttl := 0, flags := 385, protocol := 3, algorithm := 8, publicKey := "" }],
    signatures := [{ keyIdentifier := "Kjqmt7v", ttl := 0, algorithm := 8, labels := 0, originalTtl := 0,
                     expiration := 1, inception := 0, keyTag := 19036, signersName := ".", signatureData := "" }] }

example : zskColumnSpec exBundle = ["55138"] ∧ kskColumnSpec exBundle = ["19036(Kjqmt7v)/S", "19164(Kold)/RP"] := by
  decide +kernel

end Kskm.C17
