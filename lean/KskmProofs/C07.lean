/-
  C07 — Proof of possession: every ZSK of an accepted KSR signed the whole key set.

  The signature verifier is a PARAMETER (`verify : Verifier`): every theorem below holds for every
  function from (algorithm, key text, message octets, signature octets) to a verdict.  What the
  theorems establish is what the tool adds on top of the primitive: *which* key is asked to verify
  *which* octets — the RFC 4034 §3.1.8.1 to-be-signed octets over the bundle's COMPLETE key set in
  canonical order with the signature's own stated fields — that every signature must name a key of
  the bundle, that every key must have such a signature, and that none of this depends on the order
  of keys and signatures in the document.

  Tamper rejection ("changing any bit of any public key, any signed field or any signature leads to
  rejection") splits into a part that is proved here and a part that is an ASSUMPTION:
    * proved (`tbs_injective`, `rr_frames_parse_uniquely`, `rdata_injective`): the to-be-signed octets
      determine every signed field and the multiset of RDATAs, hence every bit of every key —
      a tampered bundle asks the verifier about DIFFERENT octets (or a different key);
    * assumed, never a theorem: that the verifier then answers "invalid", i.e. existential
      unforgeability of RSA PKCS#1 v1.5 / ECDSA and collision resistance of SHA-2.  A changed
      signature bit is the verifier's own behaviour.  The correspondence run exercises exactly this
      with the real `cryptography` verifier on every single-bit tampering it generates.
-/
import Kskm.KsrPolicy
import KskmProofs.Lemmas.Res
import KskmProofs.Lemmas.C07
import KskmProofs.C14
set_option linter.unusedSimpArgs false
set_option linter.unusedVariables false
namespace Kskm.C07
open Kskm.C07L

/-! ## Vocabulary -/

/-- `sig` is a valid proof by `key` for bundle `b`: `key` is a key of the bundle carrying the
    signature's identifier, and the verifier accepts the signature octets under `key` over the
    to-be-signed octets built from the signature's own fields and the WHOLE key set `b.keys`. -/
def SigValidFor (verify : Verifier) (b : Bundle) (sig : Signature) (key : Key) : Prop :=
  key ∈ b.keys ∧ key.keyIdentifier = sig.keyIdentifier ∧
  ∃ raw sigBytes, makeRawRrsig sig b.keys = .ok raw ∧
    Base64.decode sig.signatureData = some sigBytes ∧
    verify key.algorithm key.publicKey raw sigBytes = .valid

/-- the key text can be loaded as a public key of its algorithm family -/
def KeyLoadable (key : Key) : Prop := publicKeyFromKey key = .ok ()

/-- An honestly formed bundle: at least one key, identifiers unique, every signature a valid proof
    by a (loadable) key of the bundle, every key accompanied by a signature carrying its identifier. -/
structure Honest (verify : Verifier) (b : Bundle) : Prop where
  keys_ne : b.keys ≠ []
  ids_nodup : (b.keys.map (·.keyIdentifier)).Nodup
  sigs_valid : ∀ sig ∈ b.signatures, ∃ key, SigValidFor verify b sig key ∧ KeyLoadable key
  all_signed : ∀ k ∈ b.keys, ∃ sig ∈ b.signatures, sig.keyIdentifier = k.keyIdentifier

/-! ## `validate_signatures`, exactly -/

theorem validateSignatures_ok_iff (verify : Verifier) (b : Bundle) :
    validateSignatures verify b = .ok () ↔
      b.keys ≠ [] ∧ b.signatures ≠ [] ∧ (b.keys.map (·.keyIdentifier)).Nodup ∧
      ∀ sig ∈ b.signatures, ∃ key, SigValidFor verify b sig key ∧ KeyLoadable key := by
  rw [validateSignatures_eq]
  by_cases h1 : b.keys = []
  · simp [h1]
  · have h1' : b.keys.isEmpty = false := by simpa using h1
    by_cases h2 : b.signatures = []
    · simp [h1', h2]
    · have h2' : b.signatures.isEmpty = false := by simpa using h2
      by_cases h3 : hasDupIds b.keys = true
      · have : ¬ (b.keys.map (·.keyIdentifier)).Nodup := by
          rw [← hasDupIds_eq_false_iff]; simp [h3]
        simp [h1', h2', h3, this]
      · have h3' : hasDupIds b.keys = false := by simpa using h3
        have hn := (hasDupIds_eq_false_iff b.keys).mp h3'
        simp only [h1', h2', h3', Bool.false_eq_true, ↓reduceIte, forEach_ok_iff, sigStep_ok_iff, ne_eq,
          h1, h2, not_false_eq_true, hn, true_and]
        apply forall_congr'; intro sig; apply imp_congr_right; intro _
        unfold SigValidFor KeyLoadable
        constructor
        · rintro ⟨key, hl, hp, raw, sb, hr, hd, hv⟩
          obtain ⟨hm, hid⟩ := lookupKey_some hl
          exact ⟨key, ⟨hm, hid, raw, sb, hr, hd, hv⟩, hp⟩
        · rintro ⟨key, ⟨hm, hid, raw, sb, hr, hd, hv⟩, hp⟩
          refine ⟨key, ?_, hp, raw, sb, hr, hd, hv⟩
          rw [← hid]; exact lookupKey_of_mem hn hm

/-! ## Soundness -/

/-- **C07, soundness of `validate_signatures`.** If a bundle passes: keys and signatures are
    non-empty, key identifiers are unique, and every signature names a key of the bundle under which
    the verifier accepts it over the to-be-signed octets of the WHOLE key set with the signature's
    own stated fields. -/
theorem C07_sound (verify : Verifier) (b : Bundle) (h : validateSignatures verify b = .ok ()) :
    b.keys ≠ [] ∧ b.signatures ≠ [] ∧ (b.keys.map (·.keyIdentifier)).Nodup ∧
    ∀ sig ∈ b.signatures, ∃ key ∈ b.keys, key.keyIdentifier = sig.keyIdentifier ∧
      ∃ raw sigBytes, makeRawRrsig sig b.keys = .ok raw ∧
        Base64.decode sig.signatureData = some sigBytes ∧
        verify key.algorithm key.publicKey raw sigBytes = .valid := by
  obtain ⟨h1, h2, h3, h4⟩ := (validateSignatures_ok_iff verify b).mp h
  refine ⟨h1, h2, h3, ?_⟩
  intro sig hs
  obtain ⟨key, ⟨hm, hid, hrest⟩, _⟩ := h4 sig hs
  exact ⟨key, hm, hid, hrest⟩

/-- **C07, soundness of the PoP rule.** With signature validation enabled, an accepted request has,
    in every bundle, for EACH KEY a signature carrying that key's identifier which the verifier
    accepts under THAT key over the to-be-signed octets of the bundle's complete key set — and every
    signature names a key of the bundle. -/
theorem C07_sound_pop (verify : Verifier) (req : Request) (pol : RequestPolicy)
    (hf : pol.validateSignatures = true) (h : checkProofOfPossession verify req pol = .ok ()) :
    ∀ b ∈ req.bundles,
      (∀ k ∈ b.keys, ∃ sig ∈ b.signatures, SigValidFor verify b sig k) ∧
      (∀ sig ∈ b.signatures, ∃ k ∈ b.keys, k.keyIdentifier = sig.keyIdentifier) := by
  rw [checkProofOfPossession_eq] at h
  simp only [hf, Bool.not_true, Bool.false_eq_true, ↓reduceIte, forEach_ok_iff, popStep_ok_iff] at h
  intro b hb
  obtain ⟨hv, hall⟩ := h b hb
  obtain ⟨_, _, hn, hs⟩ := (validateSignatures_ok_iff verify b).mp hv
  constructor
  · intro k hk
    obtain ⟨sig, hsig, hid⟩ := hall k hk
    obtain ⟨key, hval, _⟩ := hs sig hsig
    have : key = k := eq_of_same_id hn hval.1 hk (hval.2.1.trans hid)
    exact ⟨sig, hsig, this ▸ hval⟩
  · intro sig hsig
    obtain ⟨key, hval, _⟩ := hs sig hsig
    exact ⟨key, hval.1, hval.2.1⟩

/-- the same through the whole of `validate_request` -/
theorem C07_sound_validateRequest (verify : Verifier) (now : Int) (req : Request) (pol : RequestPolicy)
    (hf : pol.validateSignatures = true) (h : validateRequest verify now req pol = .ok ()) :
    ∀ b ∈ req.bundles,
      (∀ k ∈ b.keys, ∃ sig ∈ b.signatures, SigValidFor verify b sig k) ∧
      (∀ sig ∈ b.signatures, ∃ k ∈ b.keys, k.keyIdentifier = sig.keyIdentifier) := by
  apply C07_sound_pop verify req pol hf
  unfold validateRequest verifyBundles at h
  simp only [seq_ok_iff] at h
  exact h.2.1.2.2.1

/-- The octets that are verified are the RFC 4034 §3.1.8.1 to-be-signed octets: the signature's own
    stated fields, then every key of the set as an RR in canonical (§6.3) order — whatever canonical
    arrangement `l` of the RDATAs an independent implementation picks. -/
theorem tbs_is_rfc4034 (sig : Signature) (keys : List Key) (raw : Bytes)
    (h : makeRawRrsig sig keys = .ok raw) :
    ∃ rdatas, keys.mapM keyToRdata = .ok rdatas ∧ rdatas.length = keys.length ∧
      ∀ l, C14.CanonicalOrder l rdatas →
        raw = C14.rfc4034TBS sig.typeCovered sig.algorithm sig.labels.toNat sig.originalTtl.toNat
          (tsSeconds sig.expiration).toNat (tsSeconds sig.inception).toNat sig.keyTag.toNat l := by
  unfold makeRawRrsig at h
  simp only [bind, Except.bind] at h
  split at h
  · simp [err] at h
  · simp only [pure, Except.pure] at h
    cases hd : dn2wire sig.signersName with
    | error e => simp [hd] at h
    | ok w =>
      cases hm : keys.mapM keyToRdata with
      | error e => simp [hd, hm] at h
      | ok rdatas =>
        simp only [hd, hm] at h
        split at h
        · simp [err] at h
        · simp only [Except.ok.injEq] at h
          refine ⟨rdatas, rfl, ?_, ?_⟩
          · have := (mapM_ok_iff keyToRdata [] keys rdatas).mp hm
            rw [this.2]; simp
          · intro l hl
            rw [← h]
            exact C14.makeRawRrsig_eq_rfc _ _ _ _ _ _ _ rdatas l hl

/-! ## Completeness and order independence -/

/-- one bundle passes the PoP rule's loop body exactly when it is honestly formed -/
theorem popStep_ok_iff_honest (verify : Verifier) (b : Bundle) :
    popStep verify b = .ok () ↔ Honest verify b := by
  rw [popStep_ok_iff, validateSignatures_ok_iff]
  constructor
  · rintro ⟨⟨h1, _, h3, h4⟩, h5⟩; exact ⟨h1, h3, h4, h5⟩
  · rintro ⟨h1, h3, h4, h5⟩
    refine ⟨⟨h1, ?_, h3, h4⟩, h5⟩
    intro hs
    obtain ⟨k, hk⟩ := List.exists_mem_of_ne_nil _ h1
    obtain ⟨s, hsm, _⟩ := h5 k hk
    rw [hs] at hsm; simp at hsm

/-- **The PoP rule accepts exactly the honestly formed bundles.** -/
theorem C07_iff (verify : Verifier) (req : Request) (pol : RequestPolicy)
    (hf : pol.validateSignatures = true) :
    checkProofOfPossession verify req pol = .ok () ↔ ∀ b ∈ req.bundles, Honest verify b := by
  rw [checkProofOfPossession_eq]
  simp only [hf, Bool.not_true, Bool.false_eq_true, ↓reduceIte, forEach_ok_iff, popStep_ok_iff_honest]

/-- **C07, completeness.** If in every bundle every signature names a key of the bundle and verifies
    over the whole key set, the texts decode, identifiers are unique and every key has a signature,
    the request passes the PoP rule. -/
theorem C07_complete (verify : Verifier) (req : Request) (pol : RequestPolicy)
    (h : ∀ b ∈ req.bundles, Honest verify b) : checkProofOfPossession verify req pol = .ok () := by
  cases hf : pol.validateSignatures
  · simp [checkProofOfPossession, hf]
  · exact (C07_iff verify req pol hf).mpr h

/-- the to-be-signed octets do not depend on the order in which the key set is visited -/
theorem makeRawRrsig_perm (sig : Signature) (k₁ k₂ : List Key) (hp : k₁.Perm k₂) (raw : Bytes)
    (h : makeRawRrsig sig k₁ = .ok raw) : makeRawRrsig sig k₂ = .ok raw := by
  unfold makeRawRrsig at h ⊢
  simp only [bind, Except.bind] at h ⊢
  split at h
  · simp [err] at h
  · rename_i hrange
    simp only [hrange, pure, Except.pure, Bool.false_eq_true, ↓reduceIte] at h ⊢
    cases hd : dn2wire sig.signersName with
    | error e => simp [hd] at h
    | ok w =>
      cases hm : k₁.mapM keyToRdata with
      | error e => simp [hd, hm] at h
      | ok rd₁ =>
        obtain ⟨hall, hrd⟩ := (mapM_ok_iff keyToRdata [] k₁ rd₁).mp hm
        have hm₂ : k₂.mapM keyToRdata = .ok (k₂.map (okOr keyToRdata [])) :=
          (mapM_ok_iff keyToRdata [] k₂ _).mpr ⟨fun a ha => hall a (hp.mem_iff.mpr ha), rfl⟩
        have hperm : rd₁.Perm (k₂.map (okOr keyToRdata [])) := by rw [hrd]; exact hp.map _
        simp only [hd, hm, hm₂] at h ⊢
        split at h
        · simp [err] at h
        · rename_i hlen
          have hlen₂ : ((k₂.map (okOr keyToRdata [])).any fun r => decide (65536 ≤ r.length)) = false := by
            have hl : (rd₁.any fun r => decide (65536 ≤ r.length)) = false := by simpa using hlen
            rw [List.any_eq_false] at hl ⊢
            intro x hx; exact hl x (hperm.mem_iff.mpr hx)
          simp only [hlen₂, Bool.false_eq_true, ↓reduceIte]
          rw [← C14.rawRrsig_perm _ _ _ _ _ _ _ _ _ hperm]
          exact h

theorem makeRawRrsig_perm_iff (sig : Signature) (k₁ k₂ : List Key) (hp : k₁.Perm k₂) (raw : Bytes) :
    makeRawRrsig sig k₁ = .ok raw ↔ makeRawRrsig sig k₂ = .ok raw :=
  ⟨makeRawRrsig_perm sig k₁ k₂ hp raw, makeRawRrsig_perm sig k₂ k₁ hp.symm raw⟩

/-- honesty of a bundle depends only on its *sets* of keys and signatures -/
theorem honest_perm (verify : Verifier) (b b' : Bundle) (hk : b.keys.Perm b'.keys)
    (hs : b.signatures.Perm b'.signatures) (h : Honest verify b) : Honest verify b' := by
  obtain ⟨h1, h2, h3, h4⟩ := h
  refine ⟨?_, ?_, ?_, ?_⟩
  · intro he; rw [he] at hk; exact h1 (List.Perm.eq_nil hk)
  · exact ((hk.map _).nodup_iff).mp h2
  · intro sig hsig
    obtain ⟨key, ⟨hm, hid, raw, sb, hr, hd, hv⟩, hl⟩ := h3 sig (hs.mem_iff.mpr hsig)
    exact ⟨key, ⟨hk.mem_iff.mp hm, hid, raw, sb, makeRawRrsig_perm sig _ _ hk raw hr, hd, hv⟩, hl⟩
  · intro k hkm
    obtain ⟨sig, hsig, hid⟩ := h4 k (hk.mem_iff.mpr hkm)
    exact ⟨sig, hs.mem_iff.mp hsig, hid⟩

/-- **C07, order independence.** Re-ordering the keys and the signatures inside every bundle (any
    permutation: document order, Python set iteration order) never changes the verdict of the PoP
    rule — an honest request is accepted in every ordering, a rejected one in none. -/
theorem C07_order_invariant (verify : Verifier) (req req' : Request) (pol : RequestPolicy)
    (hl : req.bundles.length = req'.bundles.length)
    (hb : ∀ (i : Nat) (b b' : Bundle), req.bundles[i]? = some b → req'.bundles[i]? = some b' →
      b.keys.Perm b'.keys ∧ b.signatures.Perm b'.signatures) :
    checkProofOfPossession verify req pol = .ok () ↔ checkProofOfPossession verify req' pol = .ok () := by
  cases hf : pol.validateSignatures
  · simp [checkProofOfPossession, hf]
  · rw [C07_iff verify req pol hf, C07_iff verify req' pol hf]
    constructor
    · intro h b' hb'
      obtain ⟨i, hi, rfl⟩ := List.mem_iff_getElem.mp hb'
      have hi' : i < req.bundles.length := by omega
      obtain ⟨p1, p2⟩ := hb i req.bundles[i] req'.bundles[i] (List.getElem?_eq_getElem hi')
        (List.getElem?_eq_getElem hi)
      exact honest_perm verify _ _ p1 p2 (h _ (List.getElem_mem hi'))
    · intro h b hbm
      obtain ⟨i, hi, rfl⟩ := List.mem_iff_getElem.mp hbm
      have hi' : i < req'.bundles.length := by omega
      obtain ⟨p1, p2⟩ := hb i req.bundles[i] req'.bundles[i] (List.getElem?_eq_getElem hi)
        (List.getElem?_eq_getElem hi')
      exact honest_perm verify _ _ p1.symm p2.symm (h _ (List.getElem_mem hi'))

/-- honest bundles are accepted whatever the order of keys and signatures -/
theorem C07_complete_any_order (verify : Verifier) (req req' : Request) (pol : RequestPolicy)
    (h : ∀ b ∈ req.bundles, Honest verify b)
    (hl : req.bundles.length = req'.bundles.length)
    (hb : ∀ (i : Nat) (b b' : Bundle), req.bundles[i]? = some b → req'.bundles[i]? = some b' →
      b.keys.Perm b'.keys ∧ b.signatures.Perm b'.signatures) :
    checkProofOfPossession verify req' pol = .ok () :=
  (C07_order_invariant verify req req' pol hl hb).mp (C07_complete verify req pol h)

/-! ## Omission, misattribution, invalid signatures -/

/-- **Removing one signature rejects.** A bundle containing a key for which no signature carries its
    identifier is never accepted … -/
theorem remove_one_signature_rejects (verify : Verifier) (req : Request) (pol : RequestPolicy)
    (hf : pol.validateSignatures = true) (b : Bundle) (hb : b ∈ req.bundles) (k : Key) (hk : k ∈ b.keys)
    (hno : ∀ sig ∈ b.signatures, sig.keyIdentifier ≠ k.keyIdentifier) :
    checkProofOfPossession verify req pol ≠ .ok () := by
  intro h
  obtain ⟨sig, hs, hid⟩ := ((C07_iff verify req pol hf).mp h b hb).all_signed k hk
  exact hno sig hs hid

/-- … and when the signatures that *are* present are all fine, the rejection is precisely the
    KSR-BUNDLE-POP policy violation. -/
theorem remove_one_signature_is_pop_violation (verify : Verifier) (req : Request) (pol : RequestPolicy)
    (hf : pol.validateSignatures = true)
    (hval : ∀ b ∈ req.bundles, validateSignatures verify b = .ok ())
    (b : Bundle) (hb : b ∈ req.bundles) (k : Key) (hk : k ∈ b.keys)
    (hno : ∀ sig ∈ b.signatures, sig.keyIdentifier ≠ k.keyIdentifier) :
    checkProofOfPossession verify req pol = violation .bundlePop := by
  rw [checkProofOfPossession_eq]
  simp only [hf, Bool.not_true, Bool.false_eq_true, ↓reduceIte]
  apply forEach_violation
  · intro x hx
    rcases popStep_cases verify x with h | h | ⟨e, he, _⟩
    · exact Or.inl h
    · exact Or.inr h
    · rw [hval x hx] at he; cases he
  · refine ⟨b, hb, ?_⟩
    intro h
    obtain ⟨sig, hs, hid⟩ := ((popStep_ok_iff verify b).mp h).2 k hk
    exact hno sig hs hid

/-- **A misattributed signature rejects**: a signature naming no key of its bundle is refused by
    `validate_signatures`, hence by the PoP rule and by `validate_request`. -/
theorem misattributed_signature_rejects (verify : Verifier) (b : Bundle) (sig : Signature)
    (hs : sig ∈ b.signatures) (hno : ∀ k ∈ b.keys, k.keyIdentifier ≠ sig.keyIdentifier) :
    validateSignatures verify b ≠ .ok () := by
  intro h
  obtain ⟨_, _, _, h4⟩ := C07_sound verify b h
  obtain ⟨k, hk, hid, _⟩ := h4 sig hs
  exact hno k hk hid

theorem misattributed_signature_rejects_request (verify : Verifier) (req : Request) (pol : RequestPolicy)
    (hf : pol.validateSignatures = true) (b : Bundle) (hb : b ∈ req.bundles) (sig : Signature)
    (hs : sig ∈ b.signatures) (hno : ∀ k ∈ b.keys, k.keyIdentifier ≠ sig.keyIdentifier) :
    checkProofOfPossession verify req pol ≠ .ok () := by
  intro h
  obtain ⟨k, hk, hid⟩ := (C07_sound_pop verify req pol hf h b hb).2 sig hs
  exact hno k hk hid

/-- a signature that verifies only under *another* key of the bundle than the one it names does not
    help: acceptance requires validity under the named key -/
theorem signature_must_verify_under_named_key (verify : Verifier) (b : Bundle) (sig : Signature)
    (hs : sig ∈ b.signatures) (k : Key) (hk : k ∈ b.keys) (hid : k.keyIdentifier = sig.keyIdentifier)
    (hbad : ∀ raw sb, makeRawRrsig sig b.keys = .ok raw → Base64.decode sig.signatureData = some sb →
      verify k.algorithm k.publicKey raw sb ≠ .valid) :
    validateSignatures verify b ≠ .ok () := by
  intro h
  obtain ⟨_, _, hn, h4⟩ := C07_sound verify b h
  obtain ⟨k', hk', hid', raw, sb, hr, hd, hv⟩ := h4 sig hs
  have : k' = k := eq_of_same_id hn hk' hk (hid'.trans hid.symm)
  subst this
  exact hbad raw sb hr hd hv

/-- **An invalid signature is a KSR-BUNDLE-POP violation**: when `validate_signatures` ends in
    `InvalidSignature` for a bundle and every earlier bundle passes, the request is rejected with
    exactly that policy violation. -/
theorem invalid_signature_is_pop_violation (verify : Verifier) (req : Request) (pol : RequestPolicy)
    (hf : pol.validateSignatures = true) (pre post : List Bundle) (b : Bundle)
    (hreq : req.bundles = pre ++ b :: post) (hpre : ∀ p ∈ pre, Honest verify p)
    (hinv : validateSignatures verify b = err .invalidSignature) :
    checkProofOfPossession verify req pol = violation .bundlePop := by
  rw [checkProofOfPossession_eq]
  simp only [hf, Bool.not_true, Bool.false_eq_true, ↓reduceIte, hreq]
  have hpre' : ∀ p ∈ pre, popStep verify p = .ok () :=
    fun p hp => (popStep_ok_iff_honest verify p).mpr (hpre p hp)
  clear hpre hreq
  induction pre with
  | nil =>
    simp only [List.nil_append, forEach]
    have : popStep verify b = violation .bundlePop := by
      unfold popStep; rw [hinv]; simp [err, bind, Except.bind, violation]
    rw [this]; rfl
  | cons p r ih =>
    simp only [List.cons_append, forEach, hpre' p (by simp), bind, Except.bind]
    exact ih (fun x hx => hpre' x (List.mem_cons_of_mem _ hx))

/-- when `validate_signatures` answers `InvalidSignature`: the keys are fine and the first signature
    that does not pass is one the verifier calls invalid -/
theorem validateSignatures_invalid (verify : Verifier) (b : Bundle) (pre post : List Signature)
    (s : Signature) (hk : b.keys ≠ []) (hn : (b.keys.map (·.keyIdentifier)).Nodup)
    (hsig : b.signatures = pre ++ s :: post)
    (hpre : ∀ x ∈ pre, ∃ key, SigValidFor verify b x key ∧ KeyLoadable key)
    (key : Key) (hkey : key ∈ b.keys) (hid : key.keyIdentifier = s.keyIdentifier)
    (hload : KeyLoadable key) (raw sb : Bytes) (hraw : makeRawRrsig s b.keys = .ok raw)
    (hdec : Base64.decode s.signatureData = some sb)
    (hv : verify key.algorithm key.publicKey raw sb = .invalid) :
    validateSignatures verify b = err .invalidSignature := by
  rw [validateSignatures_eq]
  have h1 : b.keys.isEmpty = false := by simpa using hk
  have h2 : b.signatures.isEmpty = false := by rw [hsig]; simp
  have h3 : hasDupIds b.keys = false := (hasDupIds_eq_false_iff _).mpr hn
  simp only [h1, h2, h3, Bool.false_eq_true, ↓reduceIte]
  rw [hsig]
  have hpre' : ∀ x ∈ pre, sigStep verify b x = .ok () := by
    intro x hx
    obtain ⟨k, ⟨hm, hi, r, sb', hr, hd, hvv⟩, hl⟩ := hpre x hx
    rw [sigStep_ok_iff]
    exact ⟨k, by rw [← hi]; exact lookupKey_of_mem hn hm, hl, r, sb', hr, hd, hvv⟩
  have hs : sigStep verify b s = err .invalidSignature := by
    unfold sigStep
    have hl : lookupKey b.keys s.keyIdentifier = some key := by rw [← hid]; exact lookupKey_of_mem hn hkey
    unfold KeyLoadable at hload
    simp [hl, hload, hdec, hraw, hv, bind, Except.bind]
  clear hpre hsig h2
  induction pre with
  | nil => simp only [List.nil_append, forEach, hs]; rfl
  | cons p r ih =>
    simp only [List.cons_append, forEach, hpre' p (by simp), bind, Except.bind]
    exact ih (fun x hx => hpre' x (List.mem_cons_of_mem _ hx))

/-! ## The to-be-signed octets determine what was signed -/

/-- **Length-prefixed RRs parse uniquely.** Two lists of RDATAs (each shorter than 2¹⁶ octets) whose
    RR framings concatenate to the same octets are the same list. -/
theorem rr_frames_parse_uniquely (tc ttl : Nat) : ∀ (l₁ l₂ : List Bytes),
    (∀ r ∈ l₁, r.length < 65536) → (∀ r ∈ l₂, r.length < 65536) →
    (l₁.map (rrWire [0] tc ttl)).flatten = (l₂.map (rrWire [0] tc ttl)).flatten → l₁ = l₂
  | [], [], _, _, _ => rfl
  | [], r :: l, _, _, h => by
    have := congrArg List.length h
    simp [rrWire, be16, be32] at this
  | r :: l, [], _, _, h => by
    have := congrArg List.length h
    simp [rrWire, be16, be32] at this
  | r₁ :: l₁, r₂ :: l₂, h₁, h₂, h => by
    simp only [List.map_cons, List.flatten_cons, rrWire, List.append_assoc] at h
    have h := List.append_cancel_left h
    have h := List.append_cancel_left h
    have h := List.append_cancel_left h
    have h := List.append_cancel_left h
    obtain ⟨hlen, hrest⟩ := List.append_inj h (by simp [be16])
    have hl : r₁.length = r₂.length :=
      be16_inj (h₁ r₁ (by simp)) (h₂ r₂ (by simp)) hlen
    obtain ⟨hr, hrest⟩ := List.append_inj hrest hl
    rw [hr, rr_frames_parse_uniquely tc ttl l₁ l₂ (fun x hx => h₁ x (List.mem_cons_of_mem _ hx))
      (fun x hx => h₂ x (List.mem_cons_of_mem _ hx)) hrest]

/-- the 18-octet RRSIG RDATA prefix determines every signed field (each within its wire range) -/
theorem rrsigHeader_injective (tc a l o e i t tc' a' l' o' e' i' t' : Nat)
    (htc : tc < 65536) (ha : a < 256) (hl : l < 256) (ho : o < 4294967296) (he : e < 4294967296)
    (hi : i < 4294967296) (ht : t < 65536)
    (htc' : tc' < 65536) (ha' : a' < 256) (hl' : l' < 256) (ho' : o' < 4294967296) (he' : e' < 4294967296)
    (hi' : i' < 4294967296) (ht' : t' < 65536)
    (h : rrsigHeader tc a l o e i t = rrsigHeader tc' a' l' o' e' i' t') :
    tc = tc' ∧ a = a' ∧ l = l' ∧ o = o' ∧ e = e' ∧ i = i' ∧ t = t' := by
  unfold rrsigHeader at h
  obtain ⟨h, h7⟩ := List.append_inj' h (by simp [be16])
  obtain ⟨h, h6⟩ := List.append_inj' h (by simp [be32])
  obtain ⟨h, h5⟩ := List.append_inj' h (by simp [be32])
  obtain ⟨h, h4⟩ := List.append_inj' h (by simp [be32])
  obtain ⟨h, h3⟩ := List.append_inj' h (by simp [be8])
  obtain ⟨h1, h2⟩ := List.append_inj' h (by simp [be8])
  exact ⟨be16_inj htc htc' h1, be8_inj ha ha' h2, be8_inj hl hl' h3, be32_inj ho ho' h4,
    be32_inj he he' h5, be32_inj hi hi' h6, be16_inj ht ht' h7⟩

/-- **The to-be-signed octets are injective** in the signed fields and the multiset of RDATAs: equal
    octets ⇒ equal type covered, algorithm, labels, original TTL, expiration, inception, key tag, and
    the same RDATAs up to order (equal canonical arrangements).  So a change to any signed field, to
    any octet of any key's RDATA, or to the key set, changes the octets that must verify. -/
theorem tbs_injective (tc a l o e i t tc' a' l' o' e' i' t' : Nat) (rd rd' : List Bytes)
    (htc : tc < 65536) (ha : a < 256) (hl : l < 256) (ho : o < 4294967296) (he : e < 4294967296)
    (hi : i < 4294967296) (ht : t < 65536)
    (htc' : tc' < 65536) (ha' : a' < 256) (hl' : l' < 256) (ho' : o' < 4294967296) (he' : e' < 4294967296)
    (hi' : i' < 4294967296) (ht' : t' < 65536)
    (hrd : ∀ r ∈ rd, r.length < 65536) (hrd' : ∀ r ∈ rd', r.length < 65536)
    (h : rawRrsigOf tc a l o e i t rd = rawRrsigOf tc' a' l' o' e' i' t' rd') :
    (tc = tc' ∧ a = a' ∧ l = l' ∧ o = o' ∧ e = e' ∧ i = i' ∧ t = t') ∧
    rd.mergeSort bytesLe = rd'.mergeSort bytesLe ∧ rd.Perm rd' := by
  unfold rawRrsigOf at h
  rw [List.append_assoc, List.append_assoc] at h
  obtain ⟨hh, hb⟩ := List.append_inj h (by rw [rrsigHeader_length, rrsigHeader_length])
  have hf := rrsigHeader_injective _ _ _ _ _ _ _ _ _ _ _ _ _ _ htc ha hl ho he hi ht htc' ha' hl' ho' he' hi' ht' hh
  obtain ⟨e1, e2, e3, e4, e5, e6, e7⟩ := hf
  subst e1 e4
  have hb := List.append_cancel_left hb
  have hs := rr_frames_parse_uniquely tc o _ _
    (fun r hr => hrd r ((List.mergeSort_perm rd bytesLe).mem_iff.mp hr))
    (fun r hr => hrd' r ((List.mergeSort_perm rd' bytesLe).mem_iff.mp hr)) hb
  refine ⟨⟨rfl, e2, e3, rfl, e5, e6, e7⟩, hs, ?_⟩
  exact (List.mergeSort_perm rd bytesLe).symm.trans (hs ▸ List.mergeSort_perm rd' bytesLe)

/-- a DNSKEY RDATA determines flags, protocol, algorithm and every octet of the public key -/
theorem rdata_injective (f p a f' p' a' : Nat) (pk pk' : Bytes)
    (hf : f < 65536) (hp : p < 256) (ha : a < 256) (hf' : f' < 65536) (hp' : p' < 256) (ha' : a' < 256)
    (h : rdataOf f p a pk = rdataOf f' p' a' pk') : f = f' ∧ p = p' ∧ a = a' ∧ pk = pk' := by
  unfold rdataOf at h
  rw [List.append_assoc, List.append_assoc, List.append_assoc, List.append_assoc] at h
  obtain ⟨h1, h⟩ := List.append_inj h (by simp [be16])
  obtain ⟨h2, h⟩ := List.append_inj h (by simp [be8])
  obtain ⟨h3, h4⟩ := List.append_inj h (by simp [be8])
  exact ⟨be16_inj hf hf' h1, be8_inj hp hp' h2, be8_inj ha ha' h3, h4⟩

/-- **`make_raw_rrsig` is injective where it succeeds**: two (signature, key set) pairs that yield the
    same to-be-signed octets state the same signed fields and carry the same multiset of key RDATAs. -/
theorem tbs_injective_makeRawRrsig (s₁ s₂ : Signature) (k₁ k₂ : List Key) (raw : Bytes)
    (h₁ : makeRawRrsig s₁ k₁ = .ok raw) (h₂ : makeRawRrsig s₂ k₂ = .ok raw) :
    (s₁.typeCovered = s₂.typeCovered ∧ s₁.algorithm = s₂.algorithm ∧ s₁.labels = s₂.labels ∧
      s₁.originalTtl = s₂.originalTtl ∧ tsSeconds s₁.expiration = tsSeconds s₂.expiration ∧
      tsSeconds s₁.inception = tsSeconds s₂.inception ∧ s₁.keyTag = s₂.keyTag) ∧
    ∃ rd₁ rd₂, k₁.mapM keyToRdata = .ok rd₁ ∧ k₂.mapM keyToRdata = .ok rd₂ ∧ rd₁.Perm rd₂ := by
  have key : ∀ (s : Signature) (k : List Key), makeRawRrsig s k = .ok raw →
      (s.typeCovered < 65536 ∧ s.algorithm < 256 ∧ inRange 8 s.labels = true ∧
        inRange 32 s.originalTtl = true ∧ inRange 32 (tsSeconds s.expiration) = true ∧
        inRange 32 (tsSeconds s.inception) = true ∧ inRange 16 s.keyTag = true) ∧
      ∃ rd, k.mapM keyToRdata = .ok rd ∧ (∀ r ∈ rd, r.length < 65536) ∧
        raw = rawRrsigOf s.typeCovered s.algorithm s.labels.toNat s.originalTtl.toNat
          (tsSeconds s.expiration).toNat (tsSeconds s.inception).toNat s.keyTag.toNat rd := by
    intro s k h
    unfold makeRawRrsig at h
    simp only [bind, Except.bind] at h
    split at h
    · simp [err] at h
    · rename_i hr
      simp only [Bool.not_eq_true', Bool.not_eq_false, Bool.and_eq_true, decide_eq_true_eq] at hr
      simp only [pure, Except.pure] at h
      cases hd : dn2wire s.signersName with
      | error e => simp [hd] at h
      | ok w =>
        cases hm : k.mapM keyToRdata with
        | error e => simp [hd, hm] at h
        | ok rd =>
          simp only [hd, hm] at h
          split at h
          · simp [err] at h
          · rename_i hlen
            simp only [Except.ok.injEq] at h
            refine ⟨⟨hr.1.1.1.1.1.1, hr.1.1.1.1.1.2, hr.1.1.1.1.2, hr.1.1.1.2, hr.1.1.2, hr.1.2, hr.2⟩,
              rd, rfl, ?_, h.symm⟩
            intro r hrm
            have hl : ∀ x ∈ rd, x.length < 65536 := by simpa using hlen
            exact hl r hrm
  obtain ⟨⟨a1, a2, a3, a4, a5, a6, a7⟩, rd₁, m₁, l₁, e₁⟩ := key s₁ k₁ h₁
  obtain ⟨⟨b1, b2, b3, b4, b5, b6, b7⟩, rd₂, m₂, l₂, e₂⟩ := key s₂ k₂ h₂
  simp only [inRange, Bool.and_eq_true, decide_eq_true_eq] at a3 a4 a5 a6 a7 b3 b4 b5 b6 b7
  have hinj := tbs_injective _ _ _ _ _ _ _ _ _ _ _ _ _ _ rd₁ rd₂ a1 a2 (by omega) (by omega) (by omega)
    (by omega) (by omega) b1 b2 (by omega) (by omega) (by omega) (by omega) (by omega) l₁ l₂ (e₁ ▸ e₂)
  obtain ⟨⟨c1, c2, c3, c4, c5, c6, c7⟩, _, hperm⟩ := hinj
  refine ⟨⟨c1, c2, by omega, by omega, by omega, by omega, by omega⟩, rd₁, rd₂, m₁, m₂, hperm⟩

/-! ## Non-vacuity -/

/-- one toy RSA key (RFC 3110 text), one signature naming it -/
def exKey : Key :=
  { keyIdentifier := "zsk1", keyTag := 38684, ttl := 172800, flags := 256, protocol := 3,
    algorithm := 8, publicKey := "AQPFESIzRFVmdw==" }
def exKey2 : Key :=
  { keyIdentifier := "zsk2", keyTag := 38685, ttl := 172800, flags := 256, protocol := 3,
    algorithm := 8, publicKey := "AQPFESIzRFVmeA==" }
def exSig (ident : String) (tag : Int) : Signature :=
  { keyIdentifier := ident, ttl := 172800, algorithm := 8, labels := 0, originalTtl := 172800,
    expiration := 1500000000000000, inception := 1400000000000000, keyTag := tag, signersName := ".",
    signatureData := "AAEC" }
def exBundle : Bundle :=
  { id := "b", inception := 0, expiration := 0, keys := [exKey, exKey2],
    signatures := [exSig "zsk2" 38685, exSig "zsk1" 38684] }
/-- a verifier that accepts everything: the hypotheses of completeness are satisfiable … -/
def yes : Verifier := fun _ _ _ _ => .valid
/-- … and one that accepts nothing -/
def no : Verifier := fun _ _ _ _ => .invalid

def exReq (sigs : List Signature) : Request :=
  { id := "r", serial := 1, domain := ".", zskPolicy := {},
    bundles := [{ id := "b", inception := 0, expiration := 0, keys := [exKey, exKey2], signatures := sigs }] }

example : validateSignatures yes exBundle = .ok () := by decide +kernel
example : checkProofOfPossession yes (exReq exBundle.signatures) {} = .ok () := by decide +kernel
example : checkProofOfPossession no (exReq exBundle.signatures) {} = violation .bundlePop := by decide +kernel
/-- omission: the second key has no signature -/
example : checkProofOfPossession yes (exReq [exSig "zsk1" 38684]) {} = violation .bundlePop := by
  decide +kernel
/-- misattribution: a signature naming no key of the bundle -/
example : validateSignatures yes { exBundle with signatures := [exSig "zsk3" 1] } = err .value := by
  decide +kernel
/-- the RDATAs of BOTH keys enter the to-be-signed octets; here document order is already canonical -/
example : exBundle.keys.mapM keyToRdata =
    .ok [[1, 0, 3, 8, 1, 3, 0xC5, 0x11, 0x22, 0x33, 0x44, 0x55, 0x66, 0x77],
         [1, 0, 3, 8, 1, 3, 0xC5, 0x11, 0x22, 0x33, 0x44, 0x55, 0x66, 0x78]] := by decide +kernel
example : C14.CanonicalOrder
    [[1, 0, 3, 8, 1, 3, 0xC5, 0x11, 0x22, 0x33, 0x44, 0x55, 0x66, 0x77],
     [1, 0, 3, 8, 1, 3, 0xC5, 0x11, 0x22, 0x33, 0x44, 0x55, 0x66, 0x78]]
    [[1, 0, 3, 8, 1, 3, 0xC5, 0x11, 0x22, 0x33, 0x44, 0x55, 0x66, 0x77],
     [1, 0, 3, 8, 1, 3, 0xC5, 0x11, 0x22, 0x33, 0x44, 0x55, 0x66, 0x78]] :=
  ⟨List.Perm.refl _, by decide⟩

end Kskm.C07
