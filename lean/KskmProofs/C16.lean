/-
  C16 — configuration is validated fail-closed, defaults are the secure documented ones, values are
  loaded exactly, one flag switches off one check, configuration errors have their own exit status.

  The model is Kskm/Config.lean (pydantic modelled, not verified: tied to the code by
  harness/corr_C16.py).  The schema facts used below come from `KskmGen.configSchema`, regenerated
  from `model_json_schema()` / `model_fields` on every run: a changed default, bound, pattern,
  `extra=` setting, field validator (before / after) or flag reader changes the table and breaks a
  `decide` here.
-/
import Kskm.Config
import Kskm.Chain
import KskmGen.Tables
import KskmProofs.C05
import KskmProofs.C06
import KskmProofs.Lemmas.C16Validate
import KskmProofs.Lemmas.C16Conforms
import KskmProofs.Lemmas.C16Table
import KskmProofs.Lemmas.C16Flags
import KskmProofs.Lemmas.C16Duration
import KskmProofs.Lemmas.C16Coercion
namespace Kskm.C16
open Kskm Kskm.Config

/-- did the loader return a configuration? -/
def loads (r : Res CVal) : Bool :=
  match r with
  | .ok _ => true
  | .error _ => false

/-! ## 1. Fail-closed: unknown options -/

/-- every object schema pydantic emits for the configuration forbids additional properties
    (`extra="forbid"`), checked over the whole regenerated table -/
theorem every_object_closed : ∀ s ∈ KskmGen.configSchema, s.additionalProperties = false := by decide

/-- **unknown_option_rejected** (all value trees, all nesting levels).  If anywhere the schema
    expects an options object — the top level, a section, an hsm entry, a key definition, a schema
    slot … but NOT inside the free-form `env` map, for which `HasUnknownOption` has no rule — the
    transformed tree has a key the object does not declare, the loader does not return a
    configuration. -/
theorem unknown_option_rejected (fe : String → Bool) (c : CVal) (kvs : List (CVal × CVal))
    (ht : transformConfig (realEnv fe).kskTtlFallback c = .ok kvs)
    (hu : HasUnknownOption KskmGen.configSchema (.model "KSKMConfig") (.map kvs)) :
    ∀ r, fromDict (realEnv fe) c ≠ .ok r := by
  intro r h
  unfold fromDict at h
  simp only [ht, bind, Except.bind] at h
  cases hv : validate (realEnv fe) validateFuel false (.model "KSKMConfig") (.map kvs) with
  | error e => simp [hv] at h
  | ok o =>
    cases o with
    | none => simp [hv, err] at h
    | some loaded =>
      exact unknown_not_validated (realEnv fe) every_object_closed hu _ _ _ hv

/-- …and what it is rejected with is the schema-validation error, unless an exception escaped first
    or the model declines (never a configuration, never the ConfigurationError class). -/
theorem unknown_option_outcome (fe : String → Bool) (c : CVal) (kvs : List (CVal × CVal))
    (ht : transformConfig (realEnv fe).kskTtlFallback c = .ok kvs)
    (hu : HasUnknownOption KskmGen.configSchema (.model "KSKMConfig") (.map kvs)) :
    fromDict (realEnv fe) c = err .validation ∨
    (∃ e, validate (realEnv fe) validateFuel false (.model "KSKMConfig") (.map kvs) = .error e ∧
          fromDict (realEnv fe) c = .error e) := by
  unfold fromDict
  simp only [ht, bind, Except.bind]
  cases hv : validate (realEnv fe) validateFuel false (.model "KSKMConfig") (.map kvs) with
  | error e => right; exact ⟨e, rfl, rfl⟩
  | ok o =>
    cases o with
    | none => left; rfl
    | some loaded => exact absurd hv (unknown_not_validated (realEnv fe) every_object_closed hu _ _ _)

/-- an unknown top-level section of the file as written (before `_transform_config`) is rejected:
    every name other than the seven sections (`keys` is the file's name for `ksk_keys`) -/
theorem unknown_section_rejected (fe : String → Bool) (kvs : List (CVal × CVal)) (k : String) (x : CVal)
    (hk : (CVal.str k, x) ∈ kvs)
    (hname : k ∉ ["hsm", "keys", "ksk_keys", "ksk_policy", "request_policy", "response_policy",
                  "filenames", "schemas"]) :
    ∀ r, fromDict (realEnv fe) (.map kvs) ≠ .ok r := by
  intro r h
  cases ht : transformConfig (realEnv fe).kskTtlFallback (.map kvs) with
  | error e => simp [fromDict, ht, bind, Except.bind] at h
  | ok kvs' =>
    have hmem : (CVal.str k, x) ∈ kvs' := transform_keeps_other_keys _ kvs kvs' k x ht hk (by
      simp only [List.mem_cons, List.not_mem_nil, or_false, not_or] at hname ⊢
      exact ⟨hname.2.2.2.1, hname.2.1, hname.2.2.2.2.1, hname.2.2.1⟩)
    refine unknown_option_rejected fe _ kvs' ht ?_ r h
    obtain ⟨s, hs, hund⟩ := undeclared_of_fieldNames KskmGen.configSchema "KSKMConfig"
      ["hsm", "ksk_keys", "ksk_policy", "request_policy", "response_policy", "filenames", "schemas"] k
      (by decide) (by
        simp only [List.mem_cons, List.not_mem_nil, or_false, not_or] at hname ⊢
        exact ⟨hname.1, hname.2.2.1, hname.2.2.2.1, hname.2.2.2.2.1, hname.2.2.2.2.2.1,
               hname.2.2.2.2.2.2.1, hname.2.2.2.2.2.2.2⟩)
    exact HasUnknownOption.here hs hmem hund

/-- the exemption is real: an arbitrary key inside an HSM's `env` map IS accepted (and a
    non-trivial tree meets the hypotheses of the theorems above: this one loads) -/
example : loads (fromDict (realEnv fun _ => false)
    (.map [(.str "hsm", .map [(.str "softhsm", .map [(.str "module", .str "libsofthsm2.so"),
      (.str "env", .map [(.str "ANY_NAME_AT_ALL", .list [.int 1, .null])])])])])) = true := by
  decide +kernel

/-- …while the same key one level up, in the hsm entry itself, is an unknown option -/
example : HasUnknownOption KskmGen.configSchema (.model "KSKMConfig")
    (.map [(.str "hsm", .map [(.str "softhsm", .map [(.str "module", .str "libsofthsm2.so"),
      (.str "ANY_NAME_AT_ALL", .int 1)])])]) := by
  obtain ⟨s, hs, hund⟩ := undeclared_of_fieldNames KskmGen.configSchema "KSKMHSM"
    ["module", "pin", "so_pin", "env"] "ANY_NAME_AT_ALL" (by decide) (by decide)
  obtain ⟨t, ht, hf⟩ : ∃ t, findSchema KskmGen.configSchema "KSKMConfig" = some t ∧
      ∃ f ∈ t.fields, f.name = "hsm" ∧ f.ty = .mapOf false (.model "KSKMHSM") ∧ f.strToList = false := by
    refine ⟨_, rfl, ?_⟩
    decide
  obtain ⟨f, hfm, hn, hty, hsl⟩ := hf
  refine HasUnknownOption.field ht hfm (x := .map [(.str "softhsm", _)]) (by rw [hn]; rfl) ?_
  rw [hty]
  simp only [applyStrToList, hsl]
  refine HasUnknownOption.entry (kv := (.str "softhsm", _)) List.mem_cons_self ?_
  exact HasUnknownOption.here hs (List.mem_cons_of_mem _ List.mem_cons_self) hund

/-! ## 2. Documented constraints -/

/-- **constraint_positive_counts.**  A loaded configuration has `signature_horizon_days ≥ 1`,
    `num_bundles ≥ 1` and `num_different_keys_in_all_bundles ≥ 1` — for every value tree. -/
theorem constraint_positive_counts (env : Env) (c loaded : CVal) (h : fromDict env c = .ok loaded) :
    ∃ hz n k, intAt loaded "request_policy" "signature_horizon_days" = some hz ∧
      intAt loaded "request_policy" "num_bundles" = some n ∧
      intAt loaded "request_policy" "num_different_keys_in_all_bundles" = some k ∧
      1 ≤ hz ∧ 1 ≤ n ∧ 1 ≤ k := by
  obtain ⟨kvs, _, _, hp⟩ := fromDict_validated env c loaded h
  unfold positivityChecks at hp
  split at hp
  · rename_i hz n k h1 h2 h3
    refine ⟨hz, n, k, h1, h2, h3, ?_⟩
    split at hp
    · simp [err] at hp
    · split at hp
      · simp [err] at hp
      · split at hp
        · simp [err] at hp
        · omega
  · simp [unsupported] at hp

/-- …and a schema-valid tree with a non-positive count is refused with the dedicated
    *configuration* error (not a validation error, not acceptance). -/
theorem constraint_nonpositive_is_configuration_error (env : Env) (c : CVal) (kvs : List (CVal × CVal))
    (loaded : CVal) (hz n k : Int)
    (ht : transformConfig env.kskTtlFallback c = .ok kvs)
    (hv : validate env validateFuel false (.model "KSKMConfig") (.map kvs) = .ok (some loaded))
    (h1 : intAt loaded "request_policy" "signature_horizon_days" = some hz)
    (h2 : intAt loaded "request_policy" "num_bundles" = some n)
    (h3 : intAt loaded "request_policy" "num_different_keys_in_all_bundles" = some k)
    (hbad : hz < 1 ∨ n < 1 ∨ k < 1) :
    fromDict env c = err .configuration := by
  unfold fromDict
  simp only [ht, hv, bind, Except.bind, positivityChecks, h1, h2, h3]
  by_cases c1 : hz < 1
  · simp [c1, err]
  · by_cases c2 : n < 1
    · simp [c1, c2, err]
    · have c3 : k < 1 := by omega
      simp [c1, c2, c3, err]

/-- **constraint_ttl_nonnegative.**  Neither TTL of a loaded configuration is negative. -/
theorem constraint_ttl_nonnegative (fe : String → Bool) (c loaded : CVal)
    (h : fromDict (realEnv fe) c = .ok loaded) :
    (∀ sv v, loaded.get? "request_policy" = some sv → sv.get? "dns_ttl" = some v → ∃ i, v = .int i ∧ 0 ≤ i) ∧
    (∀ sv v, loaded.get? "ksk_policy" = some sv → sv.get? "ttl" = some v → ∃ i, v = .int i ∧ 0 ≤ i) := by
  constructor
  · intro sv v hg1 hg2
    obtain ⟨i, hi, hb⟩ := section_int_option fe c loaded sv v "request_policy" "RequestPolicy" "dns_ttl"
      (some 0) none none 0 0 h (by decide) (by decide) (by decide) (by decide) (by decide) (by decide) hg1 hg2
    exact ⟨i, hi, by simpa [inBounds] using hb⟩
  · intro sv v hg1 hg2
    obtain ⟨i, hi, hb⟩ := section_int_option fe c loaded sv v "ksk_policy" "KSKPolicy" "ttl"
      (some 0) none none 172800 172800 h (by decide) (by decide) (by decide) (by decide) (by decide) (by decide) hg1 hg2
    exact ⟨i, hi, by simpa [inBounds] using hb⟩

/-- the SKR-side bundle count is positive (`PositiveInt`) -/
theorem constraint_response_num_bundles (fe : String → Bool) (c loaded : CVal)
    (h : fromDict (realEnv fe) c = .ok loaded) :
    ∀ sv v, loaded.get? "response_policy" = some sv → sv.get? "num_bundles" = some v → ∃ i, v = .int i ∧ 0 < i := by
  intro sv v hg1 hg2
  obtain ⟨i, hi, hb⟩ := section_int_option fe c loaded sv v "response_policy" "ResponsePolicy" "num_bundles"
    none none (some 0) 9 9 h (by decide) (by decide) (by decide) (by decide) (by decide) (by decide) hg1 hg2
  exact ⟨i, hi, by simpa [inBounds] using hb⟩

/-- **constraint_key_tag.**  A configured key tag is absent or a DNSSEC key tag: within 0..65535
    (0 is a legal 16-bit checksum value; the pinned tree demanded ≥ 1, repaired in /repo b0ed181). -/
theorem constraint_key_tag (fe : String → Bool) (c loaded ks kname key v : CVal) (keys : List (CVal × CVal))
    (h : fromDict (realEnv fe) c = .ok loaded)
    (hg : loaded.get? "ksk_keys" = some ks) (hks : ks = .map keys) (hk : (kname, key) ∈ keys)
    (hg2 : key.get? "key_tag" = some v) :
    v = .null ∨ ∃ i, v = .int i ∧ 0 ≤ i ∧ i ≤ 65535 := by
  rcases key_nullable_int fe c loaded ks kname key v keys "key_tag" (some 0) (some 65535) none h
    (by decide) (by decide) hg hks hk hg2 with hn | ⟨i, hi, hb⟩
  · left; exact hn
  · right; exact ⟨i, hi, by simpa [inBounds] using hb⟩

/-- **constraint_rsa_size** (key definitions): absent or within 1..65535;
    `rsa_exponent`: absent or positive. -/
theorem constraint_key_rsa (fe : String → Bool) (c loaded ks kname key : CVal) (keys : List (CVal × CVal))
    (h : fromDict (realEnv fe) c = .ok loaded)
    (hg : loaded.get? "ksk_keys" = some ks) (hks : ks = .map keys) (hk : (kname, key) ∈ keys) :
    (∀ v, key.get? "rsa_size" = some v → v = .null ∨ ∃ i, v = .int i ∧ 1 ≤ i ∧ i ≤ 65535) ∧
    (∀ v, key.get? "rsa_exponent" = some v → v = .null ∨ ∃ i, v = .int i ∧ 0 < i) := by
  constructor
  · intro v hg2
    rcases key_nullable_int fe c loaded ks kname key v keys "rsa_size" (some 1) (some 65535) none h
      (by decide) (by decide) hg hks hk hg2 with hn | ⟨i, hi, hb⟩
    · left; exact hn
    · right; exact ⟨i, hi, by simpa [inBounds] using hb⟩
  · intro v hg2
    rcases key_nullable_int fe c loaded ks kname key v keys "rsa_exponent" none none (some 0) h
      (by decide) (by decide) hg hks hk hg2 with hn | ⟨i, hi, hb⟩
    · left; exact hn
    · right; exact ⟨i, hi, by simpa [inBounds] using hb⟩

/-- the three pattern literals the matchers were written from are the ones in the code now
    (`StringConstraints(pattern=…)` literals by `ast`), and no other pattern occurs in the schema -/
theorem patterns_pinned :
    List.lookup "src/kskm/common/config_misc.py:StringConstraints#1" KskmGen.regexLiterals = some patDomain ∧
    List.lookup "src/kskm/common/config_misc.py:StringConstraints#2" KskmGen.regexLiterals = some patHex ∧
    List.lookup "src/kskm/common/config_misc.py:StringConstraints#3" KskmGen.regexLiterals = some patKeyName ∧
    schemaFieldTy KskmGen.configSchema "KSKKey" "label" = some (.scalar [.str (some patKeyName)]) ∧
    schemaFieldTy KskmGen.configSchema "KSKKey" "ds_sha256" = some (.scalar [.str (some patHex), .null]) ∧
    schemaFieldTy KskmGen.configSchema "KSKPolicy" "signers_name" = some (.scalar [.str (some patDomain)]) ∧
    schemaFieldTy KskmGen.configSchema "RequestPolicy" "acceptable_domains" =
      some (.list (.scalar [.str (some patDomain)])) ∧
    schemaFieldTy KskmGen.configSchema "SchemaAction" "publish" = some (.list (.scalar [.str (some patKeyName)])) ∧
    schemaFieldTy KskmGen.configSchema "SchemaAction" "sign" = some (.list (.scalar [.str (some patKeyName)])) ∧
    schemaFieldTy KskmGen.configSchema "SchemaAction" "revoke" = some (.list (.scalar [.str (some patKeyName)])) := by
  decide

/-- Python's `$` would also match before a trailing newline; pydantic-core matches with the Rust
    `regex` crate, where it does not: `"abc\n"` is NOT a label / domain / digest
    (established on the implementation by harness/corr_C16.py, stream `example`, `strmod:nl`). -/
theorem trailing_newline_refused :
    matchPattern patKeyName "abc\n" = .ok false ∧ matchPattern patDomain "abc\n" = .ok false ∧
    matchPattern patHex "abc\n" = .ok false := by decide

/-- **constraint_label / constraint_digest / constraint_algorithm.**  In a loaded configuration
    every key's label is a key name, its digest (when given) is hexadecimal, and its algorithm is the
    number of a member NAME of `AlgorithmDNSSEC`. -/
theorem constraint_key_strings (fe : String → Bool) (c loaded ks kname key : CVal) (keys : List (CVal × CVal))
    (h : fromDict (realEnv fe) c = .ok loaded)
    (hg : loaded.get? "ksk_keys" = some ks) (hks : ks = .map keys) (hk : (kname, key) ∈ keys) :
    (∀ v, key.get? "label" = some v → ∃ s, v = .str s ∧ IsKeyName s) ∧
    (∀ v, key.get? "ds_sha256" = some v → v = .null ∨ ∃ s, v = .str s ∧ IsHexDigest s) ∧
    (∀ v, key.get? "algorithm" = some v →
      ∃ name n, v = .int (Int.ofNat n) ∧ List.lookup name KskmGen.algorithmDNSSEC = some n) := by
  refine ⟨?_, ?_, ?_⟩
  · intro v hg2
    rcases key_option fe c loaded ks kname key v keys "label" h hg hks hk hg2 with hd | ⟨ty, hty, hcs⟩
    · have : (schemaDefault KskmGen.configSchema "KSKKey" "label").isNone = true := by decide
      rw [hd] at this; cases this
    · rw [patterns_pinned.2.2.2.1] at hty
      injection hty with hty; subst hty
      obtain ⟨a, ha, hok⟩ := conforms_scalar _ 4 _ v hcs
      simp only [List.mem_cons, List.not_mem_nil, or_false] at ha
      subst ha
      obtain ⟨s, hs, hp⟩ := hok
      exact ⟨s, hs, matchPattern_keyName s (hp _ rfl)⟩
  · intro v hg2
    rcases key_option fe c loaded ks kname key v keys "ds_sha256" h hg hks hk hg2 with hd | ⟨ty, hty, hcs⟩
    · have : (schemaDefault KskmGen.configSchema "KSKKey" "ds_sha256").map CVal.isNull = some true := by decide
      rw [hd] at this
      left
      cases v <;> simp [CVal.isNull] at this ⊢
    · rw [patterns_pinned.2.2.2.2.1] at hty
      injection hty with hty; subst hty
      obtain ⟨a, ha, hok⟩ := conforms_scalar _ 4 _ v hcs
      simp only [List.mem_cons, List.not_mem_nil, or_false] at ha
      rcases ha with rfl | rfl
      · obtain ⟨s, hs, hp⟩ := hok
        right; exact ⟨s, hs, matchPattern_hex s (hp _ rfl)⟩
      · left; exact hok
  · intro v hg2
    rcases key_option fe c loaded ks kname key v keys "algorithm" h hg hks hk hg2 with hd | ⟨ty, hty, hcs⟩
    · have : (schemaDefault KskmGen.configSchema "KSKKey" "algorithm").isNone = true := by decide
      rw [hd] at this; cases this
    · have hfty : schemaFieldTy KskmGen.configSchema "KSKKey" "algorithm" = some (.scalar [.algByName]) := by decide
      rw [hfty] at hty
      injection hty with hty; subst hty
      obtain ⟨a, ha, hok⟩ := conforms_scalar _ 4 _ v hcs
      simp only [List.mem_cons, List.not_mem_nil, or_false] at ha
      subst ha
      exact hok

/-- **constraint_rsa_sizes** (operator policy): every approved RSA size is within 1..65535, every
    approved exponent and every per-bundle key count is positive. -/
theorem constraint_request_int_lists (fe : String → Bool) (c loaded sv : CVal)
    (h : fromDict (realEnv fe) c = .ok loaded) (hg1 : loaded.get? "request_policy" = some sv) :
    (∀ v, sv.get? "rsa_approved_key_sizes" = some v →
      ∃ xs, v = .list xs ∧ ∀ x ∈ xs, ∃ i, x = .int i ∧ 1 ≤ i ∧ i ≤ 65535) ∧
    (∀ v, sv.get? "rsa_approved_exponents" = some v → ∃ xs, v = .list xs ∧ ∀ x ∈ xs, ∃ i, x = .int i ∧ 0 < i) ∧
    (∀ v, sv.get? "num_keys_per_bundle" = some v → ∃ xs, v = .list xs ∧ ∀ x ∈ xs, ∃ i, x = .int i ∧ 0 < i) := by
  refine ⟨?_, ?_, ?_⟩
  · intro v hg2
    obtain ⟨xs, hxs, hall⟩ := request_intlist_option fe c loaded sv v "rsa_approved_key_sizes" (some 1) (some 65535)
      none [2048] [2048] h (by decide) (by decide) (by decide) (by decide) (by decide) hg1 hg2
    refine ⟨xs, hxs, fun x hx => ?_⟩
    obtain ⟨i, hi, hb⟩ := hall x hx
    exact ⟨i, hi, by simpa [inBounds] using hb⟩
  · intro v hg2
    obtain ⟨xs, hxs, hall⟩ := request_intlist_option fe c loaded sv v "rsa_approved_exponents" none none
      (some 0) [65537] [65537] h (by decide) (by decide) (by decide) (by decide) (by decide) hg1 hg2
    refine ⟨xs, hxs, fun x hx => ?_⟩
    obtain ⟨i, hi, hb⟩ := hall x hx
    exact ⟨i, hi, by simpa [inBounds] using hb⟩
  · intro v hg2
    obtain ⟨xs, hxs, hall⟩ := request_intlist_option fe c loaded sv v "num_keys_per_bundle" none none
      (some 0) [2, 1, 1, 1, 1, 1, 1, 1, 2] [2, 1, 1, 1, 1, 1, 1, 1, 2] h (by decide) (by decide) (by decide)
      (by decide) (by decide) hg1 hg2
    refine ⟨xs, hxs, fun x hx => ?_⟩
    obtain ⟨i, hi, hb⟩ := hall x hx
    exact ⟨i, hi, by simpa [inBounds] using hb⟩

/-- **constraint_domains.**  Every acceptable domain and the signer's name of a loaded configuration
    is a non-empty string over `[A-Za-z0-9_.]`. -/
theorem constraint_domains (fe : String → Bool) (c loaded : CVal) (h : fromDict (realEnv fe) c = .ok loaded) :
    (∀ sv v, loaded.get? "request_policy" = some sv → sv.get? "acceptable_domains" = some v →
      ∃ xs, v = .list xs ∧ ∀ x ∈ xs, ∃ s, x = .str s ∧ IsDomainName s) ∧
    (∀ sv v, loaded.get? "ksk_policy" = some sv → sv.get? "signers_name" = some v →
      ∃ s, v = .str s ∧ IsDomainName s) := by
  constructor
  · intro sv v hg1 hg2
    have fromDefault : v.getStrList? = some ["."] →
        ∃ xs, v = .list xs ∧ ∀ x ∈ xs, ∃ s, x = .str s ∧ IsDomainName s := by
      intro hv
      refine ⟨[CVal.str "."], getStrList?_some v ["."] hv, ?_⟩
      intro x hx
      simp only [List.mem_cons, List.not_mem_nil, or_false] at hx
      exact ⟨".", hx, isDomainName_dot⟩
    rcases section_option fe c loaded sv v "request_policy" "RequestPolicy" "acceptable_domains" h (by decide) hg1 hg2
      with hd | hd | ⟨ty, hty, hcs⟩
    · have hsdef : ((schemaDefault KskmGen.configSchema "KSKMConfig" "request_policy").bind
          (·.get? "acceptable_domains")).bind CVal.getStrList? = some ["."] := by decide
      rw [hd] at hsdef
      simp only [Option.bind_some, hg2] at hsdef
      exact fromDefault hsdef
    · have hfdef : (schemaDefault KskmGen.configSchema "RequestPolicy" "acceptable_domains").bind CVal.getStrList?
          = some ["."] := by decide
      rw [hd] at hfdef
      simp only [Option.bind_some] at hfdef
      exact fromDefault hfdef
    · rw [patterns_pinned.2.2.2.2.2.2.1] at hty
      injection hty with hty; subst hty
      obtain ⟨xs, hxs, hall⟩ := conforms_list _ 5 _ v hcs
      refine ⟨xs, hxs, fun x hx => ?_⟩
      obtain ⟨a, ha, hok⟩ := conforms_scalar _ 4 _ x (hall x hx)
      simp only [List.mem_cons, List.not_mem_nil, or_false] at ha
      subst ha
      obtain ⟨s, hs, hp⟩ := hok
      exact ⟨s, hs, matchPattern_domain s (hp _ rfl)⟩
  · intro sv v hg1 hg2
    have fromDefault : v.getStr? = some "." → ∃ s, v = .str s ∧ IsDomainName s := by
      intro hv
      cases v <;> simp [CVal.getStr?] at hv
      subst hv
      exact ⟨".", rfl, isDomainName_dot⟩
    rcases section_option fe c loaded sv v "ksk_policy" "KSKPolicy" "signers_name" h (by decide) hg1 hg2
      with hd | hd | ⟨ty, hty, hcs⟩
    · have hsdef : ((schemaDefault KskmGen.configSchema "KSKMConfig" "ksk_policy").bind
          (·.get? "signers_name")).bind CVal.getStr? = some "." := by decide
      rw [hd] at hsdef
      simp only [Option.bind_some, hg2] at hsdef
      exact fromDefault hsdef
    · have hfdef : (schemaDefault KskmGen.configSchema "KSKPolicy" "signers_name").bind CVal.getStr? = some "." := by
        decide
      rw [hd] at hfdef
      simp only [Option.bind_some] at hfdef
      exact fromDefault hfdef
    · rw [patterns_pinned.2.2.2.2.2.1] at hty
      injection hty with hty; subst hty
      obtain ⟨a, ha, hok⟩ := conforms_scalar _ 5 _ v hcs
      simp only [List.mem_cons, List.not_mem_nil, or_false] at ha
      subst ha
      obtain ⟨s, hs, hp⟩ := hok
      exact ⟨s, hs, matchPattern_domain s (hp _ rfl)⟩

/-! ### unparsable durations -/

/-- **constraint_duration (ksk_policy).**  If any entry of the `ksk_policy` section other than `ttl`
    and `signers_name` is something the repository's duration parser refuses, the configuration is
    not loaded — whatever else the tree contains. -/
theorem unparsable_ksk_duration_rejected (env : Env) (kvs pk : List (CVal × CVal)) (k : String) (v : CVal)
    (e : Fail)
    (hkp : CVal.lookupStr kvs "ksk_policy" = some (.map pk))
    (hnosp : CVal.lookupStr pk "signature_policy" = none)
    (hk : (CVal.str k, v) ∈ pk) (hk1 : k ≠ "ttl") (hk2 : k ≠ "signers_name")
    (hbad : durationToTimedelta v = .error e) :
    ∀ r, fromDict env (.map kvs) ≠ .ok r := by
  intro r h
  obtain ⟨kvs', ht, _, _⟩ := fromDict_validated env _ r h
  unfold transformConfig at ht
  simp only [topLevelDict, bind, Except.bind, pure, Except.pure] at ht
  cases hp : transformKskPolicy kvs with
  | error e' => simp [hp] at ht
  | ok k1 =>
    unfold transformKskPolicy at hp
    simp only [hkp, hnosp, Option.isSome_none, Bool.false_eq_true, if_false] at hp
    cases hm : mapDurations (delKey (delKey pk "ttl") "signers_name") with
    | error e' => simp [hm, bind, Except.bind] at hp
    | ok sp =>
      obtain ⟨d, hd⟩ := mapDurations_ok _ sp hm (CVal.str k, v)
        (mem_delKey_ne _ _ _ _ (mem_delKey_ne _ _ _ _ hk hk1) hk2)
      rw [hbad] at hd
      cases hd

/-! ### durations are loaded exactly -/

/-- the microseconds of one week / day / hour / minute / second, as the property states them -/
theorem duration_units :
    unitUs 'W' = 7 * 86400 * 1000000 ∧ unitUs 'D' = 86400 * 1000000 ∧ unitUs 'H' = 3600 * 1000000 ∧
    unitUs 'M' = 60 * 1000000 ∧ unitUs 'S' = 1000000 ∧
    dateUnitDays 'W' = 7 ∧ dateUnitDays 'D' = 1 ∧ timeUnitSecs 'H' = 3600 ∧ timeUnitSecs 'M' = 60 ∧
    timeUnitSecs 'S' = 1 := by decide

/-- **duration_value** (the repository's `duration_to_timedelta`, used for every `ksk_policy`
    duration).  For EVERY text `P<n>W…<n>D…[T<n>H…<n>M…<n>S…]` — any numbers, any number of
    components, in any order within their section — whose total a `timedelta` can hold, the value
    loaded is exactly Σ nᵢ · unitᵢ (`sumComps`, units as in `duration_units`).
    Rests on work package E's model `Kskm.parseDuration` and lemmas (C11). -/
theorem duration_value (dc tc : List (Nat × Char)) (hd : DateComps dc) (htc : GoodComps tc)
    (hmax : (sumComps dc + sumComps tc) / usPerDay ≤ 999999999) :
    parseDuration (String.ofList (durationText dc tc)) = .ok (sumComps dc + sumComps tc) ∧
    durationToTimedelta (.str (String.ofList (durationText dc tc))) = .ok (sumComps dc + sumComps tc) := by
  have h : parseDuration (String.ofList (durationText dc tc)) = .ok (sumComps dc + sumComps tc) := by
    simp only [parseDuration, String.toList_ofList]
    exact repo_duration_chars dc tc hd htc hmax
  refine ⟨h, ?_⟩
  have hne : (String.ofList (durationText dc tc)).isEmpty = false := by
    simp [durationText, String.isEmpty_iff, String.ofList_eq_empty_iff]
  simp only [durationToTimedelta, truthy, hne, Bool.not_false, Bool.not_true, Bool.false_eq_true, if_false]
  exact h

/-- the example file's `ksk_policy` durations and the documented request-policy defaults, through
    both parsers (non-vacuity: these texts meet the hypotheses) -/
example : parseDuration "P10D" = .ok (10 * usPerDay) ∧ parseDuration "P21D" = .ok (21 * usPerDay) ∧
    parseDuration "P1W2DT3H4M5S" = .ok (((9 * 24 + 3) * 3600 + 4 * 60 + 5) * 1000000) ∧
    pydDuration "P79D" = .ok (some (79 * usPerDay)) ∧ pydDuration "P11D" = .ok (some (11 * usPerDay)) ∧
    pydDuration "P1W2DT3H4M5S" = .ok (some (((9 * 24 + 3) * 3600 + 4 * 60 + 5) * 1000000)) := by decide +kernel

/-- **duration_value** on the pydantic path (the four `request_policy` intervals), PARTIAL: proved
    for the grammar scan `pydMagnitude` on every `P<digits>W…<digits>D…[T<digits>H…M…S…]` text
    (digit strings of any length, leading zeros allowed; value = Σ digitsVal · unit) within
    speedate's limits (time section < 2³² s, total < 10⁹ days).
    Missing for the full statement about `pydDuration`: its character-set pre-check and sign
    dispatch (`[+-]?P…` → `pydMagnitude`) are not lifted to all strings here — they are exercised by
    the `example` above and by the correspondence run (`pyd_duration` vs pydantic, 3 000+ strings);
    the spellings outside this grammar (fractions, `1 day, 0:00:00`, months, years) are
    correspondence-only or `unsupported`. -/
theorem duration_value_pydantic_partial (dc tc : List (List Char × Char)) (hd : DateDL dc) (ht : TimeDL tc)
    (hne : dc ≠ [] ∨ tc ≠ []) (hsecs : sumTimeDL tc < 4294967296)
    (hmax : sumDateDL dc * 86400 + sumTimeDL tc < 1000000000 * 86400) :
    pydMagnitude (pydText dc tc) = some (((sumDateDL dc * 86400 + sumTimeDL tc : Nat) : Int) * 1000000) :=
  pyd_magnitude_value dc tc hd ht hne hsecs hmax

/-- the two parsers differ outside that grammar (both mirrored, both replayed on the implementation):
    a month is refused by the repository parser and is 30 days for pydantic; a trailing integer is
    seconds for the repository parser and refused by pydantic -/
theorem parsers_differ :
    parseDuration "P1M" = .error (.error .notImplemented) ∧ pydDuration "P1M" = .ok (some (30 * usPerDay)) ∧
    parseDuration "P1D5" = .ok (usPerDay + 5 * 1000000) ∧ pydDuration "P1D5" = .ok none := by decide +kernel

/-! ## 3. Defaults -/

/-- the documented defaults of the request policy, written out from the property text and the
    comments of config/ksrsigner.yaml: every check on; 9 bundles with 2,1,1,1,1,1,1,1,2 keys;
    3 distinct keys; RSASHA256 / 2048 / 65537; 79–81-day cycle; 9–11-day interval; 180-day horizon;
    domain "."; unsupported ECDSA / EdDSA off -/
def documentedRequestPolicy : RequestPolicy :=
  { acceptableDomains := ["."], numBundles := 9,
    validateSignatures := true, keysMatchZskPolicy := true, rsaExponentMatchZskPolicy := true,
    enableUnsupportedEcdsa := false, enableUnsupportedEdwardsDsa := false,
    checkCycleLength := true,
    minCycleInceptionLength := 79 * usPerDay, maxCycleInceptionLength := 81 * usPerDay,
    minBundleInterval := 9 * usPerDay, maxBundleInterval := 11 * usPerDay,
    checkBundleOverlap := true, signatureAlgorithmsMatchZskPolicy := true,
    approvedAlgorithms := [some algRSASHA256], rsaApprovedExponents := [65537], rsaApprovedKeySizes := [2048],
    signatureValidityMatchZskPolicy := true, checkKeysMatchKskOperatorPolicy := true,
    numKeysPerBundle := [2, 1, 1, 1, 1, 1, 1, 1, 2], numDifferentKeysInAllBundles := 3,
    dnsTtl := 0, signatureCheckExpireHorizon := true, signatureHorizonDays := 180,
    checkBundleIntervals := true, checkChainKeys := true, checkChainKeysInHsm := true,
    checkChainOverlap := true, checkKeysPublishSafety := true, checkKeysRetireSafety := true }

/-- **defaults_documented.**  The defaults regenerated from the code — of the `RequestPolicy` model,
    of a configuration whose `request_policy` section is omitted altogether, of `ResponsePolicy`
    (9 / true), of `ksk_policy` (TTL 172800, signer "."; all six durations zero), and the table
    `KskmGen.requestPolicyDefaults` the other properties use — are the documented ones. -/
theorem defaults_documented :
    (defaultInstance KskmGen.configSchema "RequestPolicy").bind (toRequestPolicy KskmGen.algorithmDNSSEC)
      = some documentedRequestPolicy ∧
    (schemaDefault KskmGen.configSchema "KSKMConfig" "request_policy").bind (toRequestPolicy KskmGen.algorithmDNSSEC)
      = some documentedRequestPolicy ∧
    KskmGen.requestPolicyDefaults = documentedRequestPolicy ∧
    (defaultInstance KskmGen.configSchema "ResponsePolicy").bind toResponsePolicy
      = some { numBundles := 9, validateSignatures := true } ∧
    (schemaDefault KskmGen.configSchema "KSKMConfig" "response_policy").bind toResponsePolicy
      = some { numBundles := 9, validateSignatures := true } ∧
    KskmGen.responsePolicyDefaults = { numBundles := 9, validateSignatures := true } ∧
    (schemaDefault KskmGen.configSchema "KSKPolicy" "ttl").bind CVal.getInt? = some 172800 ∧
    (schemaDefault KskmGen.configSchema "KSKPolicy" "signers_name").bind CVal.getStr? = some "." ∧
    ((schemaDefault KskmGen.configSchema "KSKMConfig" "ksk_policy").bind (·.get? "ttl")).bind CVal.getInt? = some 172800 ∧
    ((schemaDefault KskmGen.configSchema "KSKMConfig" "ksk_policy").bind (·.get? "signers_name")).bind CVal.getStr?
      = some "." ∧
    (["publish_safety", "retire_safety", "max_signature_validity", "min_signature_validity",
      "max_validity_overlap", "min_validity_overlap"].all fun n =>
        (schemaDefault KskmGen.configSchema "SignaturePolicy" n).bind CVal.getTd? == some 0) = true := by
  decide +kernel

/-- the empty configuration loads, and loads as the defaults (non-vacuity of the default theorems:
    this is the path an omitted section takes) -/
example : ((fromDict (realEnv fun _ => false) (.map [])).toOption.bind (·.get? "request_policy")).bind
    (toRequestPolicy KskmGen.algorithmDNSSEC) = some documentedRequestPolicy := by decide +kernel

/-- the minimal configuration that omits `ksk_policy.ttl` while asking for it (`dns_ttl: 0`) -/
def omittedKskTtl : CVal :=
  .map [(.str "ksk_policy", .map []), (.str "request_policy", .map [(.str "dns_ttl", .int 0)])]

/-- **omitted `ksk_policy.ttl` takes its default** — behaviour switch `KskmGen.dnsTtlFallback`
    (finding F15), tabulated by execution.  Repaired: the configuration loads and `dns_ttl` is the
    default TTL 172800.  Pinned: the full statement is FALSE — the loader ends in `KeyError`
    (witness: `omittedKskTtl`; on the implementation: corr_C16 `delete:ksk_policy.ttl`). -/
theorem omitted_ksk_ttl_default (fe : String → Bool) :
    (KskmGen.dnsTtlFallback = some 172800 →
      ((fromDict (realEnv fe) omittedKskTtl).toOption.bind fun l => intAt l "request_policy" "dns_ttl") = some 172800) ∧
    (KskmGen.dnsTtlFallback = none → fromDict (realEnv fe) omittedKskTtl = err .key) := by
  constructor
  · intro h
    have e : realEnv fe = envWith fe (some (.int 172800)) := by simp [realEnv, envWith, h]
    rw [e]
    rfl
  · intro h
    have e : realEnv fe = envWith fe none := by simp [realEnv, envWith, h]
    rw [e]
    rfl

/-- on the tree as it is now the option takes its default (F15 repaired, /repo 5c61e58); a regression
    breaks this `decide` and the correspondence run exhibits `delete:ksk_policy.ttl` -/
theorem omitted_ksk_ttl_default_now : KskmGen.dnsTtlFallback = some 172800 := by decide

/-- the `mode="before"` field validators the model has built in are the ones declared in the code now -/
theorem before_validators_pinned :
    KskmGen.configBeforeValidators =
      [("KSKKey", "algorithm_by_name", ["algorithm"]), ("SchemaAction", "turn_into_list", ["*"])] := by decide

/-- …and so are the `mode="after"` ones: the table generator admits `validity_without_timezone_is_utc`
    only after PROBING the function by execution (naive ↦ same wall-clock time, offset 0; aware and
    `None` unchanged; independent of the process time zone), and flags exactly the two validity options
    of a key definition — no other option of any model -/
theorem after_validators_pinned :
    KskmGen.configAfterValidators =
      [("KSKKey", "validity_without_timezone_is_utc", ["valid_from", "valid_until"])] ∧
    schemaFieldValidators KskmGen.configSchema "KSKKey" "valid_from" = some (false, true) ∧
    schemaFieldValidators KskmGen.configSchema "KSKKey" "valid_until" = some (false, true) ∧
    (KskmGen.configSchema.all fun s => s.fields.all fun f =>
      f.naiveIsUtc == (s.name == "KSKKey" && (f.name == "valid_from" || f.name == "valid_until"))) = true := by
  decide

/-! ## 3b. A KSK validity is an instant: a timestamp without time zone is UTC

`valid_from` / `valid_until` are documented as ISO 8601 timestamps.  One written without a zone
designator (`2010-07-15T00:00:00`, or a bare date) used to stay a naive `datetime`: the trust-anchor
export then depended on the time zone of the process and the signer ended in `TypeError` (finding
F22, repaired in /repo aa1bc36 by the after-validator `validity_without_timezone_is_utc`).  The
documented reading — as for KSR / SKR timestamps — is UTC. -/

/-- the documented reading `LoadedAs` (KskmProofs/Lemmas/C16Table.lean), spelled out: a timestamp with
    a zone designator is loaded unchanged; one without is the same wall-clock time in UTC (`us` is the
    instant a naive value denotes when read as UTC, so it is kept and the offset becomes 0); a bare
    date is midnight UTC of that day; an empty `valid_until` stays empty -/
theorem validity_reading :
    (∀ us off v, LoadedAs (.ts us (some off)) v ↔ v = .ts us (some off)) ∧
    (∀ us v, LoadedAs (.ts us none) v ↔ v = .ts us (some 0)) ∧
    (∀ d v, LoadedAs (.date d) v ↔ v = .ts (d * (86400 * 1000000)) (some 0)) ∧
    (∀ v, LoadedAs .null v ↔ v = .null) :=
  ⟨fun _ _ _ => Iff.rfl, fun _ _ => Iff.rfl, fun _ _ => Iff.rfl, fun _ => Iff.rfl⟩

/-- **validity_loaded_aware.**  For EVERY configuration that loads and every key definition of it:
    * the loaded `valid_from` is an AWARE instant, and the loaded `valid_until` is empty or an aware
      instant — a loaded validity is never a `datetime` without time zone, whatever was configured
      (timestamp, bare date, text, Unix time …);
    * the loaded key definition comes from the configured key definition of the same name
      (`keys.<name>` of the file, `ksk_keys` after `_transform_config`), and each loaded validity is
      the documented reading `LoadedAs` of the configured one: an aware configured value is loaded
      unchanged (same instant, same offset), a naive one as the same wall-clock time in UTC, a bare
      date as midnight UTC; an omitted `valid_until` is loaded empty. -/
theorem validity_loaded_aware (fe : String → Bool) (c loaded ks kname key : CVal) (keys : List (CVal × CVal))
    (h : fromDict (realEnv fe) c = .ok loaded)
    (hg : loaded.get? "ksk_keys" = some ks) (hks : ks = .map keys) (hk : (kname, key) ∈ keys) :
    (∀ v, key.get? "valid_from" = some v → ∃ us off, v = .ts us (some off)) ∧
    (∀ v, key.get? "valid_until" = some v → v = .null ∨ ∃ us off, v = .ts us (some off)) ∧
    ∃ kvs ksIn keyIn, transformConfig (realEnv fe).kskTtlFallback c = .ok kvs ∧
      CVal.lookupStr kvs "ksk_keys" = some (.map ksIn) ∧ (kname, .map keyIn) ∈ ksIn ∧
      (∀ v, key.get? "valid_from" = some v →
        ∃ x, CVal.lookupStr keyIn "valid_from" = some x ∧ LoadedAs x v) ∧
      (∀ v, key.get? "valid_until" = some v →
        (CVal.lookupStr keyIn "valid_until" = none ∧ v = .null) ∨
        ∃ x, CVal.lookupStr keyIn "valid_until" = some x ∧ LoadedAs x v) := by
  obtain ⟨kvs, ksIn, keyIn, ht, hl, hmem, htr⟩ := key_option_traced fe c loaded ks kname key keys h hg hks hk
  have tyFrom : schemaFieldTy KskmGen.configSchema "KSKKey" "valid_from" = some (.scalar [.datetime]) := by decide
  have tyUntil : schemaFieldTy KskmGen.configSchema "KSKKey" "valid_until" = some (.scalar [.datetime, .null]) := by decide
  have dFrom : (schemaDefault KskmGen.configSchema "KSKKey" "valid_from").isNone = true := by decide
  have dUntil : (schemaDefault KskmGen.configSchema "KSKKey" "valid_until").map CVal.isNull = some true := by decide
  -- the two options, each traced to what was configured
  have from_ : ∀ v, key.get? "valid_from" = some v →
      (∃ us off, v = .ts us (some off)) ∧ ∃ x, CVal.lookupStr keyIn "valid_from" = some x ∧ LoadedAs x v := by
    intro v hgv
    obtain ⟨s, f, hs, hf, hor⟩ := htr "valid_from" v hgv
    rcases hor with ⟨_, hd⟩ | ⟨x, y, hlx, hy, hv⟩
    · rw [(fieldTy_of _ _ _ _ _ hs hf).2, hd] at dFrom
      cases dFrom
    · obtain ⟨h1, h2⟩ := validity_option fe s f "valid_from" [] x y v hs hf tyFrom (Or.inl rfl)
        after_validators_pinned.2.1 hy hv
      refine ⟨?_, x, hlx, h2⟩
      rcases h1 with rfl | h1
      · -- `valid_from` is never empty: `null` is not of its type
        exfalso
        obtain ⟨e1, _⟩ := fieldTy_of _ _ _ _ _ hs hf
        have hfty : f.ty = .scalar [.datetime] := by
          have : some f.ty = some (STy.scalar [.datetime]) := by rw [← tyFrom]; exact e1.symm
          injection this
        have hc := validate_sound _ _ _ _ _ _ hy
        rw [hfty] at hc
        obtain ⟨a, ha, hok⟩ := conforms_scalar _ 4 _ y hc
        simp only [List.mem_cons, List.not_mem_nil, or_false] at ha
        subst ha
        obtain ⟨u, o, rfl⟩ := hok
        unfold applyNaiveIsUtc at hv
        split at hv
        · cases o <;> simp at hv
        · cases hv
      · exact h1
  have until_ : ∀ v, key.get? "valid_until" = some v →
      (v = .null ∨ ∃ us off, v = .ts us (some off)) ∧
      ((CVal.lookupStr keyIn "valid_until" = none ∧ v = .null) ∨
        ∃ x, CVal.lookupStr keyIn "valid_until" = some x ∧ LoadedAs x v) := by
    intro v hgv
    obtain ⟨s, f, hs, hf, hor⟩ := htr "valid_until" v hgv
    rcases hor with ⟨hnone, hd⟩ | ⟨x, y, hlx, hy, hv⟩
    · rw [(fieldTy_of _ _ _ _ _ hs hf).2, hd] at dUntil
      have hvn : v = .null := by cases v <;> simp [CVal.isNull] at dUntil ⊢
      exact ⟨Or.inl hvn, Or.inl ⟨hnone, hvn⟩⟩
    · obtain ⟨h1, h2⟩ := validity_option fe s f "valid_until" [.null] x y v hs hf tyUntil (Or.inr rfl)
        after_validators_pinned.2.2.1 hy hv
      exact ⟨h1, Or.inr ⟨x, hlx, h2⟩⟩
  exact ⟨fun v hv => (from_ v hv).1, fun v hv => (until_ v hv).1, kvs, ksIn, keyIn, ht, hl, hmem,
    fun v hv => (from_ v hv).2, fun v hv => (until_ v hv).2⟩

/-- the loaded validity of `keys.<k>.<f>`: (instant µs, UTC offset s) -/
def validityOf (r : Res CVal) (k f : String) : Option (Int × Option Int) :=
  match ((r.toOption.bind (·.get? "ksk_keys")).bind (·.get? k)).bind (·.get? f) with
  | some (.ts us off) => some (us, off)
  | _ => none

/-- key definitions spelling 2010-07-15T00:00:00 in the five ways a file can: without designator, with
    `Z` / `+00:00` (offset 0), with `+02:00` (the instant two hours earlier), as a bare date, and as a
    quoted text without designator -/
def exValidityConfig : CVal :=
  let key (vf : CVal) (rest : List (CVal × CVal)) : CVal :=
    .map ([(.str "description", .str "d"), (.str "label", .str "L"), (.str "algorithm", .str "RSASHA256"),
           (.str "valid_from", vf)] ++ rest)
  .map [(.str "keys", .map [
    (.str "naive", key (.ts 1279152000000000 none) [(.str "valid_until", .ts 1310688000000000 none)]),
    (.str "zulu", key (.ts 1279152000000000 (some 0)) [(.str "valid_until", .null)]),
    (.str "plus2", key (.ts 1279144800000000 (some 7200)) [(.str "valid_until", .ts 1310680800000000 (some 7200))]),
    (.str "bare", key (.date 14805) [(.str "valid_until", .date 15170)]),
    (.str "text", key (.str "2010-07-15T00:00:00") [])])]

/-- non-vacuity, and the five spellings computed: the configuration loads; no designator, `Z`, the
    bare date and the text all load as 2010-07-15T00:00:00 UTC (offset 0), `+02:00` keeps its own
    instant and offset; no loaded validity is naive -/
example :
    let r := fromDict (realEnv fun _ => false) exValidityConfig
    loads r = true ∧
    validityOf r "naive" "valid_from" = some (1279152000000000, some 0) ∧
    validityOf r "naive" "valid_until" = some (1310688000000000, some 0) ∧
    validityOf r "zulu" "valid_from" = some (1279152000000000, some 0) ∧
    validityOf r "zulu" "valid_until" = none ∧
    validityOf r "plus2" "valid_from" = some (1279144800000000, some 7200) ∧
    validityOf r "plus2" "valid_until" = some (1310680800000000, some 7200) ∧
    validityOf r "bare" "valid_from" = some (1279152000000000, some 0) ∧
    validityOf r "bare" "valid_until" = some (1310688000000000, some 0) ∧
    validityOf r "text" "valid_from" = some (1279152000000000, some 0) ∧
    validityOf r "text" "valid_until" = none := by
  decide +kernel

/-! ## 4. One flag, one check -/

/-- which rule function reads which boolean option, by `ast` over the rule files: every whole-check
    flag is consulted by exactly one function — the one documented for it -/
theorem flag_readers_documented :
    KskmGen.flagReaders = [
      ("validate_signatures", ["verify_bundles.check_proof_of_possession"]),
      ("keys_match_zsk_policy", ["verify_bundles.check_keys_match_zsk_policy"]),
      ("rsa_exponent_match_zsk_policy", ["verify_bundles.check_keys_match_zsk_policy"]),
      ("enable_unsupported_ecdsa", ["verify_policy.check_zsk_policy_algorithm"]),
      ("enable_unsupported_edwards_dsa", ["verify_policy.check_zsk_policy_algorithm"]),
      ("check_cycle_length", ["verify_bundles.check_cycle_durations"]),
      ("check_bundle_overlap", ["verify_policy.check_bundle_overlaps"]),
      ("signature_algorithms_match_zsk_policy", ["verify_policy.check_zsk_policy_algorithm"]),
      ("signature_validity_match_zsk_policy", ["verify_policy.check_signature_validity"]),
      ("check_keys_match_ksk_operator_policy", ["verify_policy.check_keys_in_bundles"]),
      ("signature_check_expire_horizon", ["verify_policy.check_signature_horizon"]),
      ("check_bundle_intervals", ["verify_policy.check_bundle_intervals"]),
      ("check_chain_keys", ["verify_chain.check_chain_keys"]),
      ("check_chain_keys_in_hsm", ["verify_chain.check_last_skr_key_present"]),
      ("check_chain_overlap", ["verify_chain.check_chain_overlap"]),
      ("check_keys_publish_safety", ["policy.check_publish_safety"]),
      ("check_keys_retire_safety", ["policy.check_retire_safety"])] := by decide

/-- **flag_independence.**  For every request / previous SKR / new SKR / token / clock, every policy
    and each of the fourteen whole-check flags `f`: the set of failing checks under the policy with
    only `f` set to false is the set of failing checks under the policy itself minus the check `f`
    guards — that check no longer fails, and no other check changes its verdict (not even the error
    it reports: `runCheck_setOff_other` is an equality of results). -/
theorem flag_independence (ctx : Ctx) (pol : RequestPolicy) (f : Flag) (k : Check) :
    runCheck ctx (f.setOff pol) k ≠ .ok () ↔ (runCheck ctx pol k ≠ .ok () ∧ k ≠ f.guards) := by
  by_cases hk : k = f.guards
  · subst hk
    simp [runCheck_setOff_own]
  · rw [runCheck_setOff_other ctx pol f k hk]
    simp [hk]

/-- the three composite validations are exactly the conjunction of their checks (so a check's
    verdict — in particular a switched-off check's `ok` — cannot hide another's rejection) -/
theorem validateRequest_iff_checks (ctx : Ctx) (pol : RequestPolicy) :
    validateRequest ctx.verify ctx.now ctx.req pol = .ok () ↔ ∀ k ∈ requestChecks, runCheck ctx pol k = .ok () := by
  rw [C05.validateRequest_ok_iff, checkZskPolicyAlgorithm_split, seq_ok_iff]
  simp only [requestChecks, List.mem_cons, List.not_mem_nil, or_false, forall_eq_or_imp, forall_eq, runCheck]
  constructor
  · rintro ⟨h1, h2, h3, h4, h5, h6, h7, ⟨h8, h9⟩, h10, h11, h12, h13⟩
    exact ⟨h1, h2, h3, h4, h5, h6, h7, h8, h9, h10, h11, h12, h13⟩
  · rintro ⟨h1, h2, h3, h4, h5, h6, h7, h8, h9, h10, h11, h12, h13⟩
    exact ⟨h1, h2, h3, h4, h5, h6, h7, ⟨h8, h9⟩, h10, h11, h12, h13⟩

theorem checkSkrAndKsr_iff_checks (ctx : Ctx) (pol : RequestPolicy) :
    checkSkrAndKsr ctx.req ctx.last pol ctx.tok = .ok () ↔ ∀ k ∈ chainChecks, runCheck ctx pol k = .ok () := by
  unfold checkSkrAndKsr
  simp only [seq_ok_iff, chainChecks, List.mem_cons, List.not_mem_nil, or_false, forall_eq_or_imp, forall_eq,
    runCheck]

theorem checkLastSkrAndNewSkr_iff_checks (ctx : Ctx) (pol : RequestPolicy) :
    checkLastSkrAndNewSkr ctx.last ctx.new pol = .ok () ↔ ∀ k ∈ safetyChecks, runCheck ctx pol k = .ok () := by
  unfold checkLastSkrAndNewSkr
  simp only [seq_ok_iff, safetyChecks, List.mem_cons, List.not_mem_nil, or_false, forall_eq_or_imp, forall_eq,
    runCheck]

/-- consequently: with one flag off, `validate_request` accepts exactly when every check other than
    the one that flag guards accepts under the original policy -/
theorem flag_off_validateRequest (ctx : Ctx) (pol : RequestPolicy) (f : Flag) :
    validateRequest ctx.verify ctx.now ctx.req (f.setOff pol) = .ok () ↔
      ∀ k ∈ requestChecks, k ≠ f.guards → runCheck ctx pol k = .ok () := by
  rw [validateRequest_iff_checks]
  constructor
  · intro h k hk hne
    rw [← runCheck_setOff_other ctx pol f k hne]
    exact h k hk
  · intro h k hk
    by_cases hne : k = f.guards
    · subst hne; exact runCheck_setOff_own ctx pol f
    · rw [runCheck_setOff_other ctx pol f k hne]
      exact h k hk hne

/-- the same for the chain rules and for the publish / retire safety rules -/
theorem flag_off_chain_and_safety (ctx : Ctx) (pol : RequestPolicy) (f : Flag) :
    (checkSkrAndKsr ctx.req ctx.last (f.setOff pol) ctx.tok = .ok () ↔
      ∀ k ∈ chainChecks, k ≠ f.guards → runCheck ctx pol k = .ok ()) ∧
    (checkLastSkrAndNewSkr ctx.last ctx.new (f.setOff pol) = .ok () ↔
      ∀ k ∈ safetyChecks, k ≠ f.guards → runCheck ctx pol k = .ok ()) := by
  rw [checkSkrAndKsr_iff_checks, checkLastSkrAndNewSkr_iff_checks]
  constructor <;> constructor
  all_goals first
    | (intro h k hk hne
       rw [← runCheck_setOff_other ctx pol f k hne]
       exact h k hk)
    | (intro h k hk
       by_cases hne : k = f.guards
       · subst hne; exact runCheck_setOff_own ctx pol f
       · rw [runCheck_setOff_other ctx pol f k hne]
         exact h k hk hne)

/-- the honest part: the deprecated / unsupported-algorithm test of `check_zsk_policy_algorithm` is
    NOT switchable — no flag changes it, and with `signature_algorithms_match_zsk_policy` off a KSR
    declaring RSAMD5 is still refused -/
theorem unguarded_algorithm_check_not_switchable (ctx : Ctx) (pol : RequestPolicy) (f : Flag) :
    runCheck ctx (f.setOff pol) .zskAlgBasic = runCheck ctx pol .zskAlgBasic :=
  runCheck_setOff_other ctx pol f .zskAlgBasic (by cases f <;> decide)

example : checkZskPolicyAlgorithm
    { id := "r", serial := 1, domain := ".", bundles := [],
      zskPolicy := { algorithms := [{ kind := .rsa, bits := 2048, algorithm := 1, exponent := some 65537 }] } }
    (Flag.setOff documentedRequestPolicy .signatureAlgorithmsMatchZskPolicy) = violation .policyAlg := by
  decide +kernel

/-! ### the one switch that is not a whole check: `rsa_exponent_match_zsk_policy`

`flag_independence` / `flag_off_validateRequest` above speak about the fourteen flags that switch a
whole check, for EVERY request (in particular requests violating several rules at once).  The
fifteenth option, `rsa_exponent_match_zsk_policy`, lives INSIDE KSR-BUNDLE-KEYS: it waives one
comparison of the per-key test.  The statements below say that it waives that comparison and
nothing else — no other check reads it, and within KSR-BUNDLE-KEYS the flags / key-tag clause
(`C06.FlagsTagClause`, which does not mention the policy), the algorithm and the size comparison
and the identifier-consistency clause stay in force — again for every request, so also for a key
that has the wrong exponent AND a wrong key tag. -/

/-- the policy with exactly `rsa_exponent_match_zsk_policy` set to `false` -/
def expOff (pol : RequestPolicy) : RequestPolicy := { pol with rsaExponentMatchZskPolicy := false }

/-- no check other than KSR-BUNDLE-KEYS changes its result (not even the error it reports) -/
theorem exponent_flag_other_checks (ctx : Ctx) (pol : RequestPolicy) (k : Check) (hk : k ≠ .keysMatchZsk) :
    runCheck ctx (expOff pol) k = runCheck ctx pol k := by
  cases k <;> first | rfl | exact absurd rfl hk

/-- keys of the other families are judged exactly as before -/
theorem exponent_flag_other_families (req : Request) (pol : RequestPolicy) (k : Key)
    (hal : isAlgorithmRsa k.algorithm = false) :
    checkNewKey req (expOff pol) k = checkNewKey req pol k := by
  simp [checkNewKey, hal]

/-- **with the exponent switch off an RSA key passes exactly when its flags are 256, its stated key
    tag is the computed one, and its algorithm and modulus size are those of a declared RSA
    algorithm** — the exponent comparison is the only clause dropped (compare
    `C06.checkNewKey_rsa_iff`, where the clause reads `a.exponent = some pub.exponent ∨ switch off`) -/
theorem exponent_flag_waives_exponent_only (req : Request) (pol : RequestPolicy) (k : Key)
    (hal : k.algorithm ∈ KskmGen.rsaAlgorithms) :
    checkNewKey req (expOff pol) k = .ok () ↔
      C06.FlagsTagClause k ∧
      ∃ pk pub, Base64.decode k.publicKey = some pk ∧ rsaDecodeBytes pk = .ok pub ∧
        ∃ a ∈ req.zskPolicy.algorithms, a.kind = .rsa ∧ a.algorithm = k.algorithm ∧
          a.bits = (pub.bits : Int) := by
  rw [C06.checkNewKey_rsa_iff req (expOff pol) k hal]
  simp [C06.RsaParamsClause, expOff]

/-- for the whole request (any key family, any number of violated rules): KSR-BUNDLE-KEYS with the
    exponent switch off still demands flags 256 and a correct key tag of EVERY key of EVERY bundle,
    and that an identifier denotes one key -/
theorem exponent_flag_keeps_flags_and_tags (req : Request) (pol : RequestPolicy)
    (hf : pol.keysMatchZskPolicy = true)
    (h : checkKeysMatchZskPolicy req (expOff pol) = .ok ()) :
    (∀ k ∈ allKeys req, C06.FlagsTagClause k) ∧ C06.IdentifierConsistent req := by
  have h' := (C06.keysMatch_iff req (expOff pol) hf).mp h
  refine ⟨fun k hk => ?_, h'.2⟩
  have hk' := h'.1 k hk
  rw [C06L.checkNewKey_eq, seq_ok_iff] at hk'
  exact (C06.keyFlagsTag_iff k).mp hk'.2

/-- consequently: with the exponent switch off, `validate_request` accepts exactly when every other
    check accepts under the original policy and KSR-BUNDLE-KEYS accepts with the exponent waived -/
theorem exponent_flag_off_validateRequest (ctx : Ctx) (pol : RequestPolicy) :
    validateRequest ctx.verify ctx.now ctx.req (expOff pol) = .ok () ↔
      (∀ k ∈ requestChecks, k ≠ .keysMatchZsk → runCheck ctx pol k = .ok ()) ∧
      checkKeysMatchZskPolicy ctx.req (expOff pol) = .ok () := by
  rw [validateRequest_iff_checks]
  constructor
  · intro h
    refine ⟨fun k hk hne => ?_, ?_⟩
    · rw [← exponent_flag_other_checks ctx pol k hne]; exact h k hk
    · exact h .keysMatchZsk (by simp [requestChecks])
  · rintro ⟨h1, h2⟩ k hk
    by_cases hne : k = .keysMatchZsk
    · subst hne; exact h2
    · rw [exponent_flag_other_checks ctx pol k hne]; exact h1 k hk hne

/-- a request declaring exponent 65537 for a key whose exponent is 3 (C06's toy key) -/
def exMismatchReq : Request :=
  { C06.exReq with
    zskPolicy := { algorithms := [{ kind := .rsa, bits := 64, algorithm := 8, exponent := some 65537 }] },
    bundles := [C06.exBundle 0 [C06.exKey "zsk1"]] }

/-- refused with the switch on, accepted with it off … -/
example : checkNewKey exMismatchReq C06.exPol (C06.exKey "zsk1") = violation .bundleKeys := by decide +kernel
example : checkNewKey exMismatchReq (expOff C06.exPol) (C06.exKey "zsk1") = .ok () := by decide +kernel
/-- … and the same key with a wrong key tag, or with non-ZSK flags, is still refused with it off -/
example : checkNewKey exMismatchReq (expOff C06.exPol) { C06.exKey "zsk1" with keyTag := 38685 }
    = violation .bundleKeys := by decide +kernel
example : checkNewKey exMismatchReq (expOff C06.exPol) { C06.exKey "zsk1" with flags := 257 }
    = violation .bundleKeys := by decide +kernel

/-! ## 5. Exit status -/

def exitCodes : ExitCodes := { success := 0, interrupt := 1, config := 2, fatal := 3 }

theorem exit_codes_table : exitCodesOf KskmGen.exitCodes = some exitCodes := by decide

/-- the full property: whenever the loader reports a configuration OR a schema-validation error,
    the signer exits with the dedicated configuration status, never 0 -/
def ConfigErrorStatus (validationCaught : Bool) : Prop :=
  ∀ o, (o = LoaderOutcome.configurationError ∨ o = LoaderOutcome.validationError) → ∀ restOk,
    mainStatus exitCodes validationCaught o restOk = exitCodes.config ∧
    mainStatus exitCodes validationCaught o restOk ≠ exitCodes.success

/-- what still holds when `ValidationError` is not caught: the ConfigurationError class has the
    dedicated status, and a schema-validation error exits non-zero — with the status CPython gives
    an uncaught exception, which is also the "interrupt" status -/
def ConfigErrorStatusPartial (validationCaught : Bool) : Prop :=
  (∀ restOk, mainStatus exitCodes validationCaught .configurationError restOk = exitCodes.config) ∧
  (∀ restOk, mainStatus exitCodes validationCaught .validationError restOk ≠ exitCodes.success) ∧
  (∀ restOk, mainStatus exitCodes validationCaught .validationError restOk = exitCodes.interrupt)

/-- **config_error_status**, repaired behaviour (`main` catches `pydantic.ValidationError`). -/
theorem config_error_status_fixed : ConfigErrorStatus true := by
  intro o ho restOk
  rcases ho with rfl | rfl <;> simp [mainStatus, exitCodes]

/-- **config_error_status** is FALSE of the pinned behaviour (F3): the witness is the
    schema-validation outcome, which exits 1. -/
theorem config_error_status_pinned : ¬ ConfigErrorStatus false ∧ ConfigErrorStatusPartial false := by
  constructor
  · intro h
    have := (h .validationError (Or.inr rfl) false).1
    simp [mainStatus, exitCodes, uncaughtExceptionStatus] at this
  · refine ⟨?_, ?_, ?_⟩ <;> intro restOk <;> simp [mainStatus, exitCodes, uncaughtExceptionStatus]

/-- the switch as observed on the code now -/
def validationCaught : Bool := validationCaughtOf KskmGen.exitStatusObserved KskmGen.exitCodes

/-- **config_error_status**, for the value of the switch tabulated from the code on this run:
    repaired ⇒ the full property; pinned ⇒ its negation (with the witness) and the partial one. -/
theorem config_error_status :
    (validationCaught = true → ConfigErrorStatus validationCaught) ∧
    (validationCaught = false → ¬ ConfigErrorStatus validationCaught ∧ ConfigErrorStatusPartial validationCaught) := by
  constructor
  · intro h; rw [h]; exact config_error_status_fixed
  · intro h; rw [h]; exact config_error_status_pinned

/-- The tree as it is now catches the schema-validation error (F3 repaired, /repo 0b69a0c): the full
    property holds.  A regression flips the regenerated table and breaks this `decide`; the
    correspondence run then exhibits the configuration and the status (stream `main`). -/
theorem validation_error_is_caught_now : validationCaught = true := by decide

theorem config_error_status_now : ConfigErrorStatus validationCaught :=
  config_error_status.1 validation_error_is_caught_now

/-- **nonzero_on_any_loader_failure.**  Whatever the loader reports other than a configuration
    (missing file, configuration error, validation error, any other exception, interrupt), and
    whichever way the switch stands, the exit status is not 0. -/
theorem nonzero_on_any_loader_failure (caught : Bool) (o : LoaderOutcome) (restOk : Bool)
    (h : o ≠ .loaded) : mainStatus exitCodes caught o restOk ≠ 0 := by
  cases o <;> cases caught <;> simp_all [mainStatus, exitCodes, uncaughtExceptionStatus]

/-- and a rejected configuration never exits 0: `fromDict` failing (any error class the model
    judges) gives a non-zero status -/
theorem rejected_configuration_exits_nonzero (env : Env) (c : CVal) (caught restOk : Bool) (o : LoaderOutcome)
    (hrej : ∀ r, fromDict env c ≠ .ok r) (ho : outcomeOf (fromDict env c) = some o) :
    mainStatus exitCodes caught o restOk ≠ 0 := by
  apply nonzero_on_any_loader_failure
  intro hl
  subst hl
  cases hf : fromDict env c with
  | ok r => exact hrej r hf
  | error e =>
    rw [hf] at ho
    cases e with
    | violation r => simp [outcomeOf] at ho
    | unsupported => simp [outcomeOf] at ho
    | error k => cases k <;> simp [outcomeOf] at ho

/-- the model's `main` reproduces the four statuses observed by running the real one -/
theorem observed_statuses_explained :
    List.lookup "configuration_error" KskmGen.exitStatusObserved
      = some (mainStatus exitCodes validationCaught .configurationError false) ∧
    List.lookup "validation_error" KskmGen.exitStatusObserved
      = some (mainStatus exitCodes validationCaught .validationError false) ∧
    List.lookup "missing_file" KskmGen.exitStatusObserved
      = some (mainStatus exitCodes validationCaught .fileNotFound false) ∧
    List.lookup "malformed_yaml" KskmGen.exitStatusObserved
      = some (mainStatus exitCodes validationCaught .otherException false) := by decide

/-! ## 8. Coercions decided exactly (wave B3): what pydantic makes of numbers and of text that is not the documented spelling

  The classes below were `unsupported` before; the model now answers them like pydantic 2.13 /
  pydantic-core 2.46 does (established by experiment, re-checked on every run by the `coercion`,
  `scalar`, `duration` and `duration-direct` streams of harness/corr_C16.py).  The theorems say what
  the property needs of them: nothing is accepted that does not state the loaded value, and what is
  refused is refused before anything is read. -/

/-- **numeric_validity_exact** (all integers).  A validity (`valid_from` / `valid_until`) given as a whole
    number is loaded iff it is a unix time within the years 1–9999 — seconds when `|i| ≤ 2·10^10`,
    otherwise milliseconds — and then as exactly that instant, in UTC (never without time zone). -/
theorem numeric_validity_exact (i us : Int) (off : Option Int) :
    pydDatetimeOfNumber i = some (us, off) ↔
      off = some 0 ∧
      us = (if -20000000000 ≤ i ∧ i ≤ 20000000000 then i * 1000000 else i * 1000) ∧
      -62135596800000000 ≤ us ∧ us ≤ 253402300799999999 :=
  pydDatetimeOfNumber_iff i us off

example : pydDatetimeOfNumber 1500000000 = some (1500000000000000, some 0) ∧
    pydDatetimeOfNumber 1500000000123 = some (1500000000123000, some 0) ∧
    pydDatetimeOfNumber 20000000001 = some (20000000001000, some 0) ∧
    pydDatetimeOfNumber (-62135596800000) = some (-62135596800000000, some 0) ∧
    pydDatetimeOfNumber (-62135596800001) = none ∧ pydDatetimeOfNumber 253402300800000 = none := by decide +kernel

/-- **whole_seconds_duration_exact** (all integers in the `timedelta` range Python can negate).  A duration
    option given as whole seconds `i`, `-999 999 999 d ≤ i s < 10^9 d`, is loaded as exactly `i` seconds. -/
theorem whole_seconds_duration_exact (i : Int)
    (hlo : -(999999999 * 86400) ≤ i) (hhi : i < 1000000000 * 86400) :
    pydDurationOfSeconds i = .ok (some (i * 1000000)) :=
  pydDurationOfSeconds_in_range i hlo hhi

example : pydDurationOfSeconds 950400 = .ok (some (11 * usPerDay)) ∧
    pydDurationOfSeconds (-86399999913600) = .ok (some (-(999999999 * usPerDay))) := by decide +kernel

/-- **whole_seconds_duration_in_range** (all integers).  Whatever whole number of seconds is accepted,
    the loaded duration is a representable `timedelta` (`-999 999 999 d ≤ td < 10^9 d`). -/
theorem whole_seconds_duration_in_range (i u : Int) (h : pydDurationOfSeconds i = .ok (some u)) :
    tdRangeOk u = true :=
  pydDurationOfSeconds_some_in_td_range i u h

/-- The hypothesis `i < 10^9 d` of `whole_seconds_duration_exact` is NEEDED: beyond it pydantic's day
    count is a 32-bit number that wraps, so `2^32` days of seconds are loaded as the zero duration (and
    one day more as one day), while `10^9` days are refused and `-(10^9 - 1) d - 1 s` raises
    `OverflowError`.  (A bare number is not a documented spelling of a duration — config/ksrsigner.yaml
    documents ISO 8601 text —, so the property's "loaded exactly" does not speak about it; the `coercion`
    stream records these as `quirk:td-int:…`.) -/
theorem whole_seconds_duration_wraps :
    pydDurationOfSeconds (4294967296 * 86400) = .ok (some 0) ∧
    pydDurationOfSeconds (4294967297 * 86400) = .ok (some usPerDay) ∧
    pydDurationOfSeconds (1000000000 * 86400) = .ok none ∧
    pydDurationOfSeconds (-(999999999 * 86400) - 1) = .error (.error .overflow) ∧
    pydDurationOfSeconds 9223372036854775808 = .ok none := by decide +kernel

/-- **float_integer_option_exact** (all integral floats).  An integer option given as an integral float
    is loaded iff the float lies strictly between `-2^63` and `2^63`, and then as that whole number. -/
theorem float_integer_option_exact (i j : Int) :
    laxInt (.float (some i) true) = .ok (some j) ↔ j = i ∧ -9223372036854775808 < i ∧ i < 9223372036854775808 :=
  laxInt_float_iff i j

/-- a float with a fraction, an infinity or a NaN is never an integer -/
theorem fractional_float_integer_refused (t : Option Int) : laxInt (.float t false) = .ok none := by
  simp [laxInt, pure, Except.pure]

example : laxInt (.float (some 9223372036854774784) true) = .ok (some 9223372036854774784) ∧
    laxInt (.float (some 9223372036854775808) true) = .ok none ∧
    laxInt (.float (some 100000000000000000000) true) = .ok none := by decide +kernel

/-- **integer_text_is_numeric_only** (all strings).  Whatever text is loaded as an integer option consists —
    inside the white space pydantic trims — of ASCII digits, `_`, `.`, `+` and `-` only: no letter, no
    exponent, no hexadecimal, no inner blank, no non-ASCII digit is ever read as a number.
    Partial: about the answers the model GIVES (it declines text longer than 4300 characters and, over
    `[0-9_+-]`, a sign after a leading zero — there pydantic-core reads `0-6` as -6, see
    `integer_text_leading_zero_table` and `quirk:int-text:…` in the `coercion` stream). -/
theorem integer_text_is_numeric_only_partial (s : String) (i : Int) (h : pydStrInt s = .ok (some i)) :
    ∀ c ∈ trimBy isRustWhitespace s.toList, isAsciiDigit c = true ∨ c ∈ ['_', '.', '+', '-'] :=
  pydStrInt_some_chars s i h

example : pydStrInt " +1_000.0\u2028" = .ok (some 1000) := by decide +kernel

/-- **integer text** — the accepted spellings pinned: Unicode white space around, one sign, single
    underscores between digits (any run of zeros and underscores after a leading zero), a `.0…` suffix, any
    magnitude; nothing else (no second sign, no exponent,
    no other fraction, no inner space, no non-ASCII digit, U+001C is not white space here). -/
theorem integer_text_table :
    pydStrInt " 12" = .ok (some 12) ∧ pydStrInt "12\u2028" = .ok (some 12) ∧ pydStrInt "-007" = .ok (some (-7)) ∧
    pydStrInt "+1_000" = .ok (some 1000) ∧ pydStrInt "1_2.00" = .ok (some 12) ∧ pydStrInt "-0.0" = .ok (some 0) ∧
    pydStrInt "18446744073709551616" = .ok (some 18446744073709551616) ∧
    pydStrInt "--1" = .ok none ∧ pydStrInt "1__0" = .ok none ∧ pydStrInt "_1" = .ok none ∧ pydStrInt "1_" = .ok none ∧
    pydStrInt "12." = .ok none ∧ pydStrInt ".0" = .ok none ∧ pydStrInt "12.5" = .ok none ∧ pydStrInt "12.0_0" = .ok none ∧
    pydStrInt "1e3" = .ok none ∧ pydStrInt "0x10" = .ok none ∧ pydStrInt "1 2" = .ok none ∧ pydStrInt "" = .ok none ∧
    pydStrInt "+" = .ok none ∧ pydStrInt "١٢" = .ok none ∧ pydStrInt "12\x1c" = .ok none := by
  refine ⟨?_, ?_, ?_, ?_, ?_, ?_, ?_, ?_, ?_, ?_, ?_, ?_, ?_, ?_, ?_, ?_, ?_, ?_, ?_, ?_, ?_, ?_⟩ <;> decide +kernel

/-- … and the leading-zero quirk: after a leading zero any run of zeros and underscores is skipped, so
    `0__5` is 5 although `1__0` is refused; a sign after that run (`0_-5`, which pydantic-core reads as -5,
    while it refuses `0-05`) is not modelled -/
theorem integer_text_leading_zero_table :
    pydStrInt "0__5" = .ok (some 5) ∧ pydStrInt "-0_0__5_0.0" = .ok (some (-50)) ∧ pydStrInt "0__" = .ok none ∧
    pydStrInt "0__5__6" = .ok none ∧ pydStrInt "0_0" = .ok (some 0) ∧ pydStrInt "0_-5" = .error .unsupported := by
  decide +kernel

/-- **negative_ttl_refused_any_spelling** (all values, strict or lax).  Whatever a `ge=0` integer option
    (`dns_ttl`, `ttl`) is given — a number, a float, text in any of the spellings above — what is loaded
    is a non-negative integer. -/
theorem negative_ttl_refused_any_spelling (env : Env) (strict : Bool) (v r : CVal)
    (h : valScalar env strict (.int (some 0) none none) v = .ok (some r)) : ∃ i, r = .int i ∧ 0 ≤ i := by
  obtain ⟨i, hi, hb⟩ := valScalar_sound env strict _ v r h
  exact ⟨i, hi, by simpa [inBounds] using hb⟩

example : laxInt (.str " -1 ") = .ok (some (-1)) ∧ laxInt (.str "-1_0.0") = .ok (some (-10)) ∧
    inBounds (some 0) none none (-1) = false ∧ laxInt (.str "-0.0") = .ok (some 0) ∧
    inBounds (some 0) none none 0 = true := by decide +kernel

/-- **accepted_duration_text_is_iso_only** (all strings).  Whatever text pydantic's duration parser is
    modelled to accept consists of ASCII digits and the ISO 8601 designators `P T Y M W D H S` (with
    one sign) only: text with white space anywhere, lower-case designators, a time-zone or date
    separator, a non-ASCII character … is never loaded as a duration.
    Partial: this is about the answers the model GIVES; for text with a `.`/`,` fraction after `P` and for
    speedate's non-ISO spellings (`3d`, `1 day, 10:20:30`, `95:13` — made of `[0-9:., dDaAyYsS]` with a
    `d`/`D`/`:`) the model answers `unsupported` and the implementation is judged by the oracle alone. -/
theorem accepted_duration_text_is_iso_only_partial (s : String) (u : Int) (h : pydDuration s = .ok (some u)) :
    ∀ c ∈ s.toList, isAsciiDigit c = true ∨ c ∈ ['P', 'T', 'Y', 'M', 'W', 'D', 'H', 'S', '+', '-'] :=
  pydDuration_some_chars s u h

example : pydDuration "-P1W2DT3H" = .ok (some (-((9 * 24 + 3) * 3600 * 1000000))) ∧
    pydDuration " P1D" = .ok none ∧ pydDuration "P1D " = .ok none ∧ pydDuration "P1d" = .ok none ∧
    pydDuration "P 1D" = .ok none ∧ pydDuration "86400" = .ok none ∧ pydDuration "1.5" = .ok none ∧
    pydDuration "2010-07-15T00:00:00" = .ok none ∧ pydDuration "T1S" = .ok none ∧ pydDuration "P1DT1x" = .ok none ∧
    pydDuration "+P1D\n" = .ok none := by decide +kernel

/-- **validity text** — the ISO shapes pinned: `,` as fraction mark, fraction digits beyond the sixth
    dropped, U+2212 as minus sign, zone hours ≤ 23 and minutes ≤ 59; no trimming, no other separator, no
    single-digit fields, no leap second, no hour 24, no year 0 / five-digit year, no compact form -/
theorem validity_text_table :
    pydDatetime "2010-07-15T00:00:00,5" = .ok (some (1279152000500000, none)) ∧
    pydDatetime "2010-07-15T00:00:00.1234569Z" = .ok (some (1279152000123456, some 0)) ∧
    pydDatetime "2010-07-15T00:00:00\u221202:00" = .ok (some (1279159200000000, some (-7200))) ∧
    pydDatetime "2010-07-15T00:00:00+23:59" = .ok (some (1279152000000000 - 86340000000, some 86340)) := by
  decide +kernel

theorem validity_text_refused_table :
    pydDatetime " 2010-07-15T00:00:00" = .ok none ∧ pydDatetime "2010-07-15T00:00:00 " = .ok none ∧
    pydDatetime "2010-07-15X00:00:00" = .ok none ∧ pydDatetime "2010-7-15T00:00:00" = .ok none ∧
    pydDatetime "2010-07-15T00:00:60" = .ok none ∧ pydDatetime "2010-07-15T24:00:00" = .ok none ∧
    pydDatetime "2010-07-15T00:00:00+24:00" = .ok none ∧ pydDatetime "2010-07-15T00:00:00+02" = .ok none ∧
    pydDatetime "0000-01-01T00:00:00" = .ok none ∧ pydDatetime "10000-01-01T00:00:00" = .ok none ∧
    pydDatetime "20100715T000000Z" = .ok none ∧ pydDatetime "2010-02-30" = .ok none ∧
    pydDatetime "1_000" = .ok none ∧ pydDatetime "--1" = .ok none := by
  refine ⟨?_, ?_, ?_, ?_, ?_, ?_, ?_, ?_, ?_, ?_, ?_, ?_, ?_, ?_⟩ <;> decide +kernel

/-- **non_mapping_configuration_rejected**.  A configuration whose top level is a non-empty string, a
    scalar, or a list with an element that is not a pair, is never loaded — `dict(config)` raises
    before anything is validated (all strings, all scalars, all lists with such an element after any
    number of well-formed pairs). -/
theorem string_configuration_rejected (env : Env) (s : String) (hs : s.isEmpty = false) :
    fromDict env (.str s) = .error (.error .value) :=
  fromDict_string_rejected env s hs

theorem scalar_configuration_rejected (env : Env) :
    fromDict env .null = .error (.error .type) ∧ (∀ b, fromDict env (.bool b) = .error (.error .type)) ∧
    (∀ i, fromDict env (.int i) = .error (.error .type)) ∧ (∀ t g, fromDict env (.float t g) = .error (.error .type)) := by
  refine ⟨?_, ?_, ?_, ?_⟩ <;> intros <;> simp [fromDict, transformConfig, topLevelDict, err, bind, Except.bind]

theorem list_configuration_with_non_pair_rejected (env : Env) (xs ys : List CVal) (x : CVal)
    (hpre : ∀ y ∈ xs, ∃ kv, dictPairOf y = .ok kv)
    (hx : dictPairOf x = .error (.error .type) ∨ dictPairOf x = .error (.error .value)) :
    ∀ r, fromDict env (.list (xs ++ x :: ys)) ≠ .ok r := by
  intro r h
  cases hd : dictOfPairs (xs ++ x :: ys) with
  | ok kvs => exact dictOfPairs_scalar_rejected xs ys x hpre hx kvs hd
  | error e => simp [fromDict, transformConfig, topLevelDict, hd, bind, Except.bind] at h

example : dictPairOf (.int 1) = .error (.error .type) ∧ dictPairOf (.str "abc") = .error (.error .value) ∧
    dictPairOf (.list [.list [.str "a"], .int 1]) = .error (.error .type) ∧
    (∃ kv, dictPairOf (.list [.str "hsm", .map []]) = .ok kv) := by
  refine ⟨by simp [dictPairOf, err], by simp [dictPairOf, err], by simp [dictPairOf, hashable, err], ⟨_, rfl⟩⟩

/-- **path_options_normalised** — a path option is loaded as `str(PurePosixPath(text))`: the same file,
    with empty / `.` segments and a trailing slash dropped (`..` kept, exactly two leading slashes kept) -/
theorem path_text_table :
    posixPathNorm "a/b.xml" = "a/b.xml" ∧ posixPathNorm "" = "." ∧ posixPathNorm "./a" = "a" ∧ posixPathNorm "a/" = "a" ∧
    posixPathNorm "a//b" = "a/b" ∧ posixPathNorm "//a" = "//a" ∧ posixPathNorm "///a" = "/a" ∧ posixPathNorm "/" = "/" ∧
    posixPathNorm "a/../b" = "a/../b" ∧ posixPathNorm ".//." = "." := by decide +kernel

end Kskm.C16
