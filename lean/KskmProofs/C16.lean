/-
  C16 — configuration is validated fail-closed, defaults are the secure documented ones, values are
  loaded exactly, one flag switches off one check, configuration errors have their own exit status.

  The model is Kskm/Config.lean (pydantic modelled, not verified: tied to the code by
  harness/corr_C16.py).  The schema facts used below come from `KskmGen.configSchema`, regenerated
  from `model_json_schema()` / `model_fields` on every run: a changed default, bound, pattern,
  `extra=` setting, field validator or flag reader changes the table and breaks a `decide` here.
-/
import Kskm.Config
import Kskm.Chain
import KskmGen.Tables
import KskmProofs.C05
import KskmProofs.Lemmas.C16Validate
import KskmProofs.Lemmas.C16Flags
namespace Kskm.C16
open Kskm Kskm.Config

/-- the environment of the real loader: regenerated schema and algorithm tables; only the file
    system stays a parameter -/
def realEnv (fileExists : String → Bool) : Env :=
  { tbl := KskmGen.configSchema, algNames := KskmGen.algorithmDNSSEC, fileExists := fileExists }

/-! ## 1. Fail-closed: unknown options -/

/-- every object schema pydantic emits for the configuration forbids additional properties
    (`extra="forbid"`), checked over the whole regenerated table -/
theorem every_object_closed : ∀ s ∈ KskmGen.configSchema, s.additionalProperties = false := by decide

/-- **unknown_option_rejected** (all value trees, all nesting levels).  If anywhere the schema
    expects an options object — the top level, a section, an hsm entry, a key definition, a schema
    slot … but NOT inside the free-form `env` map, for which `HasUnknownOption` has no rule — the
    transformed tree has a key the object does not declare, the loader does not return a
    configuration. -/
theorem unknown_option_rejected (fe : String → Bool) (c : CVal) (kvs : List (CVal × CVal))
    (ht : transformConfig c = .ok kvs)
    (hu : HasUnknownOption KskmGen.configSchema (.model "KSKMConfig") (.map kvs)) :
    ∀ r, fromDict (realEnv fe) c ≠ .ok r := by
  intro r h
  unfold fromDict at h
  simp only [ht, bind, Except.bind] at h
  cases hv : validate (realEnv fe) validateFuel false (.model "KSKMConfig") (.map kvs) with
  | error e => simp [hv] at h
  | ok o =>
    cases o with
    | none => simp [hv, err] at h
    | some loaded =>
      exact unknown_not_validated (realEnv fe) every_object_closed hu _ _ _ hv

/-- …and what it is rejected with is the schema-validation error, unless an exception escaped first
    or the model declines (never a configuration, never the ConfigurationError class). -/
theorem unknown_option_outcome (fe : String → Bool) (c : CVal) (kvs : List (CVal × CVal))
    (ht : transformConfig c = .ok kvs)
    (hu : HasUnknownOption KskmGen.configSchema (.model "KSKMConfig") (.map kvs)) :
    fromDict (realEnv fe) c = err .validation ∨
    (∃ e, validate (realEnv fe) validateFuel false (.model "KSKMConfig") (.map kvs) = .error e ∧
          fromDict (realEnv fe) c = .error e) := by
  unfold fromDict
  simp only [ht, bind, Except.bind]
  cases hv : validate (realEnv fe) validateFuel false (.model "KSKMConfig") (.map kvs) with
  | error e => right; exact ⟨e, rfl, rfl⟩
  | ok o =>
    cases o with
    | none => left; rfl
    | some loaded => exact absurd hv (unknown_not_validated (realEnv fe) every_object_closed hu _ _ _)

/-- an unknown top-level section of the file as written (before `_transform_config`) is rejected:
    every name other than the seven sections (`keys` is the file's name for `ksk_keys`) -/
theorem unknown_section_rejected (fe : String → Bool) (kvs : List (CVal × CVal)) (k : String) (x : CVal)
    (hk : (CVal.str k, x) ∈ kvs)
    (hname : k ∉ ["hsm", "keys", "ksk_keys", "ksk_policy", "request_policy", "response_policy",
                  "filenames", "schemas"]) :
    ∀ r, fromDict (realEnv fe) (.map kvs) ≠ .ok r := by
  intro r h
  cases ht : transformConfig (.map kvs) with
  | error e => simp [fromDict, ht, bind, Except.bind] at h
  | ok kvs' =>
    have hmem : (CVal.str k, x) ∈ kvs' := transform_keeps_other_keys kvs kvs' k x ht hk (by
      simp only [List.mem_cons, List.not_mem_nil, or_false, not_or] at hname ⊢
      exact ⟨hname.2.2.2.1, hname.2.1, hname.2.2.2.2.1, hname.2.2.1⟩)
    refine unknown_option_rejected fe _ kvs' ht ?_ r h
    refine HasUnknownOption.here (s := ?_) (by decide) hmem ?_
    intro f hf heq
    simp only [List.mem_cons, List.not_mem_nil, or_false, not_or] at hname
    have : f.name = k := by injection heq with h'; exact h'.symm
    subst this
    revert hf
    simp only [List.mem_cons, List.not_mem_nil, or_false]
    rintro (rfl | rfl | rfl | rfl | rfl | rfl | rfl) <;> simp_all

end Kskm.C16
