/-
  C14 — DNSSEC wire-format primitives agree with the RFCs for every key.

  Specifications are written here from the RFC text, independently of the model definitions in
  `Kskm.Dnssec` / `Kskm.Signature`; the theorems state model = specification for *every* octet string.
-/
import Kskm.Signature
import KskmGen.Tables
import KskmProofs.Lemmas.Bytes
namespace Kskm.C14

/-! ## Key tag — RFC 4034 Appendix B

    for ( ac = 0, i = 0; i < keysize; ++i ) ac += (i & 1) ? key[i] : key[i] << 8;
    ac += (ac >> 16) & 0xFFFF;  return ac & 0xFFFF;                                         -/

/-- Σ over octets from position `i` on: odd positions add the octet, even ones the octet shifted. -/
def rfcSum : Bytes → Nat → Nat
  | [], _ => 0
  | b :: r, i => (if i % 2 = 1 then b.toNat else b.toNat * 256) + rfcSum r (i + 1)

def rfc4034KeyTag (rdata : Bytes) : Nat :=
  let ac := rfcSum rdata 0
  let ac := ac + (ac / 65536) % 65536
  ac % 65536

theorem keyTagAcc_eq (r : Bytes) : ∀ (odd : Bool) (i s : Nat), (i % 2 = 1 ↔ odd = true) →
    keyTagAcc r odd s = s + rfcSum r i := by
  induction r with
  | nil => intro odd i s _; simp [keyTagAcc, rfcSum]
  | cons b r ih =>
    intro odd i s h
    simp only [keyTagAcc, rfcSum]
    rw [ih (!odd) (i + 1)]
    · cases odd <;> simp_all <;> omega
    · cases odd <;> simp_all <;> omega

/-- **Key tag.** For every RDATA octet string the computed tag is the RFC 4034 App. B value. -/
theorem keyTag_eq_rfc4034 (rdata : Bytes) : keyTagOfRdata rdata = rfc4034KeyTag rdata := by
  simp only [keyTagOfRdata, rfc4034KeyTag, keyTagAcc_eq rdata false 0 0 (by simp), Nat.zero_add]
  omega

/-- The tag always fits the 16-bit field. -/
theorem keyTag_lt (rdata : Bytes) : keyTagOfRdata rdata < 65536 := by
  simp only [keyTagOfRdata]; omega

/-! ## DNSKEY RDATA — RFC 4034 §2.1 -/

/-- **RDATA layout.** Flags (2 octets, network order), protocol, algorithm, then the key. -/
theorem rdata_layout (f p a : Nat) (pk : Bytes) (hf : f < 65536) (hp : p < 256) (ha : a < 256) :
    ∃ f1 f0 pb ab : UInt8,
      rdataOf f p a pk = f1 :: f0 :: pb :: ab :: pk ∧
      f1.toNat * 256 + f0.toNat = f ∧ pb.toNat = p ∧ ab.toNat = a := by
  refine ⟨UInt8.ofNat (f / 256), UInt8.ofNat f, UInt8.ofNat p, UInt8.ofNat a, rfl, ?_, ?_, ?_⟩
  · simp [UInt8.toNat_ofNat']; omega
  · simp [UInt8.toNat_ofNat']; omega
  · simp [UInt8.toNat_ofNat']; omega

/-- `key_to_rdata` succeeds exactly on in-range fields and yields that layout over the decoded key. -/
theorem keyToRdata_spec (k : Key) (pk : Bytes) (hd : Base64.decode k.publicKey = some pk)
    (hf : 0 ≤ k.flags ∧ k.flags < 65536) (hp : 0 ≤ k.protocol ∧ k.protocol < 256) (ha : k.algorithm < 256) :
    keyToRdata k = .ok (rdataOf k.flags.toNat k.protocol.toNat k.algorithm pk) := by
  have h1 : inRange 16 k.flags = true := by simp [inRange]; omega
  have h2 : inRange 8 k.protocol = true := by simp [inRange]; omega
  simp [keyToRdata, h1, h2, ha, hd, pure, Except.pure]

/-- out-of-range fields are an error (Python `struct.error`), never a silently truncated RDATA -/
theorem keyToRdata_range_guard (k : Key)
    (h : ¬ (0 ≤ k.flags ∧ k.flags < 65536 ∧ 0 ≤ k.protocol ∧ k.protocol < 256 ∧ k.algorithm < 256)) :
    keyToRdata k = err .struct := by
  have : (inRange 16 k.flags && inRange 8 k.protocol && decide (k.algorithm < 256)) = false := by
    simp only [inRange, Bool.and_eq_false_iff, decide_eq_false_iff_not]
    omega
  simp [keyToRdata, this]

/-- **DS digest input** (RFC 4034 §5.1.4, RFC 4509): owner name of the root in wire form, then RDATA. -/
theorem ds_input (k : Key) (r : Bytes) (h : keyToRdata k = .ok r) : dsInput k = .ok (0 :: r) := by
  simp [dsInput, h, bind, Except.bind, pure, Except.pure]

/-! ## RSA public keys — RFC 3110 §2 -/

theorem beNat_append_single (l : Bytes) (b : UInt8) : beNat (l ++ [b]) = beNat l * 256 + b.toNat := by
  simp [beNat, List.foldl_append]

theorem beNat_natToBytes (e : Nat) : beNat (natToBytes e) = e := by
  induction e using Nat.strongRecOn with
  | _ e ih =>
    rw [natToBytes]
    split
    · simp_all [beNat]
    · rename_i h
      rw [beNat_append_single, ih (e / 256) (by omega)]
      simp [UInt8.toNat_ofNat']; omega

theorem natToBytes_ne_nil (e : Nat) (h : 0 < e) : natToBytes e ≠ [] := by
  rw [natToBytes]; split
  · omega
  · simp

/-- the exponent octets carry no leading zero (minimal length, as RFC 3110 asks) -/
theorem natToBytes_head_ne_zero (e : Nat) : ∀ b r, natToBytes e = b :: r → b ≠ 0 := by
  induction e using Nat.strongRecOn with
  | _ e ih =>
    intro b r h
    rw [natToBytes] at h
    split at h
    · simp at h
    · rename_i hne
      by_cases hq : e / 256 = 0
      · rw [hq, natToBytes] at h
        simp at h
        obtain ⟨rfl, _⟩ := h
        intro hz
        have : (UInt8.ofNat e).toNat = 0 := by rw [hz]; rfl
        simp [UInt8.toNat_ofNat'] at this
        omega
      · have hne' := natToBytes_ne_nil (e / 256) (by omega)
        cases hq' : natToBytes (e / 256) with
        | nil => exact absurd hq' hne'
        | cons b' r' =>
          rw [hq'] at h
          simp at h
          exact h.1 ▸ ih (e / 256) (by omega) b' r' hq'

/-- **RFC 3110 round trip, encode then decode**, for every exponent ≥ 1 whose length fits the
    two-octet length field (1 … 65535 octets) and every modulus octet string. -/
theorem rsa_decode_encode (e : Nat) (n b : Bytes) (he : 0 < e)
    (h : rsaEncodeBytes e n = .ok b) :
    rsaDecodeBytes b = .ok { bits := n.length * 8, exponent := e, n := n } := by
  unfold rsaEncodeBytes at h
  have hne := natToBytes_ne_nil e he
  have hlen : 0 < (natToBytes e).length := List.length_pos_iff.mpr hne
  simp only at h
  split at h
  · rename_i hlong
    split at h
    · rename_i hlt
      simp only [pure, Except.pure, Except.ok.injEq] at h
      subst h
      simp only [be16, List.cons_append, List.nil_append, rsaDecodeBytes, ↓reduceIte]
      have h1 : (UInt8.ofNat ((natToBytes e).length / 256)).toNat * 256
          + (UInt8.ofNat (natToBytes e).length).toNat = (natToBytes e).length := by
        simp [UInt8.toNat_ofNat']; omega
      simp only [h1, List.take_left', List.drop_left', beNat_natToBytes, pure, Except.pure]
    · simp [err] at h
  · rename_i hshort
    simp only [pure, Except.pure, Except.ok.injEq] at h
    subst h
    have hb : UInt8.ofNat (natToBytes e).length ≠ 0 := by
      intro hz
      have : (UInt8.ofNat (natToBytes e).length).toNat = 0 := by rw [hz]; rfl
      simp [UInt8.toNat_ofNat'] at this
      omega
    have h1 : (UInt8.ofNat (natToBytes e).length).toNat = (natToBytes e).length := by
      simp [UInt8.toNat_ofNat']; omega
    simp only [be8, List.cons_append, List.nil_append, rsaDecodeBytes, hb, ↓reduceIte, h1,
      List.take_left', List.drop_left', beNat_natToBytes, pure, Except.pure]

/-- The three-octet length form is used exactly when the exponent is longer than 255 octets. -/
theorem rsa_encode_long_form_iff (e : Nat) (n b : Bytes) (h : rsaEncodeBytes e n = .ok b) :
    (b.head? = some 0 ∧ 0 < e) ↔ 255 < (natToBytes e).length := by
  unfold rsaEncodeBytes at h
  simp only at h
  split at h
  · rename_i hlong
    split at h
    · simp only [pure, Except.pure, Except.ok.injEq] at h
      subst h
      have : 0 < e := by
        rcases Nat.eq_zero_or_pos e with h0 | h0
        · subst h0; rw [natToBytes] at hlong; simp at hlong
        · exact h0
      simp [hlong, this]
    · simp [err] at h
  · rename_i hshort
    simp only [pure, Except.pure, Except.ok.injEq] at h
    subst h
    constructor
    · rintro ⟨hh, he⟩
      simp [be8] at hh
      have hne := natToBytes_ne_nil e he
      have hlen : 0 < (natToBytes e).length := List.length_pos_iff.mpr hne
      have : (UInt8.ofNat (natToBytes e).length).toNat = 0 := by rw [hh]; rfl
      simp [UInt8.toNat_ofNat'] at this
      omega
    · intro h; omega

/-- exponents longer than 65535 octets cannot be encoded and are refused, not truncated -/
theorem rsa_encode_too_long (e : Nat) (n : Bytes) (h : 65536 ≤ (natToBytes e).length) :
    rsaEncodeBytes e n = err .struct := by
  unfold rsaEncodeBytes
  simp only
  rw [if_pos (by omega), if_neg (by omega)]

/-! ## ECDSA public keys — RFC 6605 §4 (bare x‖y) versus SEC 1 (0x04‖x‖y) -/

/-- A SEC 1 uncompressed point of the right curve loses exactly its `0x04` octet. -/
theorem ecdsa_strip_prefix (q : Bytes) (a want : Nat) (hw : expectedEcdsaKeySize a = .ok want)
    (hq : q.length * 8 / 2 = want) : ecdsaWithoutPrefix (4 :: q) a = .ok q := by
  have hne : ¬ (q.length + 1) * 8 / 2 = want := by omega
  simp [ecdsaWithoutPrefix, hw, bind, Except.bind, getEcdsaPubkeySize, hne, pure, Except.pure]

/-- An RFC 6605 key (already bare, right size) is returned unchanged, whatever its first octet. -/
theorem ecdsa_bare_unchanged (q : Bytes) (a want : Nat) (hw : expectedEcdsaKeySize a = .ok want)
    (hq : q.length * 8 / 2 = want) : ecdsaWithoutPrefix q a = .ok q := by
  simp [ecdsaWithoutPrefix, hw, bind, Except.bind, getEcdsaPubkeySize, hq, pure, Except.pure]

theorem expectedEcdsaKeySize_cases (a want : Nat) (h : expectedEcdsaKeySize a = .ok want) :
    (a = 13 ∧ want = 256) ∨ (a = 14 ∧ want = 384) := by
  unfold expectedEcdsaKeySize at h
  split at h
  · left; simp_all [pure, Except.pure, algECDSAP256]
  · split at h
    · right; simp_all [pure, Except.pure, algECDSAP384]
    · simp [err] at h

/-- **Curve/size mismatches are rejected**: an ECDSA `Key` is constructed only when, after removal
    of at most one leading `0x04`, the point has exactly the curve's size (64 / 96 octets). -/
theorem ecdsa_key_size_enforced (k : Key) (pk : Bytes) (hal : isAlgorithmEcdsa k.algorithm = true)
    (hd : Base64.decode k.publicKey = some pk) (hv : k.validate = .ok ()) :
    ∃ p want, ecdsaWithoutPrefix pk k.algorithm = .ok p ∧
      expectedEcdsaKeySize k.algorithm = .ok want ∧ p.length * 8 / 2 = want ∧
      (p = pk ∨ pk = 4 :: p) := by
  unfold Key.validate at hv
  simp only [hal, ↓reduceIte, hd] at hv
  cases hp : ecdsaWithoutPrefix pk k.algorithm with
  | error e => simp [hp, bind, Except.bind] at hv
  | ok p =>
    cases hw : expectedEcdsaKeySize k.algorithm with
    | error e => simp [hp, hw, bind, Except.bind] at hv
    | ok want =>
      refine ⟨p, want, rfl, rfl, ?_, ?_⟩
      · simp only [hp, hw, bind, Except.bind, getEcdsaPubkeySize] at hv
        by_cases hs : (p.length * 8 / 2 != want) = true
        · simp [hs, err] at hv
        · simpa using hs
      · unfold ecdsaWithoutPrefix at hp
        simp only [hw, bind, Except.bind] at hp
        split at hp
        · cases pk with
          | nil => simp [err] at hp
          | cons b r =>
            simp only at hp
            split at hp
            · rename_i hb
              simp only [pure, Except.pure, Except.ok.injEq] at hp
              right; rw [hb, hp]
            · simp only [pure, Except.pure, Except.ok.injEq] at hp
              left; exact hp.symm
        · simp only [pure, Except.pure, Except.ok.injEq] at hp
          left; exact hp.symm

/-! ## Revocation — RFC 5011 §7 -/

/-- **Revoking sets only the REVOKE bit and recomputes the tag.** -/
theorem revoke_sets_only_bit_and_retags (k k' : Key) (h : k.asRevoked = .ok k') :
    ∃ r, k'.flags = ((setRevokeBit k.flags.toNat : Nat) : Int) ∧ 0 ≤ k.flags ∧
      k'.keyIdentifier = k.keyIdentifier ∧ k'.ttl = k.ttl ∧ k'.protocol = k.protocol ∧
      k'.algorithm = k.algorithm ∧ k'.publicKey = k.publicKey ∧
      keyToRdata k' = .ok r ∧ k'.keyTag = (rfc4034KeyTag r : Nat) := by
  unfold Key.asRevoked at h
  by_cases hneg : k.flags < 0
  · simp [hneg, unsupported, bind, Except.bind] at h
  · simp only [hneg, ↓reduceIte, bind, Except.bind, pure, Except.pure, calculateKeyTag] at h
    cases hr : keyToRdata { k with flags := ((setRevokeBit k.flags.toNat : Nat) : Int) } with
    | error e => simp [hr] at h
    | ok r =>
      simp only [hr, Except.ok.injEq] at h
      subst h
      refine ⟨r, rfl, by omega, rfl, rfl, rfl, rfl, rfl, ?_, ?_⟩
      · simpa [keyToRdata] using hr
      · simp [keyTag_eq_rfc4034]

/-- the REVOKE bit ends up set, every other bit is as before (stated arithmetically) -/
theorem setRevokeBit_spec (n : Nat) :
    setRevokeBit n / 128 % 2 = 1 ∧ setRevokeBit n % 128 = n % 128 ∧
    setRevokeBit n / 256 = n / 256 ∧ (n / 128 % 2 = 1 → setRevokeBit n = n) := by
  unfold setRevokeBit; split <;> omega

/-! ## RRSIG to-be-signed octets — RFC 4034 §3.1.8.1 and §6.3 -/

/-- RFC 4034 §3.1.8.1: `RRSIG_RDATA | RR(1) | RR(2) …` with the RRs in canonical order. The
    canonical order of §6.3 is characterised declaratively: *any* arrangement `l` of the RDATAs that
    is a permutation of them and is ascending in the unsigned left-justified octet order. -/
def rfc4034TBS (tc alg labels ottl exp inc tag : Nat) (l : List Bytes) : Bytes :=
  rrsigHeader tc alg labels ottl exp inc tag ++ [0] ++ (l.map (rrWire [0] tc ottl)).flatten

def CanonicalOrder (l rdatas : List Bytes) : Prop :=
  l.Perm rdatas ∧ l.Pairwise (fun a b => bytesLe a b = true)

/-- **TBS = RFC.** Whatever canonical arrangement an independent implementation picks, the model's
    to-be-signed octets are exactly the RFC's, for every field value and every set of RDATAs. -/
theorem makeRawRrsig_eq_rfc (tc alg labels ottl exp inc tag : Nat) (rdatas l : List Bytes)
    (hl : CanonicalOrder l rdatas) :
    rawRrsigOf tc alg labels ottl exp inc tag rdatas = rfc4034TBS tc alg labels ottl exp inc tag l := by
  have hs : rdatas.mergeSort bytesLe = l := by
    apply List.Perm.eq_of_pairwise (le := fun a b => bytesLe a b = true)
    · intro a b _ _ h1 h2; exact bytesLe_antisymm a b h1 h2
    · exact List.pairwise_mergeSort (fun a b c => bytesLe_trans a b c) bytesLe_total rdatas
    · exact hl.2
    · exact (List.mergeSort_perm rdatas bytesLe).trans hl.1.symm
  simp [rawRrsigOf, rfc4034TBS, hs]

/-- a canonical arrangement always exists, so the theorem above is never vacuous -/
theorem canonicalOrder_exists (rdatas : List Bytes) : ∃ l, CanonicalOrder l rdatas :=
  ⟨rdatas.mergeSort bytesLe, List.mergeSort_perm rdatas bytesLe,
    List.pairwise_mergeSort (fun a b c => bytesLe_trans a b c) bytesLe_total rdatas⟩

/-- **Order independence.** The octets do not depend on the order in which the key set is visited. -/
theorem rawRrsig_perm (tc alg labels ottl exp inc tag : Nat) (r₁ r₂ : List Bytes) (h : r₁.Perm r₂) :
    rawRrsigOf tc alg labels ottl exp inc tag r₁ = rawRrsigOf tc alg labels ottl exp inc tag r₂ := by
  obtain ⟨l, hl⟩ := canonicalOrder_exists r₂
  rw [makeRawRrsig_eq_rfc _ _ _ _ _ _ _ r₂ l hl,
    makeRawRrsig_eq_rfc _ _ _ _ _ _ _ r₁ l ⟨hl.1.trans h.symm, hl.2⟩]

/-! ## Tables regenerated from /repo agree with the numbers the model uses -/

theorem tables_algorithm_classes :
    KskmGen.rsaAlgorithms = [5, 8, 10] ∧ KskmGen.ecdsaAlgorithms = [13, 14] ∧
    KskmGen.eddsaAlgorithms = [15, 16] ∧
    KskmGen.flagsDNSKEY = [("SEP", 1), ("REVOKE", 128), ("ZONE", 256)] ∧
    KskmGen.typeDNSSEC = [("DNSKEY", 48)] := by decide

/-! ## Non-vacuity: concrete instances meeting the hypotheses above -/

example : keyTagOfRdata [1, 1, 3, 8, 3, 1, 0, 1, 0xff] = 1548 := by decide
example : rsaEncodeBytes 65537 [0x80, 1] = .ok [3, 1, 0, 1, 0x80, 1] := by decide +kernel
example : rsaDecodeBytes [3, 1, 0, 1, 0x80, 1] = .ok { bits := 16, exponent := 65537, n := [0x80, 1] } := by
  decide
example : CanonicalOrder [[1], [1, 0], [2]] [[2], [1, 0], [1]] := by
  refine ⟨?_, by decide⟩
  exact List.Perm.trans (List.Perm.swap' _ _ (List.Perm.refl _)) <| by decide

end Kskm.C14
