/-
  C19 — key generation, deletion and inventory never clobber, guess or misreport keys.

  APPROACH.  DESIGN §4-C19 offered (a) a store-backed token oracle or (b) hand-mirrored pure "S-versions".
  This file realises (a) through a free monad: every keymaster function is ONE program text
  (`Kskm.Km.Prog`, Kskm/Keymaster.lean) with two interpretations — `runTok` against an arbitrary token
  oracle (what the correspondence check replays against the emulator's log) and `runSt` against a store
  with the pure semantics `storeStep` (objects per module and slot, per-slot handle counters, the pool
  `C_GenerateKeyPair` draws from).  The invariants below are proved about `runSt` for ALL stores,
  configurations, labels, answers and operation sequences (induction over the list, no bound);
  `store_backed_oracles` carries them to every token oracle whose answers are those of a store.

  The model mirrors the code AS REPAIRED by proposed_fixes/F9a, F9b, F14 (DESIGN §5).  Three theorems
  are false of the unrepaired code, and the correspondence run exhibits the failing histories:
    `keygen_no_second`                  F9a (a private-only label did not block generation),
    `delete_only_label_only_confirmed`  F9b (objects were destroyed through another slot's session),
    `inventory_lists_each_once`         F14 (an unpaired public entry vanished from the listing).

  Vocabulary.  `searched mods`: the (module, slot) pairs with a session — what every lookup visits.
  "Key object": class public or private (`isKeyClass`).  `Store.WF`: handles unique per slot and below
  the slot's counter (what the emulator and real tokens maintain; preserved by every operation:
  `wf_preserved`).
-/
import KskmProofs.Lemmas.C19Effects
import KskmProofs.Lemmas.C19Inventory
import KskmProofs.Lemmas.C19Listing
import KskmProofs.Lemmas.C19Relookup
import KskmProofs.Lemmas.C18Run
import KskmProofs.Lemmas.KmHsmEq
import KskmProofs.C14
namespace Kskm.C19
open Kskm.Km

/-! ## Store-backed oracles -/

/-- **Every token that answers as a store does.**  For every program of the keymaster model, every
    token oracle and every store: if the answers logged during the run are the store semantics' answers
    from `st`, the run returns what the store-backed run returns, and the logged operations lead the
    store to where the store-backed run leaves it.  (So each theorem below about `runSt` is a theorem
    about every such oracle.) -/
theorem store_backed_oracles {α} (p : Prog α) (t : Token) (s : TokState) (st : Store) :
    ∃ l : List (TokOp × TokAns), (p.runTok t s).2.log = l ++ s.log ∧
      (Consistent st l.reverse →
        (p.runTok t s).1 = (p.runSt st).1 ∧ replayStore st l.reverse = (p.runSt st).2) :=
  refines p t s st

/-! ## Key generation -/

/-- **No second key under an existing label** (F9a repaired).  If ANY public or private object of any
    searched slot carries the label, key generation fails and the store is unchanged. -/
theorem keygen_no_second (ext : Externals) (cfg : KmConfig) (mods : List P11Module) (alg : Nat)
    (size : Option Nat) (label : String) (st : Store)
    (h : ∃ p n, (p, n) ∈ searched mods ∧ ∃ o ∈ st.objs p n, o.label = label ∧ isKeyClass o.cls) :
    ((keygenP ext cfg mods alg size (some label)).runSt st).2 = st ∧
    ∃ e, ((keygenP ext cfg mods alg size (some label)).runSt st).1 = .error e := by
  rcases keygenP_cases ext cfg mods alg size label st with h1 | ⟨_, _, _, _, _, _, _, hex, _⟩
  · exact h1
  · exfalso
    obtain ⟨p, n, hpn, o, ho, hl, hc⟩ := h
    exact existingKeyP_none hex p n hpn o ho hl hc

/-- **A successful generation adds exactly one pair.**  When `keygen` succeeds: the algorithm is RSA
    with a key size; no public / private object of a searched slot carried the label; and the store
    differs from the one before in exactly this: the slot `get_session()` names — first module, smallest
    slot — received, at its next two handles, a public and a private RSA object with the requested
    label holding ONE pool key of the requested size with exponent 65537; that key left the pool; every
    other slot, every other object and every counter is as it was. -/
theorem keygen_adds_exactly_pair (ext : Externals) (cfg : KmConfig) (mods : List P11Module) (alg : Nat)
    (size : Option Nat) (label : String) (st st' : Store) (rep : KeygenReport)
    (h : (keygenP ext cfg mods alg size (some label)).runSt st = (.ok rep, st')) :
    ∃ bits path slot k s, size = some bits ∧ isAlgorithmRsa alg = true ∧
      (∀ p n, (p, n) ∈ searched mods → ∀ o ∈ st.objs p n, o.label = label → ¬ isKeyClass o.cls) ∧
      (∃ first rest, mods = first :: rest ∧ path = first.path ∧ slot ∈ first.sessions ∧ ∀ x ∈ first.slots, slot ≤ x) ∧
      k ∈ st.pool ∧ k.bits = bits ∧ k.e = 65537 ∧
      st.slots path slot = some s ∧
      st'.objs path slot = st.objs path slot ++
        [rsaObj s.next ckoPublic label k, rsaObj (s.next + 1) ckoPrivate label k] ∧
      (∀ p n, ¬ (p = path ∧ n = slot) → st'.slots p n = st.slots p n) ∧
      (∀ x ∈ st'.pool, x ∈ st.pool) := by
  rcases keygenP_cases ext cfg mods alg size label st with ⟨_, e, he⟩ | ⟨bits, path, slot, k, r, hs, hrsa, hex, hsess, hb, he, hgen, _, _⟩
  · rw [h] at he; cases he
  · rw [h] at hgen
    simp only at hgen
    obtain ⟨s, hslot, hobjs⟩ := hgen.objs_target
    obtain ⟨first, rest, hm, hp, _, hsl, hmin⟩ := getSession_spec hsess
    obtain ⟨s0, pool', hs0, hk, hpool, hsub, _, hother⟩ := hgen
    refine ⟨bits, path, slot, k, s, hs, hrsa, existingKeyP_none hex, ⟨first, rest, hm, hp, hsl, hmin⟩, hk, hb, he,
      hslot, hobjs, hother, ?_⟩
    rw [hpool]; exact hsub

/-- The same, whatever the outcome: `keygen` either leaves the store alone or adds exactly one pair —
    the pair is generated BEFORE the tag collision test, so a collision (or a failing DS computation)
    leaves the new pair on the token. -/
theorem keygen_store_cases (ext : Externals) (cfg : KmConfig) (mods : List P11Module) (alg : Nat)
    (size : Option Nat) (label : String) (st : Store) :
    ((keygenP ext cfg mods alg size (some label)).runSt st).2 = st ∨
    ∃ path slot k, getSession mods = .ok (path, slot) ∧
      (∀ p n, (p, n) ∈ searched mods → ∀ o ∈ st.objs p n, o.label = label → ¬ isKeyClass o.cls) ∧
      Generated label path slot k st ((keygenP ext cfg mods alg size (some label)).runSt st).2 := by
  rcases keygenP_cases ext cfg mods alg size label st with ⟨h, _⟩ | ⟨_, path, slot, k, _, _, _, hex, hsess, _, _, hgen, _, _⟩
  · exact Or.inl h
  · exact Or.inr ⟨path, slot, k, hsess, existingKeyP_none hex, hgen⟩

/-- **The reported tags and DS are the RFC values; a collision is a failure.**  When the tag / DS step of
    `keygen` succeeds on public key text `pk`: the reported key tag is the RFC 4034 App. B tag of the
    DNSKEY RDATA with flags 257, the second one that of the RDATA with flags 385 (REVOKE set), the DS
    digest is the hash of 0x00 ‖ RDATA(257) — and NO configured KSK carries either tag. -/
theorem keygen_reports_tags (ext : Externals) (cfg : KmConfig) (alg : Nat) (label pk : String)
    (rep : KeygenReport) (h : keygenReport ext cfg alg label pk = .ok rep) :
    ∃ pkb, Base64.decode pk = some pkb ∧ alg < 256 ∧
      rep.keyTag = (C14.rfc4034KeyTag (rdataOf 257 3 alg pkb) : Nat) ∧
      rep.revokedTag = (C14.rfc4034KeyTag (rdataOf 385 3 alg pkb) : Nat) ∧
      ext.hash .sha256 (0 :: rdataOf 257 3 alg pkb) = some rep.dsDigest ∧
      ∀ k ∈ cfg.ksks, k.ksk.keyTag ≠ some rep.keyTag ∧ k.ksk.keyTag ≠ some rep.revokedTag := by
  unfold keygenReport at h
  simp only [bind, Except.bind] at h
  cases h1 : publicKeyToDnssecKey pk label alg cfg.ttl 257 with
  | error e => simp [h1] at h
  | ok key =>
    cases h2 : publicKeyToDnssecKey pk label alg cfg.ttl 385 with
    | error e => simp [h1, h2] at h
    | ok rev =>
      simp only [h1, h2] at h
      split at h
      · simp [err] at h
      · rename_i hcol
        cases h3 : DnsRecords.fromKey ext.hash key with
        | error e => simp [h3] at h
        | ok dns =>
          simp only [h3, pure, Except.pure, Except.ok.injEq] at h
          subst h
          -- the two keys
          have hk := C18.publicKeyToDnssecKey_ok' h1
          have hr := C18.publicKeyToDnssecKey_ok' h2
          obtain ⟨_, _, hfl, hpr, hal, hpk, r1, hr1, ht1⟩ := hk
          obtain ⟨_, _, hfl2, hpr2, hal2, hpk2, r2, hr2, ht2⟩ := hr
          obtain ⟨ha, pkb, hdec, hrd⟩ := C18.keyToRdata_257 hfl hpr hr1
          have hrd2 : r2 = rdataOf 385 3 alg pkb := by
            unfold keyToRdata at hr2
            split at hr2
            · simp [err] at hr2
            · rw [hpk2, ← hpk, hdec] at hr2
              simp only [pure, Except.pure, Except.ok.injEq] at hr2
              rw [← hr2, hfl2, hpr2, hal2]; rfl
          -- the DS
          unfold DnsRecords.fromKey at h3
          simp only [bind, Except.bind] at h3
          split at h3
          · simp [err] at h3
          · unfold createTrustanchorKeydigest at h3
            simp only [dn2wire, if_true, bind, Except.bind, pure, Except.pure, hr1, List.cons_append,
              List.nil_append] at h3
            unfold hashOrUnknown at h3
            cases hh : ext.hash .sha256 (0 :: r1) with
            | none => simp [hh, unsupported] at h3
            | some dg =>
              simp only [hh, pure, Except.pure, Except.ok.injEq] at h3
              subst h3
              rw [hal] at ha hrd
              refine ⟨pkb, by rw [← hpk]; exact hdec, ha, ?_, ?_, ?_, ?_⟩
              · simp only; rw [ht1, hrd, C14.keyTag_eq_rfc4034]
              · simp only; rw [ht2, hrd2, C14.keyTag_eq_rfc4034]
              · simp only; rw [← hrd]; exact hh
              · intro k hkm
                simp only [List.any_eq_true, not_exists, not_and] at hcol
                have := hcol k hkm
                cases hkt : k.ksk.keyTag with
                | none => simp
                | some t =>
                  simp only [hkt, List.contains_cons, List.contains_nil, Bool.or_false, Bool.or_eq_true,
                    beq_iff_eq, not_or] at this
                  constructor
                  · intro e; exact this.1 (Option.some.inj e)
                  · intro e; exact this.2 (Option.some.inj e)

/-- … and the report `keygen` returns IS that computation on the public key text of the key the
    re-lookup found on the store after generation, under the requested label. -/
theorem keygen_reports_generated_key (ext : Externals) (cfg : KmConfig) (mods : List P11Module) (alg : Nat)
    (size : Option Nat) (label : String) (st st' : Store) (rep : KeygenReport)
    (h : (keygenP ext cfg mods alg size (some label)).runSt st = (.ok rep, st')) :
    ∃ key pk, (getP11KeyP label true none mods).runSt st' = (.ok (some key), st') ∧
      key.publicKey = some pk ∧ key.label = label ∧ keygenReport ext cfg alg label pk = .ok rep := by
  rcases keygenP_cases ext cfg mods alg size label st with ⟨_, e, he⟩ | ⟨_, _, _, _, r, _, _, _, _, _, _, _, hlook, hres⟩
  · rw [h] at he; cases he
  · rw [h] at hlook hres
    simp only at hlook hres
    cases r with
    | error e => simp [Except.bind, bind] at hres
    | ok o =>
      cases o with
      | none => simp [Except.bind, bind, keygenTail, err] at hres
      | some key =>
        simp only [Except.bind, bind, keygenTail] at hres
        cases hpk : key.publicKey with
        | none => simp [hpk, err] at hres
        | some pk =>
          simp only [hpk] at hres
          split at hres
          · simp [err] at hres
          · obtain ⟨_, _, _, _, _, hfound⟩ := getP11KeyP_some hlook
            have hlab : key.label = label := hfound.2.2.1
            refine ⟨key, pk, hlook, hpk, hlab, ?_⟩
            rw [← hlab]; exact hres.symm

/-- … and that key text is the RFC 3110 encoding of THE KEY THAT WAS GENERATED: in a well-formed store,
    a successful `keygen` reports the tags and DS of `rsaEncode(exponent, modulus)` of the very pool key
    whose pair it added (so `keygen_reports_tags` speaks of the new key, not of some other object). -/
theorem keygen_reports_new_key (ext : Externals) (cfg : KmConfig) (mods : List P11Module) (alg : Nat)
    (size : Option Nat) (label : String) (st st' : Store) (rep : KeygenReport) (hw : st.WF)
    (h : (keygenP ext cfg mods alg size (some label)).runSt st = (.ok rep, st')) :
    ∃ path slot k pk, Generated label path slot k st st' ∧
      rsaEncode (beNat k.exponent) k.modulus = .ok pk ∧ keygenReport ext cfg alg label pk = .ok rep := by
  obtain ⟨key, pk, hlook, hpk, _, hrep⟩ := keygen_reports_generated_key ext cfg mods alg size label st st' rep h
  rcases keygenP_cases ext cfg mods alg size label st with ⟨_, e, he⟩ | ⟨_, path, slot, k, _, _, _, hex, _, _, _, hgen, _, _⟩
  · rw [h] at he; cases he
  · rw [h] at hgen
    simp only at hgen
    refine ⟨path, slot, k, pk, hgen, ?_, hrep⟩
    have hnone := existingKeyP_none hex
    obtain ⟨hsearched, s', o, hs', hf, hfound⟩ := getP11KeyP_some hlook
    obtain ⟨hh, hph, hpkrun⟩ := getP11KeyP_pk hlook
    have ho : o ∈ s'.objects ∧ o.named label ckoPublic := by
      have : o ∈ s'.objects.filter (fun o => decide (o.named label (classOfB true))) := by rw [hf]; simp
      simpa [classOfB] using this
    have hhandle : hh = o.handle := by
      have := hfound.2.2.2.2.2
      rw [hph] at this
      simpa [classOfB, ckoPublic, ckoSecret] using this
    subst hhandle
    obtain ⟨s, hslot, htarget⟩ := hgen.objs_target
    have hwf' := hgen.wf hw
    -- the found object is the new public object, in the target slot
    have hobj : o ∈ st'.objs key.module key.slot := by rw [objs_of_slots hs']; exact ho.1
    have htgt : key.module = path ∧ key.slot = slot := by
      by_cases hps : key.module = path ∧ key.slot = slot
      · exact hps
      · exfalso
        rw [hgen.objs_other hps] at hobj
        exact hnone _ _ hsearched o hobj ho.2.1 (Or.inl ho.2.2)
    have hnew : o = rsaObj s.next ckoPublic label k := by
      rw [htgt.1, htgt.2, htarget] at hobj
      simp only [List.mem_append, List.mem_cons, List.not_mem_nil, or_false] at hobj
      rcases hobj with hobj | rfl | rfl
      · exfalso
        rw [← htgt.1, ← htgt.2] at hobj
        exact hnone _ _ hsearched o hobj ho.2.1 (Or.inl ho.2.2)
      · rfl
      · exfalso
        have := ho.2.2
        simp [rsaObj, ckoPublic, ckoPrivate] at this
    have hrun := p11ObjectToPublicKeyP_rsa (st := st') hs' (hwf' _ _ s' hs').1 ho.1
      (m := k.modulus) (e := k.exponent) (by rw [hnew]; rfl) (by rw [hnew]; simp [rsaObj, List.lookup])
      (by rw [hnew]; simp [rsaObj, List.lookup])
    rw [hrun, hpk] at hpkrun
    cases henc : rsaEncode (beNat k.exponent) k.modulus with
    | error f => simp [henc] at hpkrun
    | ok txt =>
      simp only [henc, Except.ok.injEq, Option.some.injEq] at hpkrun
      rw [hpkrun]

/-! ## Deletion -/

/-- **Deletion removes only the labelled key objects, and only when confirmed** (F9b repaired).
    (1) Without `--force` and without exactly "Yes" (newlines stripped) the store is unchanged.
    (2) In a well-formed store, whatever happens: nothing arrives, counters and pool stay, every object
        that leaves carries the label, is of class public or private and lived in a searched slot —
        every other object of every slot is untouched. -/
theorem delete_only_label_only_confirmed (mods : List P11Module) (label : String) (force : Bool)
    (answer : String) (st : Store) :
    (force = false → confirmed answer = false → ((keyDeleteP mods label force answer).runSt st).2 = st) ∧
    (st.WF →
      let st' := ((keyDeleteP mods label force answer).runSt st).2
      st'.pool = st.pool ∧
      (∀ p n, (st'.slots p n).map (·.next) = (st.slots p n).map (·.next)) ∧
      (∀ p n, ∀ o ∈ st'.objs p n, o ∈ st.objs p n) ∧
      (∀ p n, ∀ o ∈ st.objs p n, o ∉ st'.objs p n →
        o.label = label ∧ isKeyClass o.cls ∧ (p, n) ∈ searched mods)) := by
  constructor
  · rintro rfl hc
    exact (keyDeleteP_unconfirmed_ro mods label answer hc).readOnly st
  · intro hw
    have hs := keyDeleteP_shrinks (label := label) (mods := mods) hw force answer
    refine ⟨hs.1, ?_, fun p n => hs.objs_subset p n, fun p n o ho hn => hs.gone ho hn⟩
    intro p n
    obtain ⟨q, e, _⟩ := hs.2 p n
    rw [e]; cases st.slots p n <;> rfl

/-- the label names exactly this public and this private object in the searched slots -/
structure NamesPair (mods : List P11Module) (st : Store) (label : String)
    (pa : String) (na : Nat) (a : Obj) (pb : String) (nb : Nat) (b : Obj) : Prop where
  pubIn : a ∈ st.objs pa na ∧ (pa, na) ∈ searched mods ∧ a.named label ckoPublic
  privIn : b ∈ st.objs pb nb ∧ (pb, nb) ∈ searched mods ∧ b.named label ckoPrivate
  pubOnly : ∀ p n, (p, n) ∈ searched mods → ∀ o ∈ st.objs p n, o.named label ckoPublic → p = pa ∧ n = na ∧ o = a
  privOnly : ∀ p n, (p, n) ∈ searched mods → ∀ o ∈ st.objs p n, o.named label ckoPrivate → p = pb ∧ n = nb ∧ o = b

/-- **A deletion that reports success removed the private object it found**: when `key_delete` returns
    `True` after a confirmation, and the label names one private object in the searched slots, that
    object is gone (from the slot it lived in — through that slot's own session). -/
theorem delete_true_removes_private (mods : List P11Module) (label : String) (force : Bool) (answer : String)
    (st : Store) (hw : st.WF) (hconf : force = true ∨ confirmed answer = true)
    (pb : String) (nb : Nat) (b : Obj)
    (hb : b ∈ st.objs pb nb ∧ (pb, nb) ∈ searched mods ∧ b.named label ckoPrivate)
    (honly : ∀ p n, (p, n) ∈ searched mods → ∀ o ∈ st.objs p n, o.named label ckoPrivate → p = pb ∧ n = nb ∧ o = b)
    (hres : ((keyDeleteP mods label force answer).runSt st).1 = .ok true) :
    b ∉ ((keyDeleteP mods label force answer).runSt st).2.objs pb nb := by
  have hnc : (!force && !confirmed answer) = false := by
    rcases hconf with rfl | h <;> simp [*]
  unfold keyDeleteP at hres ⊢
  rw [runSt_bind] at hres ⊢
  have hst := getP11KeyP_store label true none mods st
  cases hl : (getP11KeyP label true none mods).runSt st with
  | mk r st1 =>
    rw [hl] at hst hres
    simp only at hst
    subst hst
    cases r with
    | error e => simp at hres
    | ok o =>
      cases o with
      | none => simp at hres
      | some pub =>
        simp only [hnc, Bool.false_eq_true, if_false] at hres ⊢
        rw [runSt_bind] at hres ⊢
        obtain ⟨hsearched, s, o, hs, hf, hfound⟩ := getP11KeyP_some hl
        have ho : o ∈ s.objects ∧ o.named label ckoPublic := by
          have : o ∈ s.objects.filter (fun o => decide (o.named label (classOfB true))) := by rw [hf]; simp
          simpa [classOfB] using this
        have hph : pub.pubHandle = some o.handle := by
          have := hfound.2.2.2.2.2
          simpa [classOfB, ckoPublic, ckoSecret] using this
        have h1 := destroyPublicP_shrinks (mods := mods) hw hs ho.1 ho.2.1 (Or.inl ho.2.2) hsearched hph
        cases hd : (destroyPublicP pub).runSt st1 with
        | mk r1 st2 =>
          rw [hd] at h1 hres
          cases r1 with
          | error e => simp at hres
          | ok u =>
            simp only at hres ⊢ h1
            have hw2 := h1.wf hw
            -- b is still there: what left so far carried class public
            have hb2 : b ∈ st2.objs pb nb := by
              by_cases hn : b ∈ st2.objs pb nb
              · exact hn
              · exfalso
                -- an object that left by `Shrinks` … but the only destroy so far hit `o`
                have hbpub : b = o := by
                  unfold destroyPublicP at hd
                  cases hpk : pub.publicKey with
                  | none =>
                    simp only [hpk, runSt_pure, Prod.mk.injEq] at hd
                    exact absurd (hd.2 ▸ hb.1) hn
                  | some pk =>
                    simp only [hpk, hph] at hd
                    by_cases he : pk.isEmpty = true
                    · simp only [he, if_true, runSt_pure, Prod.mk.injEq] at hd
                      exact absurd (hd.2 ▸ hb.1) hn
                    · simp only [he, Bool.false_eq_true, if_false] at hd
                      obtain ⟨hstep, _⟩ := destroy_shrinks (mods := mods) hw hs ho.1 ho.2.1 (Or.inl ho.2.2) hsearched
                      rw [runSt_bind, runSt_askOkP, hstep] at hd
                      simp only [reduceCtorEq, if_false, runSt_pure, Prod.mk.injEq] at hd
                      obtain ⟨_, rfl⟩ := hd
                      by_cases hpn : pb = pub.module ∧ nb = pub.slot
                      · obtain ⟨rfl, rfl⟩ := hpn
                        have hbs : b ∈ s.objects := by rw [← objs_of_slots hs]; exact hb.1
                        have hh : b.handle = o.handle := by
                          by_cases hne : b.handle = o.handle
                          · exact hne
                          · exfalso; apply hn
                            simp only [Store.objs, slots_setSlot, and_self, if_true, SlotSt.remove, List.mem_filter]
                            exact ⟨hbs, by simpa using hne⟩
                        exact eq_of_handle (hw _ _ s hs).1 hbs ho.1 hh
                      · exfalso; apply hn
                        simp only [Store.objs, slots_setSlot, hpn, if_false]
                        exact hb.1
                have h2 := hb.2.2.2
                have h3 := ho.2.2
                rw [hbpub, h3] at h2
                simp [ckoPublic, ckoPrivate] at h2
            -- the private lookup on st2 finds b
            unfold destroyPrivateP at hres ⊢
            rw [runSt_bind] at hres ⊢
            have hst2 := getP11KeyP_store label false none mods st2
            cases hl2 : (getP11KeyP label false none mods).runSt st2 with
            | mk r2 st3 =>
              rw [hl2] at hst2 hres
              simp only at hst2
              subst hst2
              cases r2 with
              | error e => simp at hres
              | ok o2 =>
                cases o2 with
                | none => simp at hres
                | some priv =>
                  simp only at hres ⊢
                  obtain ⟨hsearched2, s2, o2, hs2, hf2, hfound2⟩ := getP11KeyP_some hl2
                  have ho2 : o2 ∈ s2.objects ∧ o2.named label ckoPrivate := by
                    have : o2 ∈ s2.objects.filter (fun o => decide (o.named label (classOfB false))) := by rw [hf2]; simp
                    simpa [classOfB] using this
                  have hph2 : priv.privHandle = some o2.handle := by
                    have := hfound2.2.2.2.2.1
                    simpa [classOfB, ckoPublic, ckoPrivate] using this
                  have ho2st : o2 ∈ st1.objs priv.module priv.slot :=
                    h1.objs_subset _ _ _ (by rw [objs_of_slots hs2]; exact ho2.1)
                  obtain ⟨hpm, hpsl, rfl⟩ := honly _ _ hsearched2 o2 ho2st ho2.2
                  simp only [hph2] at hres ⊢
                  obtain ⟨hstep, _⟩ := destroy_shrinks (mods := mods) hw2 hs2 ho2.1 ho2.2.1 (Or.inr ho2.2.2) hsearched2
                  rw [runSt_bind, runSt_askOkP, hstep]
                  simp only [reduceCtorEq, if_false, runSt_pure]
                  rw [← hpm, ← hpsl]
                  simp only [Store.objs, slots_setSlot, and_self, if_true, SlotSt.remove, List.mem_filter, not_and]
                  intro _; simp

/-- `keydel` drops `key_delete`'s result: it returns `True` unless an exception escapes. -/
theorem keydel_returns_true (mods : List P11Module) (label : String) (force : Bool) (answer : String)
    (st : Store) (b : Bool) (h : ((keydelP mods label force answer).runSt st).1 = .ok b) : b = true := by
  unfold keydelP at h
  rw [runSt_bind] at h
  cases hk : (keyDeleteP mods label force answer).runSt st with
  | mk r st1 =>
    rw [hk] at h
    cases r with
    | error e => simp at h
    | ok x => simpa using h.symm

/-! ## Inventory -/

/-- **The inventory only reads**: whatever it lists or however it fails, the store is unchanged. -/
theorem inventory_reads_only (ext : Externals) (cfg : KmConfig) (mods : List P11Module) (dns : Bool) (st : Store) :
    ((inventoryP ext cfg mods dns).runSt st).2 = st :=
  (inventoryP_ro ext cfg mods dns).readOnly st

/-- the public entries shown as pairs -/
def pairPubs (L : SlotListing) : List KeyInfo := L.pairs.map (·.pub)
/-- the entries shown under a class heading -/
def leftover (L : SlotListing) (c : Nat) : List KeyInfo := (L.leftovers.lookup c).getD []

/-- how often an object of class `c` with label+id `k` is shown: a "Signing key pairs" line stands for
    the public AND the private object of that label+id; a line under a class heading for one object of
    that class -/
def appearances (L : SlotListing) (c : Nat) (k : String × Option Bytes) : Nat :=
  (if c = ckoPublic ∨ c = ckoPrivate then countKey (pairPubs L) k else 0) + countKey (leftover L c) k

/-- what `_format_keys` lists, in closed form -/
theorem listing_spec (ext : Externals) (cfg : KmConfig) (data : KeyTable) (hok : TableOk data) (L : SlotListing)
    (h : formatKeysStruct ext cfg data = .ok L) :
    (∃ pubs privs, data.lookup ckoPublic = some pubs ∧ data.lookup ckoPrivate = some privs ∧
      pairPubs L = pubs.filter (fun x => hasKey privs x.key) ∧
      leftover L ckoPublic = pubs.filter (fun x => !hasKey privs x.key) ∧
      leftover L ckoPrivate = privs.filter (fun y => !hasKey pubs y.key) ∧
      ∀ c, c ≠ ckoPublic → c ≠ ckoPrivate → L.leftovers.lookup c = data.lookup c) ∨
    ((data.lookup ckoPublic = none ∨ data.lookup ckoPrivate = none) ∧ L.pairs = [] ∧ L.leftovers = data) := by
  unfold formatKeysStruct at h
  cases hp : data.get ckoPublic with
  | none =>
    right
    simp only [hp, pure, Except.pure, Except.ok.injEq] at h
    subst h; exact ⟨Or.inl hp, rfl, rfl⟩
  | some pubs =>
    cases hq : data.get ckoPrivate with
    | none =>
      right
      simp only [hp, hq, pure, Except.pure, Except.ok.injEq] at h
      subst h; exact ⟨Or.inr hq, rfl, rfl⟩
    | some privs =>
      left
      simp only [hp, hq, bind, Except.bind] at h
      cases hl : pairLoop ext cfg pubs { pubs := pubs, privs := privs } with
      | error e => simp [hl] at h
      | ok res =>
        simp only [hl, pure, Except.pure, Except.ok.injEq] at h
        subst h
        have hnp := hok.keys _ _ (lookup_mem hp)
        obtain ⟨h1, h2, h3⟩ := pairLoop_spec ext cfg pubs _ res hnp hl
        simp only [List.map_nil, List.nil_append] at h1
        have hne : ckoPublic ≠ ckoPrivate := by decide
        refine ⟨pubs, privs, hp, hq, h1, ?_, ?_, ?_⟩
        · simp only [leftover]
          rw [lookup_set_other _ _ _ _ hne, lookup_set_same _ _ _ (by simp [show data.lookup ckoPublic = some pubs from hp])]
          simp only [Option.getD_some, h2]
          apply List.filter_congr
          intro y hy
          rw [hasKey_filter_self (P := fun k => hasKey privs k) hy]
        · simp only [leftover]
          rw [lookup_set_same _ _ _ (by
            rw [lookup_set_other _ _ _ _ (Ne.symm hne)]; simp [show data.lookup ckoPrivate = some privs from hq])]
          simp only [Option.getD_some, h3]
        · intro c hc1 hc2
          simp only
          rw [lookup_set_other _ _ _ _ hc2, lookup_set_other _ _ _ _ hc1]

/-- **The inventory lists each key object once** (F14 repaired).  Let `infos` be what
    `get_key_inventory` returned for a slot (one record per public / private / secret object, in token
    order) and `L` what `_format_keys` lists for it.  Then every object seen appears EXACTLY ONCE — on a
    pair line or under the heading of its class (objects of one class with equal label and id being
    one entry) — and nothing is listed that was not seen. -/
theorem inventory_lists_each_once (ext : Externals) (cfg : KmConfig) (infos : List KeyInfo) (L : SlotListing)
    (h : formatKeysStruct ext cfg (tableOf infos) = .ok L) :
    (∀ i ∈ infos, appearances L i.keyClass i.key = 1) ∧
    (∀ x ∈ pairPubs L, x ∈ infos ∧ x.keyClass = ckoPublic) ∧
    (∀ c, ∀ x ∈ leftover L c, x ∈ infos ∧ x.keyClass = c) := by
  obtain ⟨hok, hsound, hrep⟩ := tableOf_spec infos
  rcases listing_spec ext cfg (tableOf infos) hok L h with
    ⟨pubs, privs, hp, hq, hpairs, hlp, hlq, hother⟩ | ⟨hnone, hpairs, hleft⟩
  · have hnp := hok.keys _ _ (lookup_mem hp)
    have hnq := hok.keys _ _ (lookup_mem hq)
    refine ⟨?_, ?_, ?_⟩
    · intro i hi
      obtain ⟨l, hl, hk⟩ := hrep i hi
      unfold appearances
      by_cases hc1 : i.keyClass = ckoPublic
      · -- a public object: in a pair iff a private entry shares its label+id, else under PUBLIC
        rw [hc1] at hl ⊢
        rw [hp] at hl; obtain rfl := Option.some.inj hl
        obtain ⟨y, hy, hye⟩ := hasKey_iff.mp hk
        simp only [true_or, if_true, hpairs, hlp]
        rw [countKey_eq _ (nodup_keys_filter hnp _), countKey_eq _ (nodup_keys_filter hnp _), ← hye,
          hasKey_filter_self (P := fun k => hasKey privs k) hy,
          hasKey_filter_self (P := fun k => !hasKey privs k) hy]
        cases hasKey privs y.key <;> rfl
      · by_cases hc2 : i.keyClass = ckoPrivate
        · -- a private object: on the pair line of its label+id iff a public entry shares it, else under PRIVATE
          rw [hc2] at hl ⊢
          rw [hq] at hl; obtain rfl := Option.some.inj hl
          obtain ⟨y, hy, hye⟩ := hasKey_iff.mp hk
          simp only [or_true, if_true, hpairs, hlq]
          rw [countKey_eq _ (nodup_keys_filter hnp _), countKey_eq _ (nodup_keys_filter hnq _), ← hye,
            hasKey_filter_self (P := fun k => !hasKey pubs k) hy]
          have : hasKey (pubs.filter fun x => hasKey privs x.key) y.key = hasKey pubs y.key := by
            rw [Bool.eq_iff_iff, hasKey_iff, hasKey_iff]
            constructor
            · rintro ⟨x, hx, e⟩; exact ⟨x, (List.mem_filter.mp hx).1, e⟩
            · rintro ⟨x, hx, e⟩
              exact ⟨x, List.mem_filter.mpr ⟨hx, by rw [e]; exact hasKey_iff.mpr ⟨y, hy, rfl⟩⟩, e⟩
          rw [this]
          cases hasKey pubs y.key <;> rfl
        · -- any other class: under its heading
          simp only [hc1, hc2, or_self, if_false, Nat.zero_add, leftover, hother _ hc1 hc2, hl, Option.getD_some]
          rw [countKey_eq _ (hok.keys _ _ (lookup_mem hl)), hk]; rfl
    · intro x hx
      rw [hpairs] at hx
      exact hsound _ _ hp x (List.mem_filter.mp hx).1
    · intro c x hx
      by_cases hc1 : c = ckoPublic
      · subst hc1; rw [hlp] at hx; exact hsound _ _ hp x (List.mem_filter.mp hx).1
      · by_cases hc2 : c = ckoPrivate
        · subst hc2; rw [hlq] at hx; exact hsound _ _ hq x (List.mem_filter.mp hx).1
        · simp only [leftover, hother c hc1 hc2] at hx
          cases hl : (tableOf infos).lookup c with
          | none => simp [hl] at hx
          | some l => exact hsound _ _ hl x (by simpa [hl] using hx)
  · have hpp : pairPubs L = [] := by simp [pairPubs, hpairs]
    refine ⟨?_, by simp [hpp], ?_⟩
    · intro i hi
      obtain ⟨l, hl, hk⟩ := hrep i hi
      unfold appearances
      simp only [hpp, countKey, List.filter_nil, List.length_nil, ite_self, Nat.zero_add]
      simp only [leftover, hleft, hl, Option.getD_some]
      have := countKey_eq l (hok.keys _ _ (lookup_mem hl)) i.key
      rw [countKey, hk] at this; exact this
    · intro c x hx
      simp only [leftover, hleft] at hx
      cases hl : (tableOf infos).lookup c with
      | none => simp [hl] at hx
      | some l => exact hsound _ _ hl x (by simpa [hl] using hx)

/-- … at the level of the token's OBJECTS: when the listing of a slot of a well-formed store succeeds,
    every public, private or secret key object of that slot — identified by class, label and id, an empty
    CKA_ID counting as "no id" — is shown exactly once, and the store is as it was.  (Objects of other
    classes — data, certificates — are not part of a KEY inventory: `keyInfoView` is `none` for them.) -/
theorem inventory_lists_each_object_once (ext : Externals) (cfg : KmConfig) (st st' : Store) (hw : st.WF)
    (p : String) (n : Nat) (s : SlotSt) (hs : st.slots p n = some s) (L : SlotListing)
    (h : (slotListingP ext cfg p n).runSt st = (.ok L, st')) :
    st' = st ∧ ∀ o ∈ s.objects, ∀ c lab id, keyInfoView o = some (c, lab, id) → appearances L c (lab, id) = 1 := by
  unfold slotListingP at h
  obtain ⟨infos, st1, h1, h2⟩ := runSt_bind_ok h
  have hst : st1 = st := by
    have := (getKeyInventoryP_ro p n).readOnly st
    rw [h1] at this; exact this
  subst hst
  rw [runSt_liftP] at h2
  simp only [Prod.mk.injEq] at h2
  obtain ⟨hf, rfl⟩ := h2
  refine ⟨rfl, ?_⟩
  intro o ho c lab id hv
  have hviews := getKeyInventoryP_ok hs (hw p n s hs).1 h1
  have hm : (c, lab, id) ∈ infos.map KeyInfo.view := by
    rw [hviews, List.mem_filterMap]; exact ⟨o, ho, hv⟩
  obtain ⟨i, hi, hie⟩ := List.mem_map.mp hm
  have := (inventory_lists_each_once ext cfg infos L hf).1 i hi
  simp only [KeyInfo.view, Prod.mk.injEq] at hie
  obtain ⟨rfl, rfl, rfl⟩ := hie
  exact this

/-- **Pairs are by label AND id.**  A label+id is shown as a "Signing key pair" exactly when the slot
    holds a public object and a private object with that label and that id. -/
theorem inventory_pairs_by_label_and_id (ext : Externals) (cfg : KmConfig) (infos : List KeyInfo) (L : SlotListing)
    (h : formatKeysStruct ext cfg (tableOf infos) = .ok L) (k : String × Option Bytes) :
    hasKey (pairPubs L) k = true ↔
      (∃ i ∈ infos, i.keyClass = ckoPublic ∧ i.key = k) ∧ (∃ j ∈ infos, j.keyClass = ckoPrivate ∧ j.key = k) := by
  obtain ⟨hok, _, _⟩ := tableOf_spec infos
  rw [← tableOf_hasKey, ← tableOf_hasKey]
  rcases listing_spec ext cfg (tableOf infos) hok L h with
    ⟨pubs, privs, hp, hq, hpairs, _, _, _⟩ | ⟨hnone, hpairs, _⟩
  · rw [hpairs, hasKey_iff]
    constructor
    · rintro ⟨x, hx, rfl⟩
      obtain ⟨hx1, hx2⟩ := List.mem_filter.mp hx
      exact ⟨⟨pubs, hp, hasKey_iff.mpr ⟨x, hx1, rfl⟩⟩, ⟨privs, hq, hx2⟩⟩
    · rintro ⟨⟨l1, hl1, hk1⟩, ⟨l2, hl2, hk2⟩⟩
      rw [hp] at hl1; rw [hq] at hl2
      obtain rfl := Option.some.inj hl1
      obtain rfl := Option.some.inj hl2
      obtain ⟨x, hx, rfl⟩ := hasKey_iff.mp hk1
      exact ⟨x, List.mem_filter.mpr ⟨hx, hk2⟩, rfl⟩
  · have : hasKey (pairPubs L) k = false := by simp [pairPubs, hpairs, hasKey]
    rw [this]
    constructor
    · intro hf; cases hf
    · rintro ⟨⟨l1, hl1, _⟩, ⟨l2, hl2, _⟩⟩
      rcases hnone with hn | hn
      · rw [hn] at hl1; cases hl1
      · rw [hn] at hl2; cases hl2

/-! ### the verdict on configured KSKs -/

/-- `validateDnskeyMsg` is `validate_dnskey_matches_ksk` with the message kept: same verdict. -/
theorem validateMsg_agrees (ext : Externals) (ksk : KskKey) (dnskey : Key) :
    validateDnskeyMatchesKsk ext ksk dnskey =
      (validateDnskeyMsg ext ksk dnskey).bind (fun o => match o with | none => pure () | some _ => err .runtime) := by
  unfold validateDnskeyMatchesKsk validateDnskeyMsg
  cases hds : ksk.dsSha256 with
  | none =>
    cases hkt : ksk.keyTag with
    | none => simp [bind, Except.bind, pure, Except.pure]
    | some t =>
      by_cases ht : (dnskey.keyTag != t) = true <;> simp [bind, Except.bind, pure, Except.pure, ht, err]
  | some ds =>
    by_cases he : ds.isEmpty = true
    · cases hkt : ksk.keyTag with
      | none => simp [he, bind, Except.bind, pure, Except.pure]
      | some t =>
        by_cases ht : (dnskey.keyTag != t) = true <;> simp [he, bind, Except.bind, pure, Except.pure, ht, err]
    · simp only [he, Bool.false_eq_true, if_false, bind, Except.bind]
      cases hi : dsInput dnskey with
      | error e => rfl
      | ok inp =>
        simp only
        cases hh : hashOrUnknown ext.hash .sha256 inp with
        | error e => rfl
        | ok dg =>
          simp only
          by_cases hd : (ds.toUpper != upperHex dg) = true
          · simp [hd, err, pure, Except.pure]
          · cases hkt : ksk.keyTag with
            | none => simp [hd, pure, Except.pure]
            | some t =>
              by_cases ht : (dnskey.keyTag != t) = true <;> simp [hd, pure, Except.pure, ht, err]

/-- the configured entries the loop of `_format_keys` examines for a label, in configuration order -/
def entriesFor (cfg : KmConfig) (label : String) : List KmKsk := cfg.ksks.filter (fun k => k.ksk.label = label)

theorem kskInfoLoop_bad (ext : Externals) (label pk : String) :
    ∀ (ksks : List KmKsk) (acc res : KskInfo × Option DnsRecords),
      kskInfoLoop ext label pk ksks acc = .ok res →
      (∃ k ∈ ksks, k.ksk.label = label ∧ ∃ dnskey, publicKeyToDnssecKey pk label k.ksk.algorithm 0 257 = .ok dnskey ∧
        validateDnskeyMatchesKsk ext k.ksk dnskey = err .runtime) →
      ∃ l d m, res.1 = .bad l d m := by
  intro ksks
  induction ksks with
  | nil => intro acc res _ ⟨k, hk, _⟩; simp at hk
  | cons k rest ih =>
    intro acc res h hbad
    rw [kskInfoLoop] at h
    by_cases hl : k.ksk.label = label
    · simp only [hl, if_true, bind, Except.bind] at h
      cases hd : publicKeyToDnssecKey pk label k.ksk.algorithm 0 257 with
      | error e => simp [hd] at h
      | ok dnskey =>
        simp only [hd] at h
        cases hf : DnsRecords.fromKey ext.hash dnskey with
        | error e => simp [hf] at h
        | ok dns =>
          simp only [hf] at h
          cases hv : validateDnskeyMsg ext k.ksk dnskey with
          | error e => simp [hv] at h
          | ok o =>
            simp only [hv] at h
            cases o with
            | some msg =>
              simp only [pure, Except.pure, Except.ok.injEq] at h
              subst h; exact ⟨_, _, _, rfl⟩
            | none =>
              simp only at h
              apply ih _ res h
              obtain ⟨k', hk', hl', dk, hdk, hval⟩ := hbad
              rcases List.mem_cons.mp hk' with rfl | hk''
              · exfalso
                rw [hd] at hdk
                obtain rfl := Except.ok.inj hdk
                rw [validateMsg_agrees, hv] at hval
                simp [Except.bind, pure, Except.pure, err] at hval
              · exact ⟨k', hk'', hl', dk, hdk, hval⟩
    · simp only [hl, if_false] at h
      apply ih _ res h
      obtain ⟨k', hk', hl', x⟩ := hbad
      rcases List.mem_cons.mp hk' with rfl | hk''
      · exact absurd hl' hl
      · exact ⟨k', hk'', hl', x⟩

/-- **A configured KSK whose token key does not match is marked BAD.**  For every pair the inventory
    shows: if some configured KSK with the pair's label fails `validate_dnskey_matches_ksk` (configured
    DS SHA-256 or key tag differ from those of the DNSKEY — flags 257, configured algorithm — built from
    the token's public key), the pair's line says `BAD KSK …`. -/
theorem bad_ksk_marked (ext : Externals) (cfg : KmConfig) (data : KeyTable) (L : SlotListing)
    (h : formatKeysStruct ext cfg data = .ok L) (p : PairEntry) (hp : p ∈ L.pairs)
    (hbad : ∃ k ∈ cfg.ksks, k.ksk.label = p.pub.label ∧ ∃ pk dnskey, p.pub.pubkey = some pk ∧
      publicKeyToDnssecKey pk p.pub.label k.ksk.algorithm 0 257 = .ok dnskey ∧
      validateDnskeyMatchesKsk ext k.ksk dnskey = err .runtime) :
    ∃ l d m, p.info = .bad l d m ∧ p.info.text = "BAD KSK '" ++ l ++ "/" ++ d ++ "': " ++ m := by
  unfold formatKeysStruct at h
  cases hpub : data.get ckoPublic with
  | none => simp only [hpub, pure, Except.pure, Except.ok.injEq] at h; subst h; simp at hp
  | some pubs =>
    cases hpriv : data.get ckoPrivate with
    | none => simp only [hpub, hpriv, pure, Except.pure, Except.ok.injEq] at h; subst h; simp at hp
    | some privs =>
      simp only [hpub, hpriv, bind, Except.bind] at h
      cases hl : pairLoop ext cfg pubs { pubs := pubs, privs := privs } with
      | error e => simp [hl] at h
      | ok res =>
        simp only [hl, pure, Except.pure, Except.ok.injEq] at h
        subst h
        rcases pairLoop_entries ext cfg pubs _ res hl p hp with hm | ⟨pk, hpk, hk⟩
        · simp at hm
        · obtain ⟨k, hkm, hlab, pk', dnskey, hpk', hdk, hval⟩ := hbad
          rw [hpk] at hpk'
          obtain rfl := Option.some.inj hpk'
          obtain ⟨l, d, m, hinfo⟩ := kskInfoLoop_bad ext p.pub.label pk cfg.ksks _ _ hk
            ⟨k, hkm, hlab, dnskey, hdk, hval⟩
          simp only at hinfo
          exact ⟨l, d, m, hinfo, by rw [hinfo]; rfl⟩

/-! ## Every reachable state -/

/-- one invocation of the keymaster -/
inductive KmOp where
  | keygen (label : String) (alg : Nat) (size : Option Nat)
  | keydelete (label : String) (force : Bool) (answer : String)
  | inventory (dns : Bool)

/-- the label an invocation names (none for the inventory) -/
def KmOp.label : KmOp → Option String
  | .keygen l _ _ => some l
  | .keydelete l _ _ => some l
  | .inventory _ => none

/-- the store after one invocation — whatever its outcome (return value, exception at any point) -/
def KmOp.run (ext : Externals) (cfg : KmConfig) (mods : List P11Module) : KmOp → Store → Store
  | .keygen l a s, st => ((keygenP ext cfg mods a s (some l)).runSt st).2
  | .keydelete l f a, st => ((keydelP mods l f a).runSt st).2
  | .inventory d, st => ((inventoryP ext cfg mods d).runSt st).2

/-- the store after a sequence of invocations -/
def runOps (ext : Externals) (cfg : KmConfig) (mods : List P11Module) (ops : List KmOp) (st : Store) : Store :=
  ops.foldl (fun st op => op.run ext cfg mods st) st

/-- what one invocation can do to a well-formed store: nothing; remove key objects carrying ITS label; or
    add one pair under ITS label when no key object of a searched slot carried it -/
inductive Effect (mods : List P11Module) (label : Option String) (st st' : Store) : Prop
  | unchanged : st' = st → Effect mods label st st'
  | shrinks (l : String) : label = some l → Shrinks l mods st st' → Effect mods label st st'
  | generated (l path : String) (slot : Nat) (k : PoolKey) : label = some l → (path, slot) ∈ searched mods →
      (∀ p n, (p, n) ∈ searched mods → ∀ o ∈ st.objs p n, o.label = l → ¬ isKeyClass o.cls) →
      Generated l path slot k st st' → Effect mods label st st'

theorem keydelP_store (mods : List P11Module) (label : String) (force : Bool) (answer : String) (st : Store) :
    ((keydelP mods label force answer).runSt st).2 = ((keyDeleteP mods label force answer).runSt st).2 := by
  unfold keydelP
  rw [runSt_bind]
  cases (keyDeleteP mods label force answer).runSt st with
  | mk r s => cases r <;> rfl

theorem op_effect (ext : Externals) (cfg : KmConfig) (mods : List P11Module) (op : KmOp) (st : Store)
    (hw : st.WF) : Effect mods op.label st (op.run ext cfg mods st) := by
  cases op with
  | keygen l a s =>
    simp only [KmOp.run, KmOp.label]
    rcases keygen_store_cases ext cfg mods a s l st with h | ⟨path, slot, k, hsess, hnone, hgen⟩
    · exact .unchanged h
    · obtain ⟨first, rest, hm, hp, _, hs, _⟩ := getSession_spec hsess
      refine .generated l path slot k rfl ?_ hnone hgen
      exact mem_searched.mpr ⟨first, by rw [hm]; exact List.mem_cons_self, hp.symm, hs⟩
  | keydelete l f a =>
    simp only [KmOp.run, KmOp.label, keydelP_store]
    exact .shrinks l rfl (keyDeleteP_shrinks hw f a)
  | inventory d =>
    exact .unchanged (inventory_reads_only ext cfg mods d st)

theorem Effect.wf {mods : List P11Module} {label : Option String} {st st' : Store} (h : Effect mods label st st')
    (hw : st.WF) : st'.WF := by
  cases h with
  | unchanged e => rw [e]; exact hw
  | shrinks l _ hs => exact hs.wf hw
  | generated l path slot k _ _ _ hg => exact hg.wf hw

/-- **Well-formedness is invariant**: after any sequence of invocations handles are still unique per
    slot and below the slot's counter. -/
theorem wf_preserved (ext : Externals) (cfg : KmConfig) (mods : List P11Module) (ops : List KmOp) :
    ∀ st : Store, st.WF → (runOps ext cfg mods ops st).WF := by
  induction ops with
  | nil => intro st h; exact h
  | cons op rest ih =>
    intro st h
    exact ih _ ((op_effect ext cfg mods op st h).wf h)

/-- at most one object of this label and class in the searched slots -/
def AtMostOne (mods : List P11Module) (st : Store) (label : String) (cls : Nat) : Prop :=
  ∀ p n p' n' o o', (p, n) ∈ searched mods → (p', n') ∈ searched mods → o ∈ st.objs p n → o' ∈ st.objs p' n' →
    o.named label cls → o'.named label cls → p = p' ∧ n = n' ∧ o = o'

theorem Effect.atMostOne {mods : List P11Module} {lab : Option String} {st st' : Store}
    (h : Effect mods lab st st') (label : String) (cls : Nat) (hc : isKeyClass cls)
    (ha : AtMostOne mods st label cls) : AtMostOne mods st' label cls := by
  cases h with
  | unchanged e => rw [e]; exact ha
  | shrinks l _ hs =>
    intro p n p' n' o o' hpn hpn' ho ho' hn hn'
    exact ha p n p' n' o o' hpn hpn' (hs.objs_subset _ _ o ho) (hs.objs_subset _ _ o' ho') hn hn'
  | generated l path slot k _ hsearched hnone hg =>
    obtain ⟨s, hslot, htarget⟩ := hg.objs_target
    -- where a named object of the new store can live
    have key : ∀ p n o, (p, n) ∈ searched mods → o ∈ st'.objs p n → o.named label cls →
        (o ∈ st.objs p n) ∨ (l = label ∧ p = path ∧ n = slot ∧
          o = rsaObj (if cls = ckoPublic then s.next else s.next + 1) cls l k) := by
      intro p n o hpn ho hn
      by_cases hps : p = path ∧ n = slot
      · obtain ⟨rfl, rfl⟩ := hps
        rw [htarget] at ho
        simp only [List.mem_append, List.mem_cons, List.not_mem_nil, or_false] at ho
        rcases ho with ho | rfl | rfl
        · exact Or.inl ho
        · right
          obtain ⟨h1, h2⟩ := hn
          simp only [rsaObj] at h1 h2
          subst h1; subst h2
          exact ⟨rfl, rfl, rfl, by simp⟩
        · right
          obtain ⟨h1, h2⟩ := hn
          simp only [rsaObj] at h1 h2
          subst h1; subst h2
          exact ⟨rfl, rfl, rfl, by simp [ckoPublic, ckoPrivate]⟩
      · rw [hg.objs_other hps] at ho; exact Or.inl ho
    intro p n p' n' o o' hpn hpn' ho ho' hn hn'
    rcases key p n o hpn ho hn with h1 | ⟨rfl, rfl, rfl, rfl⟩ <;>
      rcases key p' n' o' hpn' ho' hn' with h2 | ⟨hl2, rfl, rfl, rfl⟩
    · exact ha p n p' n' o o' hpn hpn' h1 h2 hn hn'
    · have f := hnone p n hpn o h1 (hl2 ▸ hn.1)
      rw [hn.2] at f; exact absurd hc f
    · have f := hnone p' n' hpn' o' h2 hn'.1
      rw [hn'.2] at f; exact absurd hc f
    · exact ⟨rfl, rfl, rfl⟩

/-- **No label ever gets a second key.**  Over ALL sequences of keygen / keydelete / inventory
    invocations (any labels, sizes, algorithms, answers, configurations; no bound on the length), from any
    well-formed store: a label that named at most one public (private) object in the searched slots
    still names at most one afterwards — "no label has two private objects unless it had before". -/
theorem no_second_key_ever (ext : Externals) (cfg : KmConfig) (mods : List P11Module) (ops : List KmOp)
    (label : String) (cls : Nat) (hc : isKeyClass cls) :
    ∀ st : Store, st.WF → AtMostOne mods st label cls → AtMostOne mods (runOps ext cfg mods ops st) label cls := by
  induction ops with
  | nil => intro st _ h; exact h
  | cons op rest ih =>
    intro st hw h
    have he := op_effect ext cfg mods op st hw
    exact ih _ (he.wf hw) (he.atMostOne label cls hc h)

theorem Effect.other_label {mods : List P11Module} {lab : Option String} {st st' : Store}
    (h : Effect mods lab st st') (label : String) (hne : lab ≠ some label) (p : String) (n : Nat) (o : Obj)
    (hl : o.label = label) : o ∈ st'.objs p n ↔ o ∈ st.objs p n := by
  cases h with
  | unchanged e => rw [e]
  | shrinks l hl' hs =>
    constructor
    · exact hs.objs_subset p n o
    · intro ho
      by_cases hn : o ∈ st'.objs p n
      · exact hn
      · exfalso
        obtain ⟨h1, _, _⟩ := hs.gone ho hn
        exact hne (by rw [hl', ← hl, h1])
  | generated l path slot k hlab _ _ hg =>
    obtain ⟨s, _, htarget⟩ := hg.objs_target
    have hll : l ≠ label := by intro e; exact hne (by rw [hlab, e])
    by_cases hps : p = path ∧ n = slot
    · obtain ⟨rfl, rfl⟩ := hps
      rw [htarget]
      simp only [List.mem_append, List.mem_cons, List.not_mem_nil, or_false]
      constructor
      · rintro (h | rfl | rfl)
        · exact h
        · exact absurd hl hll
        · exact absurd hl hll
      · exact Or.inl
    · rw [hg.objs_other hps]

/-- **Other labels are never touched.**  Over ALL sequences of invocations from a well-formed store: an
    object whose label none of the invocations names is in a slot afterwards exactly if it was before —
    nothing is clobbered, nothing appears. -/
theorem other_labels_untouched (ext : Externals) (cfg : KmConfig) (mods : List P11Module) (ops : List KmOp)
    (label : String) (hops : ∀ op ∈ ops, op.label ≠ some label) :
    ∀ st : Store, st.WF → ∀ p n o, o.label = label →
      (o ∈ (runOps ext cfg mods ops st).objs p n ↔ o ∈ st.objs p n) := by
  induction ops with
  | nil => intro st _ p n o _; exact Iff.rfl
  | cons op rest ih =>
    intro st hw p n o hl
    have he := op_effect ext cfg mods op st hw
    have h1 := ih (fun x hx => hops x (List.mem_cons_of_mem _ hx)) _ (he.wf hw) p n o hl
    exact h1.trans (he.other_label label (hops op List.mem_cons_self) p n o hl)

/-! ## Non-vacuity: a two-slot token

Slot 0 of module "m" holds an unrelated pair `Kb` (handles 1, 2); slot 1 holds the pair `Ka` — ALSO with
handles 1 and 2 (handles are per slot).  This is the F9b layout: deleting `Ka` must go through slot 1. -/

def exKey (n : UInt8) : PoolKey := { bits := 16, e := 65537, modulus := [0x80, n], exponent := [1, 0, 1] }

def exStore : Store :=
  { slots := fun p n =>
      if p = "m" ∧ n = 0 then
        some { objects := [rsaObj 1 ckoPublic "Kb" (exKey 1), rsaObj 2 ckoPrivate "Kb" (exKey 1)], next := 3 }
      else if p = "m" ∧ n = 1 then
        some { objects := [rsaObj 1 ckoPublic "Ka" (exKey 2), rsaObj 2 ckoPrivate "Ka" (exKey 2)], next := 3 }
      else none,
    pool := [exKey 7] }

def exMods : List P11Module := [{ label := "hsm", path := "m", slots := [1, 0], sessions := [1, 0], rwSession := true }]

/-- the labels of the objects of module "m", slot by slot -/
def exView (st : Store) : List (List (Nat × String × Nat)) :=
  [0, 1].map (fun n => (st.objs "m" n).map (fun o => (o.handle, o.label, o.cls)))

-- forced deletion of `Ka`: exactly the two objects of slot 1 go, slot 0 is untouched, result `true`
example : ((keyDeleteP exMods "Ka" true "").runSt exStore).1 = .ok true ∧
    exView ((keyDeleteP exMods "Ka" true "").runSt exStore).2 = [[(1, "Kb", 2), (2, "Kb", 3)], []] := by
  decide +kernel
-- "yes" is not "Yes": nothing happens (and the result is `true`, as in the code)
example : ((keyDeleteP exMods "Ka" false "yes").runSt exStore).1 = .ok true ∧
    exView ((keyDeleteP exMods "Ka" false "yes").runSt exStore).2 = exView exStore := by
  decide +kernel
-- generation under the existing label `Ka` is refused, the store is unchanged
example : (∃ e, ((keygenGenerateP exMods 8 (some 16) (some "Ka")).runSt exStore).1 = .ok none ∨
      ((keygenGenerateP exMods 8 (some 16) (some "Ka")).runSt exStore).1 = .error e) ∧
    exView ((keygenGenerateP exMods 8 (some 16) (some "Ka")).runSt exStore).2 = exView exStore := by
  refine ⟨⟨.unsupported, Or.inl ?_⟩, ?_⟩ <;> decide +kernel
-- generation under a new label adds the pair to slot 0 (the smallest slot) at handles 3 and 4
example : exView ((keygenGenerateP exMods 8 (some 16) (some "Kc")).runSt exStore).2 =
    [[(1, "Kb", 2), (2, "Kb", 3), (3, "Kc", 2), (4, "Kc", 3)], [(1, "Ka", 2), (2, "Ka", 3)]] := by
  decide +kernel
-- the hypotheses of `delete_true_removes_private` and `no_second_key_ever` hold of this store
example : (rsaObj 2 ckoPrivate "Ka" (exKey 2)) ∈ exStore.objs "m" 1 ∧ (("m", 1) ∈ searched exMods) := by
  decide +kernel
-- a listing: a pair, an unpaired public entry (the F14 shape) and an unpaired private one
def exInfos : List KeyInfo :=
  [{ keyClass := ckoPublic, label := "Ka", pubkey := some "AwEAAYAB" },
   { keyClass := ckoPrivate, label := "Ka" },
   { keyClass := ckoPrivate, label := "Orphan" },
   { keyClass := ckoPublic, label := "Lonely", pubkey := some "AwEAAYAC" }]
example : (formatKeysStruct { hash := fun _ _ => none, verify := fun _ _ _ _ => .unknown } { ksks := [] }
      (tableOf exInfos)).toOption.map (fun L => ((pairPubs L).map (·.label), (leftover L ckoPublic).map (·.label),
        (leftover L ckoPrivate).map (·.label))) = some (["Ka"], ["Lonely"], ["Orphan"]) := by
  decide +kernel

/-! ## The keymaster's token lookups ARE the signer's token lookups

Kskm/Keymaster.lean writes `_p11_object_to_public_key`, `find_key_by_label` and `get_p11_key` as programs
(`…P`) so that they can be run against a store; Kskm/Hsm.lean has the same repository functions as `TokM`
computations, about which C15 / C04 / C01–C03 speak.  The two texts were tied to each other only through
the code (both replay the emulator's log).  Here the tie is a theorem: the oracle interpretation `runTok` of
each program EQUALS the `TokM` function — as functions of the token and the state, so result, final
operation count and final log agree for every token oracle (any fault plan) and every starting state.
(The `sessions` enumeration is not duplicated: the keymaster model reads `P11Module.sessions` as
initialised by `P11Module.init` of Kskm/Hsm.lean.)  Lemmas: KskmProofs/Lemmas/KmHsmEq.lean. -/

/-- `runTok` is a monad morphism from programs to `TokM` … -/
theorem runTok_morphism {α β} (p : Prog α) (f : α → Prog β) (a : α) (op : TokOp) (e : Fail) :
    (p >>= f).runTok = (p.runTok >>= fun x => (f x).runTok) ∧ (pure a : Prog α).runTok = (pure a : TokM α) ∧
    (Prog.fail e : Prog α).runTok = TokM.fail e ∧ (askP op).runTok = Kskm.ask op ∧
    (askOkP op).runTok = Kskm.askOk op :=
  ⟨runTok_bind p f, rfl, rfl, runTok_askP op, runTok_askOkP op⟩

/-- **… under which every lookup of kskm/misc/hsm.py that the keymaster model re-states is the `TokM`
    function of Kskm/Hsm.lean.** -/
theorem km_lookups_are_hsm_lookups :
    (∀ a, (attr1P a).runTok = attr1 a) ∧ (∀ a, (attrBytesP a).runTok = attrBytes a) ∧
    (∀ path slot handle, (p11ObjectToPublicKeyP path slot handle).runTok = p11ObjectToPublicKey path slot handle) ∧
    (∀ m label cls hh slot h pk,
      (foundKeyTailP m label cls hh slot h pk).runTok = foundKeyTail m label cls hh slot h pk) ∧
    (∀ m label cls hh slot h, (foundKeyP m label cls hh slot h).runTok = foundKey m label cls hh slot h) ∧
    (∀ m label cls hh slots, (findInSlotsP m label cls hh slots).runTok = findInSlots m label cls hh slots) ∧
    (∀ label isPublic hh mods, (getP11KeyP label isPublic hh mods).runTok = getP11Key label isPublic hh mods) :=
  ⟨runTok_attr1P, runTok_attrBytesP, runTok_p11ObjectToPublicKeyP, runTok_foundKeyTailP, runTok_foundKeyP,
    runTok_findInSlotsP, runTok_getP11KeyP⟩

/-- the same, spelled out for `get_p11_key`: for every token, state and arguments the keymaster's lookup
    returns the signer's result and leaves the signer's operation count and log -/
theorem km_getP11Key_is_hsm_getP11Key (label : String) (isPublic : Bool) (hh : Option Bool) (mods : List P11Module)
    (tok : Token) (s : TokState) :
    ((getP11KeyP label isPublic hh mods).runTok tok s).1 = (getP11Key label isPublic hh mods tok s).1 ∧
    ((getP11KeyP label isPublic hh mods).runTok tok s).2.count = (getP11Key label isPublic hh mods tok s).2.count ∧
    ((getP11KeyP label isPublic hh mods).runTok tok s).2.log = (getP11Key label isPublic hh mods tok s).2.log := by
  rw [runTok_getP11KeyP]
  exact ⟨rfl, rfl, rfl⟩

/-- … likewise `find_key_by_label` on one module and `_p11_object_to_public_key` on one object -/
theorem km_find_is_hsm_find (m : P11Module) (label : String) (cls : Nat) (hh : Option Bool) (slots : List Nat)
    (path : String) (slot handle : Nat) (tok : Token) (s : TokState) :
    (findInSlotsP m label cls hh slots).runTok tok s = findInSlots m label cls hh slots tok s ∧
    (p11ObjectToPublicKeyP path slot handle).runTok tok s = p11ObjectToPublicKey path slot handle tok s := by
  rw [runTok_findInSlotsP, runTok_p11ObjectToPublicKeyP]
  exact ⟨rfl, rfl⟩

/-- **A theorem about the `TokM` lookup is a theorem about the keymaster's** — here the operation-log
    theorem of KskmProofs/Lemmas/Hsm.lean (`getP11Key_emits`, the basis of C04/C18's "no private-key
    operation"): whatever the token answers, `get_p11_key` as the keymaster runs it issues only `findObjects`
    / `getAttr` on the listed modules, never a `C_Sign`, and the counter advances by the number of logged
    operations.  (C15's `find_first` / `find_duplicate` / `getP11Key_first_module` are carried over the same
    way at the end of KskmProofs/C15.lean, where the store-backed token of C15 is in scope.) -/
theorem km_getP11Key_reads_only (label : String) (isPublic : Bool) (hh : Option Bool) (mods : List P11Module)
    (tok : Token) (s : TokState) :
    ∃ l : List (TokOp × TokAns),
      ((getP11KeyP label isPublic hh mods).runTok tok s).2.log = l ++ s.log ∧
      ((getP11KeyP label isPublic hh mods).runTok tok s).2.count = s.count + l.length ∧
      ∀ e ∈ l, IsReadAmong mods e.1 ∧ isSignOp e.1 = false := by
  rw [runTok_getP11KeyP]
  obtain ⟨l, h1, h2, h3⟩ := getP11Key_emits label isPublic hh mods tok s
  exact ⟨l, h1, h2, fun e he => ⟨h3 e he, (h3 e he).not_sign⟩⟩

/-- non-vacuity: on the two-slot example token's module list the two texts give the same answer to a
    concrete oracle (every `findObjects` answered "one object, handle 7", every attribute read refused) -/
example :
    (getP11KeyP "Ka" true none exMods).runTok (fun _ op => match op with
      | .findObjects .. => .handles [7] | _ => .error) {} =
    getP11Key "Ka" true none exMods (fun _ op => match op with
      | .findObjects .. => .handles [7] | _ => .error) {} := by
  rw [runTok_getP11KeyP]

end Kskm.C19
