/-
  C15 — the PKCS#11 layer finds the right key and hands the token the right octets.
  Part 1: mechanism / padding / environment theorems.
  Part 2: sessions, lookup by label (healthy token `storeToken` of Lemmas/HsmStore.lean, and every
  token where the statement allows), module order, attribute → key conversion, the one signing
  operation.  Helper lemmas and the views `foundKey`, `ecDerive`, `refusedIn` are in
  KskmProofs/Lemmas/Hsm.lean, each tied to the model by a proved equation.
-/
import Kskm.Hsm
import KskmGen.Tables
import KskmProofs.Lemmas.HsmStore
import KskmProofs.Lemmas.KmHsmEq
import KskmProofs.Lemmas.Base64
import KskmProofs.C14
import KskmProofs.Lemmas.C15HsmConfig
namespace Kskm.C15

/-! ## Constants and the mechanism table are those of the code and of PKCS#11 -/

/-- the PKCS#11 numbers used by the model are the ones PyKCS11 exports -/
theorem ckm_constants :
    KskmGen.ckm = [("CKM_RSA_X_509", ckmRsaX509), ("CKM_SHA1_RSA_PKCS", ckmSha1RsaPkcs),
      ("CKM_SHA256_RSA_PKCS", ckmSha256RsaPkcs), ("CKM_SHA512_RSA_PKCS", ckmSha512RsaPkcs),
      ("CKM_ECDSA", ckmEcdsa), ("CKM_ECDSA_SHA256", ckmEcdsaSha256),
      ("CKM_ECDSA_SHA384", ckmEcdsaSha384), ("CKM_EDDSA", ckmEddsa)] := by decide

/-- **Mechanism table.** For every DNSSEC algorithm number and hashing mode, the model's mechanism
    choice equals what `_format_data_for_signing` does in /repo (tabulated by execution on every
    run), except that the tabulation probes with an RSA key and therefore records no mechanism where
    the code fails before choosing. -/
theorem mechanism_table :
    ∀ row ∈ KskmGen.mechanismTable,
      (row.2.2.1.isSome → mechanismFor row.2.1 row.1 = row.2.2.1) := by decide +kernel

/-- the documented map: (algorithm, hash on token) ↦ mechanism -/
theorem mechanism_documented :
    mechanismFor false 8 = some ckmRsaX509 ∧ mechanismFor false 10 = some ckmRsaX509 ∧
    mechanismFor false 13 = some ckmEcdsa ∧ mechanismFor false 14 = some ckmEcdsa ∧
    mechanismFor true 8 = some ckmSha256RsaPkcs ∧ mechanismFor true 10 = some ckmSha512RsaPkcs ∧
    mechanismFor true 13 = some ckmEcdsaSha256 ∧ mechanismFor true 14 = some ckmEcdsaSha384 ∧
    (∀ a, a < 256 → a ∉ [5, 8, 10, 13, 14, 15, 16] → mechanismFor false a = none ∧ mechanismFor true a = none) := by
  refine ⟨rfl, rfl, rfl, rfl, rfl, rfl, rfl, rfl, ?_⟩
  decide +kernel

/-- DigestInfo prefixes are the RFC 8017 §9.2 note 1 values the code uses (regenerated table) -/
theorem digestinfo_table :
    KskmGen.digestInfoPrefix =
      [(5, digestInfoSha1.map (·.toNat)), (8, digestInfoSha256.map (·.toNat)),
       (10, digestInfoSha512.map (·.toNat))] := by decide

/-! ## EMSA-PKCS1-v1_5 (RFC 8017 §9.2) -/

/-- **Raw RSA input.** For every modulus length `k` with `k ≥ |T| + 11` the block handed over is
    `00 01 PS 00 T` with `PS` = `k − |T| − 3` octets `FF`, at least eight of them, and is exactly `k`
    octets long. -/
theorem emsa_eq_rfc8017 (k : Nat) (t : Bytes) (h : t.length + 11 ≤ k) :
    ∃ ps : Bytes, emsaBlock k t = [0x00, 0x01] ++ ps ++ [0x00] ++ t ∧
      ps.length = k - t.length - 3 ∧ 8 ≤ ps.length ∧ (∀ b ∈ ps, b = 0xff) ∧
      (emsaBlock k t).length = k := by
  refine ⟨List.replicate (k - t.length - 3) 0xff, rfl, by simp, by simp; omega, ?_, ?_⟩
  · intro b hb; exact (List.mem_replicate.mp hb).2
  · simp [emsaBlock]; omega

/-- when the modulus is too short for the encoding the block is NOT `k` octets long (so a healthy
    token refuses it): the tool never silently truncates `T` -/
theorem emsa_short_modulus (k : Nat) (t : Bytes) (h : k < t.length + 3) :
    (emsaBlock k t).length = t.length + 3 := by
  simp [emsaBlock]; omega

/-! ## What reaches the token -/

theorem onHsm_false (key : P11Key) (hk : key.hashUsingHsm ≠ some true) :
    (key.hashUsingHsm == some true) = false := by
  cases hh : key.hashUsingHsm with
  | none => rfl
  | some b => cases b <;> simp_all

/-- **Hash on token: data untouched, mechanism matching the algorithm.** -/
theorem hash_on_token_untouched (hash : Hasher) (key : P11Key) (data : Bytes) (alg : Nat) (d : DataToSign)
    (hk : key.hashUsingHsm = some true) (ha : alg ∈ [5, 8, 10, 13, 14])
    (h : formatDataForSigning hash key data alg = .ok d) :
    d.data = data ∧ some d.mechanism = mechanismFor true alg ∧ d.hashUsingHsm = true := by
  simp only [List.mem_cons, List.mem_nil_iff, or_false] at ha
  have hon : (key.hashUsingHsm == some true) = true := by simp [hk]
  unfold formatDataForSigning at h
  simp only [hon] at h
  rcases ha with rfl | rfl | rfl | rfl | rfl
  all_goals
    simp only [mechanismFor, algRSASHA1, algRSASHA256, algRSASHA512, algECDSAP256, algECDSAP384,
      ckmSha1RsaPkcs, ckmSha256RsaPkcs, ckmSha512RsaPkcs, ckmEcdsaSha256, ckmEcdsaSha384] at h ⊢
    simp at h
    subst h
    simp

/-- **Raw ECDSA: the matching digest, nothing else.** -/
theorem raw_ecdsa_is_digest (hash : Hasher) (key : P11Key) (data : Bytes) (alg : Nat) (d : DataToSign)
    (hk : key.hashUsingHsm ≠ some true) (ha : alg = 13 ∨ alg = 14)
    (h : formatDataForSigning hash key data alg = .ok d) :
    d.mechanism = ckmEcdsa ∧
    hash (if alg = 13 then .sha256 else .sha384) data = some d.data := by
  have hk' := onHsm_false key hk
  unfold formatDataForSigning at h
  simp only [hk'] at h
  rcases ha with rfl | rfl
  all_goals
    simp only [mechanismFor, ecdsaHashFor, algRSASHA1, algRSASHA256, algRSASHA512, algECDSAP256,
      algECDSAP384, ckmEcdsa, ckmEcdsaSha256, ckmEcdsaSha384, ckmSha1RsaPkcs, ckmSha256RsaPkcs,
      ckmSha512RsaPkcs, ckmRsaX509] at h ⊢
    simp at h
    split at h
    · simp [unsupported] at h
    · rename_i dg hdg
      simp at h
      subst h
      simp [hdg]

/-- **Raw RSA: the full-modulus-length EMSA encoding of the digest matching the algorithm.** -/
theorem raw_rsa_is_emsa (hash : Hasher) (key : P11Key) (data : Bytes) (alg : Nat) (d : DataToSign)
    (hk : key.hashUsingHsm ≠ some true) (ha : alg = 8 ∨ alg = 10)
    (h : formatDataForSigning hash key data alg = .ok d) :
    ∃ pk pub digest, key.publicKey = some pk ∧ rsaDecode pk alg = .ok pub ∧
      hash (if alg = 8 then .sha256 else .sha512) data = some digest ∧
      d.mechanism = ckmRsaX509 ∧
      d.data = emsaBlock (pub.bits / 8) ((if alg = 8 then digestInfoSha256 else digestInfoSha512) ++ digest) := by
  have hk' := onHsm_false key hk
  unfold formatDataForSigning at h
  simp only [hk'] at h
  rcases ha with rfl | rfl
  all_goals
    simp only [mechanismFor, rsaDigestFor, algRSASHA1, algRSASHA256, algRSASHA512, algECDSAP256,
      algECDSAP384, ckmEcdsa, ckmEcdsaSha256, ckmEcdsaSha384, ckmSha1RsaPkcs, ckmSha256RsaPkcs,
      ckmSha512RsaPkcs, ckmRsaX509] at h ⊢
    simp at h
    split at h
    · simp [unsupported] at h
    · rename_i dg hdg
      split at h
      · simp [err] at h
      · rename_i pk hpk
        split at h
        · simp [err] at h
        · split at h
          · simp at h
          · rename_i pub hpub
            simp at h
            subst h
            exact ⟨pk, pub, dg, hpk, hpub, by simpa using hdg, rfl, by simp⟩

/-- **Symmetric key types are never used**: no operation reaches the token, for every token. -/
theorem symmetric_never_signs (hash : Hasher) (key : P11Key) (data : Bytes) (alg : Nat) (tok : Token)
    (s : TokState) (hk : key.keyType = .aes ∨ key.keyType = .des3) :
    signUsingP11 hash key data alg tok s = (.error (.error .value), s) := by
  rcases hk with h | h <;> simp [signUsingP11, h, TokM.err, TokM.fail, bind]

/-! ## The process environment is restored -/

theorem restore_fold (saved : List (String × Option String)) (f : Env) (k : String) (v : Option String)
    (hv : ∀ p ∈ saved, p.1 = k → p.2 = v) :
    envRestore f saved k = if saved.any (·.1 = k) then v else f k := by
  unfold envRestore
  induction saved generalizing f with
  | nil => simp
  | cons p r ih =>
    simp only [List.foldl_cons, List.any_cons]
    rw [ih _ (fun q hq => hv q (List.mem_cons_of_mem _ hq))]
    by_cases hr : r.any (·.1 = k) = true
    · simp [hr]
    · simp only [hr, Bool.false_eq_true, ↓reduceIte, Bool.or_false]
      by_cases hp : p.1 = k
      · have := hv p (List.mem_cons_self) hp
        cases hp2 : p.2 with
        | none => simp [hp, Env.del, ← this, hp2]
        | some w => simp [hp, Env.set, ← this, hp2]
      · have hk : ¬ k = p.1 := fun h => hp h.symm
        cases hp2 : p.2 with
        | none => simp [hp, hk, Env.del]
        | some w => simp [hp, hk, Env.set]

theorem update_untouched (h : List (String × String)) (e : Env) (k : String)
    (hk : h.any (·.1 = k) = false) : envUpdate e h k = e k := by
  unfold envUpdate
  induction h generalizing e with
  | nil => rfl
  | cons p r ih =>
    simp only [List.any_cons, Bool.or_eq_false_iff, decide_eq_false_iff_not] at hk
    simp only [List.foldl_cons]
    rw [ih _ hk.2]
    have : ¬ k = p.1 := fun h => hk.1 h.symm
    simp [Env.set, this]

/-- **The process environment is restored.** For every environment and every HSM `env` map (any
    keys, any values, added or overriding), after the save / update / restore sequence of
    `KSKM_P11Module.__init__` every variable has exactly its original value (or is absent again). -/
theorem env_restored (e : Env) (h : List (String × String)) (k : String) :
    envRestore (envUpdate e h) (envSaved e h) k = e k := by
  rw [restore_fold (envSaved e h) _ k (e k)]
  · by_cases hk : (envSaved e h).any (·.1 = k) = true
    · simp [hk]
    · have hk' : h.any (·.1 = k) = false := by
        have : (envSaved e h).any (·.1 = k) = h.any (·.1 = k) := by
          simp only [envSaved, List.any_map]; rfl
        rw [← this]; exact Bool.eq_false_iff.mpr hk
      simp only [hk, Bool.false_eq_true, ↓reduceIte]
      exact update_untouched h e k hk'
  · intro p hp hpk
    simp only [envSaved, List.mem_map] at hp
    obtain ⟨q, _, rfl⟩ := hp
    simp at hpk ⊢
    rw [hpk]

/-- while the module is loaded every variable of the map has its configured value (last one wins) -/
theorem env_during (e : Env) (h : List (String × String)) (k v : String)
    (hlast : ∃ pre post, h = pre ++ [(k, v)] ++ post ∧ post.any (·.1 = k) = false) :
    envUpdate e h k = some v := by
  obtain ⟨pre, post, rfl, hpost⟩ := hlast
  unfold envUpdate
  rw [List.foldl_append, List.foldl_append]
  have := update_untouched post ((pre.foldl (fun acc p => acc.set p.1 p.2) e).set k v) k hpost
  unfold envUpdate at this
  simp only [List.foldl_cons, List.foldl_nil]
  rw [this]
  simp [Env.set]

/-! ## Non-vacuity -/

example : (emsaBlock 128 (digestInfoSha256 ++ List.replicate 32 0xab)).length = 128 := by decide
example : mechanismFor true 8 = some 64 := by decide

/-! # Part 2 -/

/-! ## The `sessions` property: failed slots are dropped -/

/-- **Failed slots are dropped, the others kept in order** — for EVERY token (any fault plan).
    `l` is what was logged; `refusedIn m.path l sl` says the oracle answered `.error` to the
    open-session or to the login on slot `sl`.  The resulting `sessions` are exactly the slots (in
    order) that were not refused, `slots` lost exactly the refused ones, nothing else changes. -/
theorem sessions_drop_failed (m : P11Module) (tok : Token) (slots : List Nat) (hnd : slots.Nodup) :
    ∀ (acc : P11Module) (s : TokState), ∃ m' s' l,
      openSessions m slots acc tok s = (.ok m', s') ∧ s'.log = l ++ s.log ∧
      (∀ x, x ∉ slots → refusedIn m.path l x = false) ∧
      m' = { acc with
        sessions := acc.sessions ++ slots.filter (fun sl => !refusedIn m.path l sl),
        slots := acc.slots.filter (fun sl => !refusedIn m.path l sl) } := by
  induction slots with
  | nil =>
    intro acc s
    refine ⟨acc, s, [], rfl, rfl, fun _ _ => rfl, ?_⟩
    cases acc; simp only [refusedIn, List.any_nil, Bool.not_false, List.filter_nil, List.append_nil]
    congr 1
    exact (List.filter_eq_self.mpr (fun _ _ => rfl)).symm
  | cons slot rest ih =>
    intro acc s
    have hnotin : slot ∉ rest := (List.nodup_cons.mp hnd).1
    obtain ⟨l₁, hl1, hr1s, hr1x⟩ := openOne_log m slot tok s
    rw [openSessions_cons_run]
    obtain ⟨m', s', l₂, hrun, hl2, h2, hm'⟩ := ih (List.nodup_cons.mp hnd).2
      (if (openOne m slot tok s).1 then keepSlot acc slot else dropSlot acc slot) (openOne m slot tok s).2
    have hrs : refusedIn m.path (l₂ ++ l₁) slot = !(openOne m slot tok s).1 := by
      rw [refusedIn_append, h2 slot hnotin, hr1s, Bool.false_or]
    have hrx : ∀ x, x ≠ slot → refusedIn m.path (l₂ ++ l₁) x = refusedIn m.path l₂ x := by
      intro x hx; rw [refusedIn_append, hr1x x hx, Bool.or_false]
    have hfr : rest.filter (fun sl => !refusedIn m.path (l₂ ++ l₁) sl) =
        rest.filter (fun sl => !refusedIn m.path l₂ sl) := by
      apply List.filter_congr
      intro x hx
      rw [hrx x (fun h => hnotin (h ▸ hx))]
    refine ⟨m', s', l₂ ++ l₁, hrun, by rw [hl2, hl1, List.append_assoc], ?_, ?_⟩
    · intro x hx
      have hx1 : x ≠ slot := fun h => hx (h ▸ List.mem_cons_self)
      have hx2 : x ∉ rest := fun h => hx (List.mem_cons_of_mem _ h)
      rw [hrx x hx1, h2 x hx2]
    · rw [hm']
      cases hk : (openOne m slot tok s).1
      · -- dropped
        rw [hk] at hrs
        simp only [Bool.false_eq_true, ↓reduceIte, dropSlot, List.filter_cons, hrs, hfr,
          List.filter_filter]
        congr 1
        apply List.filter_congr
        intro x _
        by_cases hx : x = slot
        · subst hx; simp [hrs]
        · rw [hrx x hx]; simp [hx]
      · -- kept
        rw [hk] at hrs
        simp only [↓reduceIte, keepSlot, List.filter_cons, hrs, hfr, List.append_assoc,
          List.singleton_append]
        congr 1
        apply List.filter_congr
        intro x _
        by_cases hx : x = slot
        · subst hx; rw [hrs, h2 x hnotin]; rfl
        · rw [hrx x hx]

/-- the same on a healthy token, by `loginOk` (no distinctness hypothesis needed) -/
theorem sessions_drop_failed_store (st : Store) (ok : String → Nat → Bool) (m : P11Module)
    (slots : List Nat) : ∀ (acc : P11Module) (s : TokState), ∃ s',
      openSessions m slots acc (storeToken st ok) s =
        (.ok { acc with
          sessions := acc.sessions ++ slots.filter (fun sl => ok m.path sl),
          slots := acc.slots.filter (fun x => !(slots.contains x && !ok m.path x)) }, s') := by
  induction slots with
  | nil =>
    intro acc s
    refine ⟨s, ?_⟩
    cases acc
    simp only [openSessions, TokM.pure_run, List.filter_nil, List.append_nil, List.contains_nil,
      Bool.false_and, Bool.not_false]
    congr 3
    exact (List.filter_eq_self.mpr (fun _ _ => rfl)).symm
  | cons sl rest ih =>
    intro acc s
    rw [openSessions_cons_run]
    have hone : (openOne m sl (storeToken st ok) s).1 = ok m.path sl := by
      unfold openOne
      simp only [storeToken_open, storeToken_login]
      cases hok : ok m.path sl <;> simp
      split <;> simp
    rw [hone]
    obtain ⟨s', hs'⟩ := ih (if ok m.path sl = true then keepSlot acc sl else dropSlot acc sl)
      (openOne m sl (storeToken st ok) s).2
    refine ⟨s', ?_⟩
    rw [hs']
    cases hok : ok m.path sl
    · simp only [Bool.false_eq_true, ↓reduceIte, dropSlot, List.filter_cons, hok, List.filter_filter]
      congr 3
      apply List.filter_congr
      intro x _
      by_cases hx : x = sl
      · subst hx; simp [hok]
      · simp [hx]
    · simp only [↓reduceIte, keepSlot, List.filter_cons, hok, List.append_assoc, List.singleton_append]
      congr 3
      apply List.filter_congr
      intro x _
      by_cases hx : x = sl
      · subst hx; simp [hok]
      · simp [hx]

/-! ## Lookup by label on a healthy token (`storeToken`) -/

/-- the log entries of querying the slots `pre`, all of which answered "no such object" (newest first) -/
def emptyAnswers (m : P11Module) (label : String) (cls : Nat) (pre : List Nat) : List (TokOp × TokAns) :=
  (pre.map fun sl => (findOp m label cls sl, TokAns.handles [])).reverse

/-- the state after those queries -/
def afterEmpty (m : P11Module) (label : String) (cls : Nat) (pre : List Nat) (s : TokState) : TokState :=
  { count := s.count + pre.length, log := emptyAnswers m label cls pre ++ s.log }

/-- slots without a matching object are passed over, one `findObjects` each -/
theorem find_skip_empty (st : Store) (ok : String → Nat → Bool) (m : P11Module) (label : String)
    (cls : Nat) (hh : Option Bool) (pre rest : List Nat)
    (hpre : ∀ sl ∈ pre, matching st m label cls sl = []) (s : TokState) :
    findInSlots m label cls hh (pre ++ rest) (storeToken st ok) s =
      findInSlots m label cls hh rest (storeToken st ok) (afterEmpty m label cls pre s) := by
  induction pre generalizing s with
  | nil => simp [afterEmpty, emptyAnswers]
  | cons sl pre ih =>
    have h0 : matching st m label cls sl = [] := hpre sl List.mem_cons_self
    rw [List.cons_append, findInSlots_cons_empty _ _ _ _ _ _ _ _ (by rw [storeToken_find, h0]; rfl),
      ih (fun x hx => hpre x (List.mem_cons_of_mem _ hx))]
    congr 1
    simp [afterEmpty, emptyAnswers, TokState.push]
    omega

/-- **(a) No slot has a matching object ⇒ "not found"**, after exactly one query per slot. -/
theorem find_none (st : Store) (ok : String → Nat → Bool) (m : P11Module) (label : String)
    (cls : Nat) (hh : Option Bool) (slots : List Nat)
    (hall : ∀ sl ∈ slots, matching st m label cls sl = []) (s : TokState) :
    findInSlots m label cls hh slots (storeToken st ok) s =
      (.ok none, afterEmpty m label cls slots s) := by
  have := find_skip_empty st ok m label cls hh slots [] hall s
  rw [List.append_nil] at this
  rw [this]; rfl

/-- **(b) The first slot that has any matching object has exactly one ⇒ the outcome is that of
    reading this object** (`foundKey` on its handle): the `findObjects` queries issued are exactly
    those for the slots up to and including `s₀`; what comes after `s₀` plays no role. -/
theorem find_first (st : Store) (ok : String → Nat → Bool) (m : P11Module) (label : String)
    (cls : Nat) (hh : Option Bool) (pre post : List Nat) (s₀ : Nat) (o : StoreObj)
    (hpre : ∀ sl ∈ pre, matching st m label cls sl = [])
    (hone : matching st m label cls s₀ = [o]) (s : TokState) :
    findInSlots m label cls hh (pre ++ s₀ :: post) (storeToken st ok) s =
      foundKey m label cls hh s₀ o.handle (storeToken st ok)
        ((afterEmpty m label cls pre s).push (findOp m label cls s₀) (.handles [o.handle])) := by
  rw [find_skip_empty st ok m label cls hh pre _ hpre s,
    findInSlots_cons_one _ _ _ _ _ _ _ _ o.handle (by rw [storeToken_find, hone]; rfl)]

/-- **(c) Two objects under one label in the first non-empty slot are an error**, whatever later
    slots hold. -/
theorem find_duplicate (st : Store) (ok : String → Nat → Bool) (m : P11Module) (label : String)
    (cls : Nat) (hh : Option Bool) (pre post : List Nat) (s₀ : Nat) (o₁ o₂ : StoreObj) (os : List StoreObj)
    (hpre : ∀ sl ∈ pre, matching st m label cls sl = [])
    (htwo : matching st m label cls s₀ = o₁ :: o₂ :: os) (s : TokState) :
    findInSlots m label cls hh (pre ++ s₀ :: post) (storeToken st ok) s =
      (.error (.error .runtime),
        (afterEmpty m label cls pre s).push (findOp m label cls s₀)
          (.handles (o₁.handle :: o₂.handle :: os.map (·.handle)))) := by
  rw [find_skip_empty st ok m label cls hh pre _ hpre s,
    findInSlots_cons_many _ _ _ _ _ _ _ _ o₁.handle o₂.handle (os.map (·.handle))
      (by rw [storeToken_find, htwo]; rfl)]

/-- later slots are never queried: the outcome *and the operation log* are those of the search cut
    off after `s₀` -/
theorem find_first_ignores_later (st : Store) (ok : String → Nat → Bool) (m : P11Module)
    (label : String) (cls : Nat) (hh : Option Bool) (pre post : List Nat) (s₀ : Nat)
    (hpre : ∀ sl ∈ pre, matching st m label cls sl = [])
    (hne : matching st m label cls s₀ ≠ []) (s : TokState) :
    findInSlots m label cls hh (pre ++ s₀ :: post) (storeToken st ok) s =
      findInSlots m label cls hh (pre ++ [s₀]) (storeToken st ok) s := by
  cases hm : matching st m label cls s₀ with
  | nil => exact absurd hm hne
  | cons o₁ r =>
    cases r with
    | nil => rw [find_first st ok m label cls hh pre post s₀ o₁ hpre hm,
        find_first st ok m label cls hh pre [] s₀ o₁ hpre hm]
    | cons o₂ os => rw [find_duplicate st ok m label cls hh pre post s₀ o₁ o₂ os hpre hm,
        find_duplicate st ok m label cls hh pre [] s₀ o₁ o₂ os hpre hm]

/-- every list of slots either has no matching object anywhere, or has a first slot that has some -/
theorem first_nonempty_slot (st : Store) (m : P11Module) (label : String) (cls : Nat) (slots : List Nat) :
    (∀ sl ∈ slots, matching st m label cls sl = []) ∨
    ∃ pre s₀ post, slots = pre ++ s₀ :: post ∧ (∀ sl ∈ pre, matching st m label cls sl = []) ∧
      matching st m label cls s₀ ≠ [] := by
  induction slots with
  | nil => left; simp
  | cons sl rest ih =>
    by_cases h : matching st m label cls sl = []
    · rcases ih with hall | ⟨pre, s₀, post, he, hp, hn⟩
      · left; intro x hx
        rcases List.mem_cons.mp hx with rfl | hx
        · exact h
        · exact hall x hx
      · right
        refine ⟨sl :: pre, s₀, post, by rw [he]; rfl, ?_, hn⟩
        intro x hx
        rcases List.mem_cons.mp hx with rfl | hx
        · exact h
        · exact hp x hx
    · right; exact ⟨[], sl, rest, rfl, by simp, h⟩

/-- **find_iff (found ⇒).** A key is returned only if, in the first slot (in session order) that
    has any object of the class under the label, exactly one object carries it; the key returned
    lives in that slot, its handle is that object's handle, and the operations issued are the
    `findObjects` for the slots up to `s₀` followed only by attribute reads of that one object. -/
theorem find_iff (st : Store) (ok : String → Nat → Bool) (m : P11Module) (label : String)
    (cls : Nat) (hh : Option Bool) (slots : List Nat) (s s' : TokState) (key : P11Key)
    (hr : findInSlots m label cls hh slots (storeToken st ok) s = (.ok (some key), s')) :
    ∃ pre s₀ post o, slots = pre ++ s₀ :: post ∧
      (∀ sl ∈ pre, matching st m label cls sl = []) ∧ matching st m label cls s₀ = [o] ∧
      key.slot = s₀ ∧ key.module = m.path ∧ key.label = label ∧ key.keyClass = cls ∧
      key.hashUsingHsm = hh ∧
      key.privHandle = (if cls ≠ ckoPublic then some o.handle else none) ∧
      key.pubHandle = (if cls ≠ ckoSecret then some o.handle else none) ∧
      ∃ reads, s'.log = reads ++ (findOp m label cls s₀, .handles [o.handle]) ::
          emptyAnswers m label cls pre ++ s.log ∧
        ∀ e ∈ reads, IsGetAttrOf m.path s₀ o.handle e.1 := by
  rcases first_nonempty_slot st m label cls slots with hall | ⟨pre, s₀, post, he, hp, hn⟩
  · rw [find_none st ok m label cls hh slots hall s] at hr
    simp at hr
  · subst he
    cases hm : matching st m label cls s₀ with
    | nil => exact absurd hm hn
    | cons o r =>
      cases r with
      | cons o₂ os =>
        rw [find_duplicate st ok m label cls hh pre post s₀ o o₂ os hp hm] at hr
        simp at hr
      | nil =>
        rw [find_first st ok m label cls hh pre post s₀ o hp hm] at hr
        obtain ⟨t, pk, hk⟩ := foundKey_ok _ _ _ _ _ _ _ _ _ _ hr
        obtain ⟨reads, hlog, _, hreads⟩ := (foundKey_emits m label cls hh s₀ o.handle).run hr
        simp only [Option.some.injEq] at hk
        subst hk
        refine ⟨pre, s₀, post, o, rfl, hp, hm, rfl, rfl, rfl, rfl, rfl, rfl, rfl, reads, ?_, hreads⟩
        rw [hlog]; simp [afterEmpty]

/-- **find_iff (not found ⇔).** "Not found" is answered exactly when no session slot holds an
    object of the class under the label. -/
theorem find_none_iff (st : Store) (ok : String → Nat → Bool) (m : P11Module) (label : String)
    (cls : Nat) (hh : Option Bool) (slots : List Nat) (s : TokState) :
    (∃ s', findInSlots m label cls hh slots (storeToken st ok) s = (.ok none, s')) ↔
      ∀ sl ∈ slots, matching st m label cls sl = [] := by
  constructor
  · rintro ⟨s', hr⟩
    rcases first_nonempty_slot st m label cls slots with hall | ⟨pre, s₀, post, he, hp, hn⟩
    · exact hall
    · subst he
      cases hm : matching st m label cls s₀ with
      | nil => exact absurd hm hn
      | cons o r =>
        cases r with
        | cons o₂ os =>
          rw [find_duplicate st ok m label cls hh pre post s₀ o o₂ os hp hm] at hr
          simp at hr
        | nil =>
          rw [find_first st ok m label cls hh pre post s₀ o hp hm] at hr
          obtain ⟨t, pk, hk⟩ := foundKey_ok _ _ _ _ _ _ _ _ _ _ hr
          simp at hk
  · intro hall
    exact ⟨_, find_none st ok m label cls hh slots hall s⟩

/-- **two_objects_error (⇔ for the runtime error of the lookup itself is not claimed; ⇒ only).**
    Corollary of (c) in the vocabulary of the property. -/
theorem two_objects_error (st : Store) (ok : String → Nat → Bool) (m : P11Module) (label : String)
    (cls : Nat) (hh : Option Bool) (pre post : List Nat) (s₀ : Nat)
    (hpre : ∀ sl ∈ pre, matching st m label cls sl = [])
    (htwo : 2 ≤ (matching st m label cls s₀).length) (s : TokState) :
    ∃ s', findInSlots m label cls hh (pre ++ s₀ :: post) (storeToken st ok) s =
      (.error (.error .runtime), s') := by
  cases hm : matching st m label cls s₀ with
  | nil => simp [hm] at htwo
  | cons o r =>
    cases r with
    | nil => simp [hm] at htwo
    | cons o₂ os => exact ⟨_, find_duplicate st ok m label cls hh pre post s₀ o o₂ os hpre hm s⟩

/-! ## `get_p11_key`: modules in order, the first hit wins -/

/-- any key returned by the per-module lookup lives in that module, in one of its session slots,
    under the requested label and class (every token) -/
theorem findInSlots_some (m : P11Module) (label : String) (cls : Nat) (hh : Option Bool) (tok : Token) :
    ∀ (slots : List Nat) (s s' : TokState) (k : P11Key),
      findInSlots m label cls hh slots tok s = (.ok (some k), s') →
      k.module = m.path ∧ k.slot ∈ slots ∧ k.label = label ∧ k.keyClass = cls ∧ k.hashUsingHsm = hh := by
  intro slots
  induction slots with
  | nil => intro s s' k h; simp [findInSlots] at h
  | cons sl rest ih =>
    intro s s' k h
    rw [findInSlots_cons] at h
    obtain ⟨r, s1, _, h⟩ := TokM.bind_ok _ _ _ _ _ _ h
    split at h
    · obtain ⟨h1, h2, h3⟩ := ih _ _ _ h
      exact ⟨h1, List.mem_cons_of_mem _ h2, h3⟩
    · obtain ⟨t, pk, hk⟩ := foundKey_ok _ _ _ _ _ _ _ _ _ _ h
      simp only [Option.some.injEq] at hk
      subst hk
      exact ⟨rfl, List.mem_cons_self, rfl, rfl, rfl⟩
    · simp at h
    · simp at h

/-- **Modules are consulted in order and a hit ends the search** (every token): if a key comes
    back, the module list splits as `pre ++ m :: post` where the lookups in `pre` all answered
    "not found", the key was found in `m`, the final state is the state right after `m`'s lookup —
    so no operation at all is issued on the modules in `post` — and the result does not depend on
    `post`. -/
theorem getP11Key_first_module (label : String) (isPublic : Bool) (hh : Option Bool) (tok : Token) :
    ∀ (mods : List P11Module) (s s' : TokState) (k : P11Key),
      getP11Key label isPublic hh mods tok s = (.ok (some k), s') →
      ∃ pre m post s₁, mods = pre ++ m :: post ∧
        getP11Key label isPublic hh pre tok s = (.ok none, s₁) ∧
        findInSlots m label (classOf isPublic) hh m.sessions tok s₁ = (.ok (some k), s') ∧
        k.module = m.path ∧ k.slot ∈ m.sessions ∧
        (∀ post', getP11Key label isPublic hh (pre ++ m :: post') tok s = (.ok (some k), s')) ∧
        ∃ l, s'.log = l ++ s.log ∧ ∀ e ∈ l, IsReadAmong (pre ++ [m]) e.1 := by
  intro mods
  induction mods with
  | nil => intro s s' k h; simp [getP11Key] at h
  | cons m rest ih =>
    intro s s' k h
    cases hf : findInSlots m label (classOf isPublic) hh m.sessions tok s with
    | mk r s1 =>
      cases r with
      | error e => rw [getP11Key_cons_error _ _ _ _ _ _ _ _ e hf] at h; simp at h
      | ok o =>
        cases o with
        | some k' =>
          rw [getP11Key_cons_hit _ _ _ _ _ _ _ _ k' hf] at h
          simp only [Prod.mk.injEq, Except.ok.injEq, Option.some.injEq] at h
          obtain ⟨rfl, rfl⟩ := h
          obtain ⟨hm, hs, _⟩ := findInSlots_some _ _ _ _ _ _ _ _ _ hf
          refine ⟨[], m, rest, s, rfl, rfl, hf, hm, hs, ?_, ?_⟩
          · intro post'; exact getP11Key_cons_hit _ _ _ _ _ _ _ _ _ hf
          · obtain ⟨l, hl, _, hp⟩ := (findInSlots_emits m label (classOf isPublic) hh m.sessions).run hf
            exact ⟨l, hl, fun e he => ⟨m, by simp, hp e he⟩⟩
        | none =>
          rw [getP11Key_cons_miss _ _ _ _ _ _ _ _ hf] at h
          obtain ⟨pre, m', post, s₁, he, hpre, hfound, hm, hs, hind, l, hl, hp⟩ := ih _ _ _ h
          obtain ⟨l0, hl0, _, hp0⟩ := (findInSlots_emits m label (classOf isPublic) hh m.sessions).run hf
          refine ⟨m :: pre, m', post, s₁, by rw [he]; rfl, ?_, hfound, hm, hs, ?_, l ++ l0, ?_, ?_⟩
          · rw [getP11Key_cons_miss _ _ _ _ _ _ _ _ hf]; exact hpre
          · intro post'
            rw [List.cons_append, getP11Key_cons_miss _ _ _ _ _ _ _ _ hf]; exact hind post'
          · rw [hl, hl0, List.append_assoc]
          · intro e he
            rcases List.mem_append.mp he with h1 | h1
            · obtain ⟨x, hx, hr⟩ := hp e h1
              exact ⟨x, List.mem_cons_of_mem _ hx, hr⟩
            · exact ⟨m, by simp, hp0 e h1⟩

/-! ## Exactly one private-key operation per signature, with the octets of `formatDataForSigning` -/

/-- **`sign_using_p11` issues at most one token operation**; when it issues one it is
    `C_Sign(module, slot, private handle, mechanism, octets)` with mechanism and octets exactly as
    `_format_data_for_signing` produced them, and it returns `ok b` exactly when the token answered
    that operation with the signature `b`.  Every token, every state. -/
theorem sign_issues_exactly_one_op (hash : Hasher) (key : P11Key) (data : Bytes) (alg : Nat)
    (tok : Token) (s : TokState) :
    ((signUsingP11 hash key data alg tok s).2 = s ∧ ∀ b, (signUsingP11 hash key data alg tok s).1 ≠ .ok b) ∨
    ∃ h d, key.privHandle = some h ∧ formatDataForSigning hash key data alg = .ok d ∧
      key.keyType ≠ .aes ∧ key.keyType ≠ .des3 ∧
      (signUsingP11 hash key data alg tok s).2 =
        s.push (.sign key.module key.slot h d.mechanism d.data)
          (tok s.count (.sign key.module key.slot h d.mechanism d.data)) ∧
      ∀ b, (signUsingP11 hash key data alg tok s).1 = .ok b ↔
        tok s.count (.sign key.module key.slot h d.mechanism d.data) = .sig b := by
  unfold signUsingP11
  cases hk : key.keyType
  case aes => left; simp [bind_run]
  case des3 => left; simp [bind_run]
  all_goals
    simp only [bind_run, TokM.lift_run]
    cases hf : formatDataForSigning hash key data alg with
    | error e => left; simp
    | ok d =>
      cases hp : key.privHandle with
      | none => left; simp
      | some h =>
        right
        refine ⟨h, d, rfl, rfl, by simp, by simp, ?_⟩
        simp only [bind_run, askOk_run]
        by_cases he : tok s.count (TokOp.sign key.module key.slot h d.mechanism d.data) = .error
        · simp [he]
        · simp only [if_neg he]
          cases ha : tok s.count (TokOp.sign key.module key.slot h d.mechanism d.data) <;> simp_all

/-! ## The derived public key is the token's key -/

theorem beNat_fold_lt (b : Bytes) : ∀ acc : Nat,
    b.foldl (fun acc x => acc * 256 + x.toNat) acc < (acc + 1) * 256 ^ b.length := by
  induction b with
  | nil => intro acc; simp
  | cons x r ih =>
    intro acc
    simp only [List.foldl_cons, List.length_cons, Nat.pow_succ]
    have h1 := ih (acc * 256 + x.toNat)
    have hx := x.toNat_lt
    have h2 : (acc * 256 + x.toNat + 1) * 256 ^ r.length ≤ ((acc + 1) * 256) * 256 ^ r.length :=
      Nat.mul_le_mul_right _ (by omega)
    calc _ < _ := h1
      _ ≤ _ := h2
      _ = _ := by rw [Nat.mul_assoc, Nat.mul_comm 256]

theorem beNat_lt (b : Bytes) : beNat b < 256 ^ b.length := by
  have := beNat_fold_lt b 0
  simpa [beNat] using this

theorem natToBytes_length_le (k : Nat) : ∀ e, e < 256 ^ k → (natToBytes e).length ≤ k := by
  induction k with
  | zero => intro e he; simp at he; subst he; rw [natToBytes]; simp
  | succ k ih =>
    intro e he
    rw [natToBytes]
    split
    · simp
    · rw [List.length_append, List.length_singleton]
      have : e / 256 < 256 ^ k := by
        rw [Nat.pow_succ] at he
        exact Nat.div_lt_of_lt_mul (by rw [Nat.mul_comm]; exact he)
      have := ih _ this
      omega

/-- the minimal re-encoding of an exponent is never longer than the octets the token gave -/
theorem natToBytes_beNat_length (e : Bytes) : (natToBytes (beNat e)).length ≤ e.length :=
  natToBytes_length_le _ _ (beNat_lt e)

/-- **RSA: the key text derived from the token attributes decodes to the token's modulus and
    exponent.**  For every token that answers KEY_TYPE ↦ RSA, MODULUS ↦ `n`, PUBLIC_EXPONENT ↦ `e`
    for this object (at whatever operation index), with `int(e) ≥ 1` and `|e| < 65536`: the derived
    text `txt` satisfies, for every RSA algorithm number, `decode txt = (8·|n| bits, int(e), n)`. -/
theorem derived_key_is_token_key_rsa (tok : Token) (path : String) (slot h : Nat) (n e : Bytes)
    (hkt : ∀ i, tok i (.getAttr path slot h ["KEY_TYPE"]) = .attrs [.num ckkRsa])
    (hn : ∀ i, tok i (.getAttr path slot h ["MODULUS"]) = .attrs [.bytes n])
    (he : ∀ i, tok i (.getAttr path slot h ["PUBLIC_EXPONENT"]) = .attrs [.bytes e])
    (hpos : 1 ≤ beNat e) (hlen : e.length < 65536) (s : TokState) :
    ∃ txt s', p11ObjectToPublicKey path slot h tok s = (.ok (some txt), s') ∧
      (∀ alg, isAlgorithmRsa alg = true →
        rsaDecode txt alg = .ok { bits := 8 * n.length, exponent := beNat e, n := n }) ∧
      s'.log = [(.getAttr path slot h ["PUBLIC_EXPONENT"], .attrs [.bytes e]),
                (.getAttr path slot h ["MODULUS"], .attrs [.bytes n]),
                (.getAttr path slot h ["KEY_TYPE"], .attrs [.num ckkRsa])] ++ s.log := by
  rw [p11ObjectToPublicKey_rsa_run tok path slot h n e hkt hn he s]
  have hl := natToBytes_beNat_length e
  cases henc : rsaEncodeBytes (beNat e) n with
  | error f =>
    unfold rsaEncodeBytes at henc
    simp only at henc
    split at henc
    · split at henc
      · simp [pure, Except.pure] at henc
      · omega
    · simp [pure, Except.pure] at henc
  | ok b =>
    have hdec := C14.rsa_decode_encode (beNat e) n b (by omega) henc
    refine ⟨Base64.encode b, ((s.push (.getAttr path slot h ["KEY_TYPE"]) (.attrs [.num ckkRsa])).push
          (.getAttr path slot h ["MODULUS"]) (.attrs [.bytes n])).push
          (.getAttr path slot h ["PUBLIC_EXPONENT"]) (.attrs [.bytes e]), ?_, ?_, ?_⟩
    · simp [rsaEncode, henc, bind, Except.bind, pure, Except.pure, Except.map]
    · intro alg halg
      simp [rsaDecode, Base64.decode_encode, hdec, bind, Except.bind, halg, pure, Except.pure,
        Nat.mul_comm]
    · rfl

/-- the state after the three attribute reads of the EC branch -/
def afterEcReads (path : String) (slot h : Nat) (point params : Bytes) (s : TokState) : TokState :=
  ((s.push (.getAttr path slot h ["KEY_TYPE"]) (.attrs [.num ckkEc])).push
    (.getAttr path slot h ["EC_POINT"]) (.attrs [.bytes point])).push
    (.getAttr path slot h ["EC_PARAMS"]) (.attrs [.bytes params])

/-- hypotheses "the token answers KEY_TYPE ↦ EC, EC_POINT ↦ point, EC_PARAMS ↦ params for this
    object", at whatever operation index -/
structure EcAnswers (tok : Token) (path : String) (slot h : Nat) (point params : Bytes) : Prop where
  keyType : ∀ i, tok i (.getAttr path slot h ["KEY_TYPE"]) = .attrs [.num ckkEc]
  point : ∀ i, tok i (.getAttr path slot h ["EC_POINT"]) = .attrs [.bytes point]
  params : ∀ i, tok i (.getAttr path slot h ["EC_PARAMS"]) = .attrs [.bytes params]

/-- **EC: the outcome of the conversion as a function of the token's answers** (point present, of a
    length the DER header arithmetic admits): `ecDerive` (Lemmas/Hsm.lean) removes a DER OCTET
    STRING header if present, demands 65 / 97 octets for P-256 / P-384 and answers the base64 of
    what remains.  The five theorems below are its cases in the property's words. -/
theorem derived_key_ec (tok : Token) (path : String) (slot h : Nat) (point params : Bytes)
    (ha : EcAnswers tok path slot h point params) (hlen : 2 ≤ point.length ∧ point.length < 258)
    (s : TokState) :
    p11ObjectToPublicKey path slot h tok s =
      (ecDerive point params, afterEcReads path slot h point params s) := by
  cases point with
  | nil => simp at hlen
  | cons a r => exact p11ObjectToPublicKey_ec_run tok path slot h a r params ha.keyType ha.point ha.params hlen s

/-- the size the code expects for the curve named by the EC_PARAMS OID: 65 / 97 octets
    (`0x04 ‖ x ‖ y`) -/
def ecPointOctets (params : Bytes) : Option Nat :=
  if params = ecOidP256 then some 65 else if params = ecOidP384 then some 97 else none

theorem ecDerive_of_length (point params : Bytes) (k : Nat) (hk : ecPointOctets params = some k)
    (hl : (ecUnwrap point).length = k) :
    ecDerive point params = .ok (some (Base64.encode (ecUnwrap point))) := by
  unfold ecPointOctets at hk
  unfold ecDerive
  split at hk
  · rename_i h1
    simp only [Option.some.injEq] at hk
    simp only [h1, ↓reduceIte, hl, ← hk]
    rfl
  · split at hk
    · rename_i h1 h2
      simp only [Option.some.injEq] at hk
      simp only [h2, ↓reduceIte, hl, ← hk]
      rfl
    · simp at hk

/-- **EC, point wrapped in a DER OCTET STRING** (`04 len 04 x y`, as SoftHSM2 answers): for P-256 /
    P-384 with `x‖y` of 64 / 96 octets, the derived key text is the base64 of `04 ‖ x ‖ y`
    (65 / 97 octets).  NOTE: the `0x04` octet is KEPT — this is what /repo does (DESIGN §5, F4). -/
theorem derived_key_ec_wrapped (tok : Token) (path : String) (slot h : Nat) (xy params : Bytes) (k : Nat)
    (hk : ecPointOctets params = some k) (hxy : xy.length + 1 = k)
    (ha : EcAnswers tok path slot h (4 :: UInt8.ofNat k :: 4 :: xy) params) (s : TokState) :
    p11ObjectToPublicKey path slot h tok s =
      (.ok (some (Base64.encode (4 :: xy))),
        afterEcReads path slot h (4 :: UInt8.ofNat k :: 4 :: xy) params s) ∧
    (4 :: xy).length = k ∧ (k = 65 ∨ k = 97) := by
  have hk' : k = 65 ∨ k = 97 := by
    unfold ecPointOctets at hk
    split at hk
    · left; simpa using hk.symm
    · split at hk
      · right; simpa using hk.symm
      · simp at hk
  have hun : ecUnwrap (4 :: UInt8.ofNat k :: 4 :: xy) = 4 :: xy :=
    ecUnwrapWith_wrapped _ xy k hk' hxy
  refine ⟨?_, by simp; omega, hk'⟩
  rw [derived_key_ec tok path slot h _ params ha (by simp; omega) s,
    ecDerive_of_length _ params k hk (by rw [hun]; simp; omega), hun]

/-- **EC, bare point** (`04 x y` of 65 / 97 octets, not of the wrapped form): the derived key text is
    the base64 of the point as the token gave it, first octet included.  (The code does not look at
    the first octet of a bare point.  Holds under either unwrap rule.  A bare point whose 2nd and 3rd
    octets happen to be `len−2, 04` — X starts `3f 04` / `5f 04` — is excluded here by `hbare`: the
    pinned rule mistakes it for a wrapped one and refuses it (finding F24), the repaired rule takes it as
    it is; see "The unwrap rule" below and `derived_key_ec_bare_current_tree`.) -/
theorem derived_key_ec_bare (tok : Token) (path : String) (slot h : Nat) (point params : Bytes) (k : Nat)
    (hk : ecPointOctets params = some k) (hl : point.length = k)
    (hbare : point.take 3 ≠ [4, UInt8.ofNat (point.length - 2), 4])
    (ha : EcAnswers tok path slot h point params) (s : TokState) :
    p11ObjectToPublicKey path slot h tok s =
      (.ok (some (Base64.encode point)), afterEcReads path slot h point params s) := by
  have hk' : k = 65 ∨ k = 97 := by
    unfold ecPointOctets at hk
    split at hk
    · left; simpa using hk.symm
    · split at hk
      · right; simpa using hk.symm
      · simp at hk
  have hun : ecUnwrap point = point := ecUnwrapWith_of_not_prefix _ point hbare
  rw [derived_key_ec tok path slot h _ params ha (by omega) s,
    ecDerive_of_length _ params k hk (by rw [hun]; exact hl), hun]

/-! ## The unwrap rule: what tells a bare point from a wrapped one (finding F24)

The token returns CKA_EC_POINT either bare (`04 x y`, 65 / 97 octets for P-256 / P-384) or as a DER OCTET
STRING (`04 (1+2n) 04 x y`, 67 / 99 octets).  By PKCS#11 / SEC 1 the curve's point size decides which.  The
code's rule is tabulated from the tree by execution (`KskmGen.ecUnwrapChecksLength`); `ecUnwrapWith` /
`ecDeriveWith` (Kskm/Hsm.lean, Lemmas/Hsm.lean) are the rule and the EC branch for either value, and
`derived_key_ec` + `ecDerive_eq_with` tie them to `p11ObjectToPublicKey` at the value of the current tree.
  * repaired rule (`true`): EVERY string of the curve's point size is taken as it is
    (`ec_bare_any_octets_repaired`), a wrapped point gives its inner octets (`ec_wrapped_either_rule`);
  * pinned rule (`false`): a bare point that starts with the three octets of a wrapper of itself is refused
    (`ec_bare_refused_pinned`, witness `ec_bare_refused_pinned_witness`: the P-256 key d = 20220);
  * `derived_key_ec_bare_current_tree` states whichever applies to the tree in /repo now, about
    `p11ObjectToPublicKey` itself. -/

/-- the bare point `04 ‖ X ‖ Y` of the P-256 key with private scalar d = 20220: X starts `3f 04`, so the 65
    octets start `04 3f 04` — tag, length 65 − 2, inner 04 of a DER wrapper of the string itself -/
def f24BarePoint : Bytes :=
  [0x04, 0x3f, 0x04, 0x19, 0xf4, 0x7d, 0x59, 0x77, 0x28, 0xf6, 0x61, 0x0f, 0x15, 0xa2, 0x28, 0xd2,
   0x43, 0x1f, 0x53, 0x8c, 0x9a, 0xf6, 0x2a, 0xf5, 0x7b, 0x7e, 0x65, 0xcb, 0xd9, 0x3b, 0x83, 0xf6,
   0x92, 0x29, 0x63, 0x13, 0x47, 0x24, 0xf2, 0x9e, 0x39, 0x3b, 0x02, 0xe6, 0xed, 0xa8, 0x38, 0xae,
   0x2b, 0x7f, 0x8f, 0xa6, 0xdb, 0x34, 0xc3, 0x81, 0x83, 0x80, 0xda, 0xc4, 0x4b, 0x4f, 0xad, 0x9d,
   0xf0]

/-- **Repaired rule: the point size decides.**  For P-256 / P-384 EVERY string of 65 / 97 octets —
    whatever its octets, `04 3f 04 …` / `04 5f 04 …` included — is taken as the bare point itself: the
    derived key text is the base64 of the string as it is (its first octet kept: finding F4). -/
theorem ec_bare_any_octets_repaired (point params : Bytes) (k : Nat)
    (hk : ecPointOctets params = some k) (hl : point.length = k) :
    ecDeriveWith true point params = .ok (some (Base64.encode point)) := by
  have hk' : k = 65 ∨ k = 97 := by
    unfold ecPointOctets at hk
    split at hk
    · left; simpa using hk.symm
    · split at hk
      · right; simpa using hk.symm
      · simp at hk
  have hun : ecUnwrapWith true point = point :=
    ecUnwrapWith_true_of_point_length point (by omega)
  unfold ecPointOctets at hk
  unfold ecDeriveWith
  rw [hun]
  split at hk
  · rename_i h1
    simp only [Option.some.injEq] at hk
    simp only [h1, ↓reduceIte, hl, ← hk]
    rfl
  · split at hk
    · rename_i h1 h2
      simp only [Option.some.injEq] at hk
      simp only [h2, ↓reduceIte, hl, ← hk]
      rfl
    · simp at hk

/-- **Either rule: a wrapped point gives its inner octets.**  `04 k 04 x y` with k = 65 (P-256) / 97
    (P-384) = 1 + |x y|, i.e. a string of 67 / 99 octets: the derived key text is the base64 of the inner
    65 / 97 octets `04 x y`. -/
theorem ec_wrapped_either_rule (b : Bool) (xy params : Bytes) (k : Nat)
    (hk : ecPointOctets params = some k) (hxy : xy.length + 1 = k) :
    ecDeriveWith b (4 :: UInt8.ofNat k :: 4 :: xy) params = .ok (some (Base64.encode (4 :: xy))) ∧
    (4 :: UInt8.ofNat k :: 4 :: xy).length = k + 2 ∧ (4 :: xy).length = k ∧ (k = 65 ∨ k = 97) := by
  have hk' : k = 65 ∨ k = 97 := by
    unfold ecPointOctets at hk
    split at hk
    · left; simpa using hk.symm
    · split at hk
      · right; simpa using hk.symm
      · simp at hk
  have hun : ecUnwrapWith b (4 :: UInt8.ofNat k :: 4 :: xy) = 4 :: xy := ecUnwrapWith_wrapped b xy k hk' hxy
  have hl : (4 :: xy).length = k := by simp; omega
  refine ⟨?_, by simp; omega, hl, hk'⟩
  unfold ecPointOctets at hk
  unfold ecDeriveWith
  rw [hun]
  split at hk
  · rename_i h1
    simp only [Option.some.injEq] at hk
    simp only [h1, ↓reduceIte, hl, ← hk]
    rfl
  · split at hk
    · rename_i h1 h2
      simp only [Option.some.injEq] at hk
      simp only [h2, ↓reduceIte, hl, ← hk]
      rfl
    · simp at hk

/-- **Pinned rule: F24.**  A BARE point of the curve's size (65 / 97 octets) that starts with the three
    octets of a wrapper of itself — `04 3f 04` / `04 5f 04`: X starts `3f 04` / `5f 04`, one key in 65536 —
    loses two octets and is refused with the size error: a legitimate key on the token is not found. -/
theorem ec_bare_refused_pinned (point params : Bytes) (k : Nat)
    (hk : ecPointOctets params = some k) (hl : point.length = k)
    (h3 : point.take 3 = [4, UInt8.ofNat (k - 2), 4]) :
    ecDeriveWith false point params = .error (.error .runtime) := by
  have hk' : k = 65 ∨ k = 97 := by
    unfold ecPointOctets at hk
    split at hk
    · left; simpa using hk.symm
    · split at hk
      · right; simpa using hk.symm
      · simp at hk
  have hun : ecUnwrapWith false point = point.drop 2 :=
    ecUnwrapWith_false_of_prefix point (by rw [hl]; exact h3)
  have hlen : (point.drop 2).length = k - 2 := by simp [hl]
  unfold ecPointOctets at hk
  unfold ecDeriveWith
  rw [hun, hlen]
  split at hk
  · rename_i h1
    simp only [Option.some.injEq] at hk
    have : (k - 2 - 1) * 8 / 2 ≠ 256 := by omega
    rw [if_pos h1, if_pos this]; rfl
  · split at hk
    · rename_i h1 h2
      simp only [Option.some.injEq] at hk
      have : (k - 2 - 1) * 8 / 2 ≠ 384 := by omega
      rw [if_neg h1, if_pos h2, if_pos this]; rfl
    · simp at hk

/-- the witness: the 65-octet bare point `04 3f 04 …` of the real P-256 key d = 20220 is refused by the
    pinned rule — and taken as it is by the repaired one -/
theorem ec_bare_refused_pinned_witness :
    f24BarePoint.length = 65 ∧ f24BarePoint.take 3 = [0x04, 0x3f, 0x04] ∧
    ecDeriveWith false f24BarePoint ecOidP256 = .error (.error .runtime) ∧
    ecUnwrapWith true f24BarePoint = f24BarePoint := by
  refine ⟨by decide, by decide, by decide +kernel, by decide +kernel⟩

/-- **The tree in /repo now** (the switch is tabulated from the code by execution on every run), about
    `_p11_object_to_public_key` itself: with the repaired rule every object whose CKA_EC_POINT has the
    curve's point size yields the base64 of these octets as they are, whatever they are; with the pinned
    rule the P-256 key d = 20220, stored bare, ends in the runtime error (F24). -/
theorem derived_key_ec_bare_current_tree :
    if KskmGen.ecUnwrapChecksLength = true then
      ∀ (tok : Token) (path : String) (slot h : Nat) (point params : Bytes) (k : Nat),
        ecPointOctets params = some k → point.length = k → EcAnswers tok path slot h point params →
        ∀ s, p11ObjectToPublicKey path slot h tok s =
          (.ok (some (Base64.encode point)), afterEcReads path slot h point params s)
    else
      ∀ (tok : Token) (path : String) (slot h : Nat), EcAnswers tok path slot h f24BarePoint ecOidP256 →
        ∀ s, p11ObjectToPublicKey path slot h tok s =
          (.error (.error .runtime), afterEcReads path slot h f24BarePoint ecOidP256 s) := by
  cases hsw : KskmGen.ecUnwrapChecksLength with
  | true =>
    simp only [↓reduceIte]
    intro tok path slot h point params k hk hl ha s
    have hk' : k = 65 ∨ k = 97 := by
      unfold ecPointOctets at hk
      split at hk
      · left; simpa using hk.symm
      · split at hk
        · right; simpa using hk.symm
        · simp at hk
    rw [derived_key_ec tok path slot h _ params ha (by omega) s, ecDerive_eq_with, hsw,
      ec_bare_any_octets_repaired point params k hk hl]
  | false =>
    simp only [Bool.false_eq_true, ↓reduceIte]
    intro tok path slot h ha s
    rw [derived_key_ec tok path slot h _ ecOidP256 ha (by decide) s, ecDerive_eq_with, hsw,
      ec_bare_refused_pinned_witness.2.2.1]

/-- **EC, unknown curve OID ⇒ runtime error** (no key text is made up). -/
theorem derived_key_ec_unknown_curve (tok : Token) (path : String) (slot h : Nat) (point params : Bytes)
    (hk : ecPointOctets params = none) (hlen : 2 ≤ point.length ∧ point.length < 258)
    (ha : EcAnswers tok path slot h point params) (s : TokState) :
    p11ObjectToPublicKey path slot h tok s =
      (.error (.error .runtime), afterEcReads path slot h point params s) := by
  rw [derived_key_ec tok path slot h _ params ha hlen s]
  unfold ecPointOctets at hk
  unfold ecDerive
  split at hk
  · simp at hk
  · split at hk
    · simp at hk
    · rename_i h1 h2
      simp only [h1, h2, ↓reduceIte]; rfl

/-- **EC, wrong length for the curve ⇒ runtime error**: after removal of a DER header if present,
    anything but 65 (P-256) / 97 (P-384) octets is refused. -/
theorem derived_key_ec_wrong_length (tok : Token) (path : String) (slot h : Nat) (point params : Bytes)
    (k : Nat) (hk : ecPointOctets params = some k) (hl : (ecUnwrap point).length ≠ k)
    (hlen : 2 ≤ point.length ∧ point.length < 258)
    (ha : EcAnswers tok path slot h point params) (s : TokState) :
    p11ObjectToPublicKey path slot h tok s =
      (.error (.error .runtime), afterEcReads path slot h point params s) := by
  rw [derived_key_ec tok path slot h _ params ha hlen s]
  unfold ecPointOctets at hk
  unfold ecDerive
  split at hk
  · rename_i h1
    simp only [Option.some.injEq] at hk
    have : ((ecUnwrap point).length - 1) * 8 / 2 ≠ 256 := by omega
    rw [if_pos h1, if_pos this]; rfl
  · split at hk
    · rename_i h1 h2
      simp only [Option.some.injEq] at hk
      have : ((ecUnwrap point).length - 1) * 8 / 2 ≠ 384 := by omega
      rw [if_neg h1, if_pos h2, if_pos this]; rfl
    · simp at hk

/-- **EC, absent point ⇒ no public key** (`ok none`; the caller then looks for the public object),
    and the curve parameters are not even read. -/
theorem derived_key_ec_absent (tok : Token) (path : String) (slot h : Nat) (pt : AttrAns)
    (hkt : ∀ i, tok i (.getAttr path slot h ["KEY_TYPE"]) = .attrs [.num ckkEc])
    (hpt : ∀ i, tok i (.getAttr path slot h ["EC_POINT"]) = .attrs [pt])
    (habs : pt = .none ∨ pt = .bytes []) (s : TokState) :
    p11ObjectToPublicKey path slot h tok s =
      (.ok none, (s.push (.getAttr path slot h ["KEY_TYPE"]) (.attrs [.num ckkEc])).push
          (.getAttr path slot h ["EC_POINT"]) (.attrs [pt])) :=
  p11ObjectToPublicKey_ec_absent tok path slot h pt hkt hpt habs s

/-- **(b), fully evaluated for an RSA object with all attributes present** (public or private
    class): the key record returned names module, slot and handle of that object and carries a
    public key text that decodes — for every RSA algorithm — to the object's modulus and exponent. -/
theorem find_first_rsa (st : Store) (ok : String → Nat → Bool) (m : P11Module) (label : String)
    (cls : Nat) (hh : Option Bool) (pre post : List Nat) (s₀ : Nat) (o : StoreObj) (n e : Bytes)
    (hpre : ∀ sl ∈ pre, matching st m label cls sl = [])
    (hone : matching st m label cls s₀ = [o])
    (hfind : (st m.path s₀).find? (·.handle == o.handle) = some o)
    (hkt : o.keyType = some ckkRsa) (hn : o.modulus = some n) (he : o.publicExponent = some e)
    (hcls : cls ≠ ckoSecret) (hpos : 1 ≤ beNat e) (hlen : e.length < 65536) (s : TokState) :
    ∃ txt s', findInSlots m label cls hh (pre ++ s₀ :: post) (storeToken st ok) s =
        (.ok (some { label, keyType := .rsa, keyClass := cls, hashUsingHsm := hh,
                     publicKey := some txt, module := m.path, slot := s₀,
                     privHandle := if cls ≠ ckoPublic then some o.handle else none,
                     pubHandle := if cls ≠ ckoSecret then some o.handle else none }), s') ∧
      ∀ alg, isAlgorithmRsa alg = true →
        rsaDecode txt alg = .ok { bits := 8 * n.length, exponent := beNat e, n := n } := by
  have hkt' : ∀ i, storeToken st ok i (.getAttr m.path s₀ o.handle ["KEY_TYPE"]) = .attrs [.num ckkRsa] := by
    intro i; rw [storeToken_getAttr1 st ok i m.path s₀ _ o hfind, o.attr_keyType _ hkt]
  have hn' : ∀ i, storeToken st ok i (.getAttr m.path s₀ o.handle ["MODULUS"]) = .attrs [.bytes n] := by
    intro i; rw [storeToken_getAttr1 st ok i m.path s₀ _ o hfind, o.attr_modulus, hn]; rfl
  have he' : ∀ i, storeToken st ok i (.getAttr m.path s₀ o.handle ["PUBLIC_EXPONENT"]) = .attrs [.bytes e] := by
    intro i; rw [storeToken_getAttr1 st ok i m.path s₀ _ o hfind, o.attr_publicExponent, he]; rfl
  obtain ⟨txt, s1, hrun, hdec, _⟩ := derived_key_is_token_key_rsa (storeToken st ok) m.path s₀ o.handle n e
    hkt' hn' he' hpos hlen
    ((afterEmpty m label cls pre s).push (findOp m label cls s₀) (.handles [o.handle]))
  refine ⟨txt, s1.push (.getAttr m.path s₀ o.handle ["KEY_TYPE"]) (.attrs [.num ckkRsa]), ?_, hdec⟩
  rw [find_first st ok m label cls hh pre post s₀ o hpre hone]
  unfold foundKey
  rw [if_pos hcls, bind_run_ok _ _ _ _ _ _ hrun,
    foundKeyTail_run m label cls hh s₀ o.handle (some txt) _ s1 ckkRsa .rsa (hkt' _) rfl]

/-! ## `get_p11_key` on a healthy token -/

/-- modules none of whose session slots holds a matching object are passed over (one
    `findObjects` per session slot), then the search continues -/
theorem getP11Key_skip_modules (st : Store) (ok : String → Nat → Bool) (label : String)
    (isPublic : Bool) (hh : Option Bool) (pre rest : List P11Module)
    (hpre : ∀ m ∈ pre, ∀ sl ∈ m.sessions, matching st m label (classOf isPublic) sl = [])
    (s : TokState) :
    ∃ s₁, getP11Key label isPublic hh (pre ++ rest) (storeToken st ok) s =
        getP11Key label isPublic hh rest (storeToken st ok) s₁ ∧ LogExtends s s₁ := by
  induction pre generalizing s with
  | nil => exact ⟨s, rfl, LogExtends.refl s⟩
  | cons m pre ih =>
    have hm := find_none st ok m label (classOf isPublic) hh m.sessions (hpre m List.mem_cons_self) s
    obtain ⟨s₁, h1, h2⟩ := ih (fun x hx => hpre x (List.mem_cons_of_mem _ hx))
      (afterEmpty m label (classOf isPublic) m.sessions s)
    refine ⟨s₁, ?_, LogExtends.trans ⟨_, rfl⟩ h2⟩
    rw [List.cons_append, getP11Key_cons_miss _ _ _ _ _ _ _ _ hm, h1]

/-- no module holds the label ⇒ "not found" -/
theorem getP11Key_store_none (st : Store) (ok : String → Nat → Bool) (label : String)
    (isPublic : Bool) (hh : Option Bool) (mods : List P11Module)
    (hall : ∀ m ∈ mods, ∀ sl ∈ m.sessions, matching st m label (classOf isPublic) sl = [])
    (s : TokState) :
    ∃ s', getP11Key label isPublic hh mods (storeToken st ok) s = (.ok none, s') := by
  obtain ⟨s₁, h, _⟩ := getP11Key_skip_modules st ok label isPublic hh mods [] hall s
  rw [List.append_nil] at h
  exact ⟨s₁, by rw [h]; rfl⟩

/-- **two objects under one label in a slot stop `get_p11_key`** with the runtime error, even when a
    later slot or a later module holds exactly one such object -/
theorem getP11Key_duplicate (st : Store) (ok : String → Nat → Bool) (label : String)
    (isPublic : Bool) (hh : Option Bool) (pre post : List P11Module) (m : P11Module)
    (spre spost : List Nat) (s₀ : Nat)
    (hpre : ∀ m' ∈ pre, ∀ sl ∈ m'.sessions, matching st m' label (classOf isPublic) sl = [])
    (hm : m.sessions = spre ++ s₀ :: spost)
    (hspre : ∀ sl ∈ spre, matching st m label (classOf isPublic) sl = [])
    (htwo : 2 ≤ (matching st m label (classOf isPublic) s₀).length) (s : TokState) :
    ∃ s', getP11Key label isPublic hh (pre ++ m :: post) (storeToken st ok) s =
      (.error (.error .runtime), s') := by
  obtain ⟨s₁, h, _⟩ := getP11Key_skip_modules st ok label isPublic hh pre (m :: post) hpre s
  obtain ⟨s', h'⟩ := two_objects_error st ok m label (classOf isPublic) hh spre spost s₀ hspre htwo s₁
  rw [← hm] at h'
  exact ⟨s', by rw [h, getP11Key_cons_error _ _ _ _ _ _ _ _ _ h']⟩

/-! ## The signing operation carries the documented octets (ties to Part 1) -/

/-- a successful `sign_using_p11` logged exactly one operation, the `C_Sign` below -/
theorem sign_ok_log (hash : Hasher) (key : P11Key) (data : Bytes) (alg : Nat) (tok : Token)
    (s s' : TokState) (b : Bytes) (h : signUsingP11 hash key data alg tok s = (.ok b, s')) :
    ∃ hnd d, key.privHandle = some hnd ∧ formatDataForSigning hash key data alg = .ok d ∧
      s'.log = (.sign key.module key.slot hnd d.mechanism d.data, .sig b) :: s.log ∧
      s'.count = s.count + 1 := by
  rcases sign_issues_exactly_one_op hash key data alg tok s with ⟨_, hne⟩ | ⟨hnd, d, hp, hf, _, _, hs, hb⟩
  · rw [h] at hne; exact absurd rfl (hne b)
  · rw [h] at hs hb
    have := (hb b).mp rfl
    simp only at hs
    refine ⟨hnd, d, hp, hf, ?_, ?_⟩
    · rw [hs, this]; rfl
    · rw [hs]; rfl

/-- raw RSA (algorithms 8, 10; hashing on the host): what the token signed is the
    full-modulus-length EMSA-PKCS1-v1_5 block of the matching digest, under `CKM_RSA_X_509` -/
theorem signed_octets_raw_rsa (hash : Hasher) (key : P11Key) (data : Bytes) (alg : Nat) (tok : Token)
    (s s' : TokState) (b : Bytes) (hk : key.hashUsingHsm ≠ some true) (ha : alg = 8 ∨ alg = 10)
    (h : signUsingP11 hash key data alg tok s = (.ok b, s')) :
    ∃ hnd pk pub digest, key.privHandle = some hnd ∧ key.publicKey = some pk ∧
      rsaDecode pk alg = .ok pub ∧ hash (if alg = 8 then .sha256 else .sha512) data = some digest ∧
      s'.log = (.sign key.module key.slot hnd ckmRsaX509
        (emsaBlock (pub.bits / 8) ((if alg = 8 then digestInfoSha256 else digestInfoSha512) ++ digest)),
        .sig b) :: s.log := by
  obtain ⟨hnd, d, hp, hf, hl, _⟩ := sign_ok_log hash key data alg tok s s' b h
  obtain ⟨pk, pub, digest, h1, h2, h3, h4, h5⟩ := raw_rsa_is_emsa hash key data alg d hk ha hf
  exact ⟨hnd, pk, pub, digest, hp, h1, h2, h3, by rw [hl, h4, h5]⟩

/-- raw ECDSA (13, 14): what the token signed is the matching digest, under `CKM_ECDSA` -/
theorem signed_octets_raw_ecdsa (hash : Hasher) (key : P11Key) (data : Bytes) (alg : Nat) (tok : Token)
    (s s' : TokState) (b : Bytes) (hk : key.hashUsingHsm ≠ some true) (ha : alg = 13 ∨ alg = 14)
    (h : signUsingP11 hash key data alg tok s = (.ok b, s')) :
    ∃ hnd digest, key.privHandle = some hnd ∧
      hash (if alg = 13 then .sha256 else .sha384) data = some digest ∧
      s'.log = (.sign key.module key.slot hnd ckmEcdsa digest, .sig b) :: s.log := by
  obtain ⟨hnd, d, hp, hf, hl, _⟩ := sign_ok_log hash key data alg tok s s' b h
  obtain ⟨h1, h2⟩ := raw_ecdsa_is_digest hash key data alg d hk ha hf
  exact ⟨hnd, d.data, hp, h2, by rw [hl, h1]⟩

/-- hash on token: the data go to the token untouched, under the mechanism matching the algorithm -/
theorem signed_octets_hash_on_token (hash : Hasher) (key : P11Key) (data : Bytes) (alg : Nat)
    (tok : Token) (s s' : TokState) (b : Bytes) (hk : key.hashUsingHsm = some true)
    (ha : alg ∈ [5, 8, 10, 13, 14]) (h : signUsingP11 hash key data alg tok s = (.ok b, s')) :
    ∃ hnd mech, key.privHandle = some hnd ∧ mechanismFor true alg = some mech ∧
      s'.log = (.sign key.module key.slot hnd mech data, .sig b) :: s.log := by
  obtain ⟨hnd, d, hp, hf, hl, _⟩ := sign_ok_log hash key data alg tok s s' b h
  obtain ⟨h1, h2, _⟩ := hash_on_token_untouched hash key data alg d hk ha hf
  exact ⟨hnd, d.mechanism, hp, h2.symm, by rw [hl, h1]⟩

/-! ## The keymaster's lookups (C19) obey the same theorems

Kskm/Keymaster.lean re-states `find_key_by_label` / `get_p11_key` as programs `Km.findInSlotsP` /
`Km.getP11KeyP` (so that C19 can run them against a store).  KskmProofs/Lemmas/KmHsmEq.lean proves that their
oracle interpretation `runTok` EQUALS the `TokM` functions the theorems above are about
(`C19.km_lookups_are_hsm_lookups`); so each theorem above is, by rewriting, a theorem about the keymaster's
lookups.  Spelled out for (b), (c), "not found ⇔" and the module order. -/

/-- **(b) for the keymaster**: the first slot that has any matching object has exactly one ⇒ the outcome —
    result, operation count and log — is that of reading this object; later slots play no role. -/
theorem km_find_first (st : Store) (ok : String → Nat → Bool) (m : P11Module) (label : String)
    (cls : Nat) (hh : Option Bool) (pre post : List Nat) (s₀ : Nat) (o : StoreObj)
    (hpre : ∀ sl ∈ pre, matching st m label cls sl = [])
    (hone : matching st m label cls s₀ = [o]) (s : TokState) :
    (Km.findInSlotsP m label cls hh (pre ++ s₀ :: post)).runTok (storeToken st ok) s =
      (Km.foundKeyP m label cls hh s₀ o.handle).runTok (storeToken st ok)
        ((afterEmpty m label cls pre s).push (findOp m label cls s₀) (.handles [o.handle])) := by
  rw [Km.runTok_findInSlotsP, Km.runTok_foundKeyP]
  exact find_first st ok m label cls hh pre post s₀ o hpre hone s

/-- **(c) for the keymaster**: two objects under one label in the first non-empty slot are the runtime
    error, whatever later slots hold (so `keygen` / `keydel` stop there). -/
theorem km_find_duplicate (st : Store) (ok : String → Nat → Bool) (m : P11Module) (label : String)
    (cls : Nat) (hh : Option Bool) (pre post : List Nat) (s₀ : Nat) (o₁ o₂ : StoreObj) (os : List StoreObj)
    (hpre : ∀ sl ∈ pre, matching st m label cls sl = [])
    (htwo : matching st m label cls s₀ = o₁ :: o₂ :: os) (s : TokState) :
    (Km.findInSlotsP m label cls hh (pre ++ s₀ :: post)).runTok (storeToken st ok) s =
      (.error (.error .runtime),
        (afterEmpty m label cls pre s).push (findOp m label cls s₀)
          (.handles (o₁.handle :: o₂.handle :: os.map (·.handle)))) := by
  rw [Km.runTok_findInSlotsP]
  exact find_duplicate st ok m label cls hh pre post s₀ o₁ o₂ os hpre htwo s

/-- **"not found" ⇔ no session slot holds the label**, for the keymaster's lookup -/
theorem km_find_none_iff (st : Store) (ok : String → Nat → Bool) (m : P11Module) (label : String)
    (cls : Nat) (hh : Option Bool) (slots : List Nat) (s : TokState) :
    (∃ s', (Km.findInSlotsP m label cls hh slots).runTok (storeToken st ok) s = (.ok none, s')) ↔
      ∀ sl ∈ slots, matching st m label cls sl = [] := by
  rw [Km.runTok_findInSlotsP]
  exact find_none_iff st ok m label cls hh slots s

/-- **found ⇒** exactly one object in the first slot that has any, with its slot, module and handle —
    `find_iff` for the keymaster's lookup -/
theorem km_find_iff (st : Store) (ok : String → Nat → Bool) (m : P11Module) (label : String)
    (cls : Nat) (hh : Option Bool) (slots : List Nat) (s s' : TokState) (key : P11Key)
    (hr : (Km.findInSlotsP m label cls hh slots).runTok (storeToken st ok) s = (.ok (some key), s')) :
    ∃ pre s₀ post o, slots = pre ++ s₀ :: post ∧
      (∀ sl ∈ pre, matching st m label cls sl = []) ∧ matching st m label cls s₀ = [o] ∧
      key.slot = s₀ ∧ key.module = m.path ∧ key.label = label ∧ key.keyClass = cls ∧
      key.hashUsingHsm = hh ∧
      key.privHandle = (if cls ≠ ckoPublic then some o.handle else none) ∧
      key.pubHandle = (if cls ≠ ckoSecret then some o.handle else none) ∧
      ∃ reads, s'.log = reads ++ (findOp m label cls s₀, .handles [o.handle]) ::
          emptyAnswers m label cls pre ++ s.log ∧
        ∀ e ∈ reads, IsGetAttrOf m.path s₀ o.handle e.1 := by
  rw [Km.runTok_findInSlotsP] at hr
  exact find_iff st ok m label cls hh slots s s' key hr

/-- **modules in order, a hit ends the search** — for EVERY token, the keymaster's `get_p11_key` -/
theorem km_getP11Key_first_module (label : String) (isPublic : Bool) (hh : Option Bool) (tok : Token)
    (mods : List P11Module) (s s' : TokState) (k : P11Key)
    (h : (Km.getP11KeyP label isPublic hh mods).runTok tok s = (.ok (some k), s')) :
    ∃ pre m post s₁, mods = pre ++ m :: post ∧
      (Km.getP11KeyP label isPublic hh pre).runTok tok s = (.ok none, s₁) ∧
      (Km.findInSlotsP m label (classOf isPublic) hh m.sessions).runTok tok s₁ = (.ok (some k), s') ∧
      k.module = m.path ∧ k.slot ∈ m.sessions ∧
      (∀ post', (Km.getP11KeyP label isPublic hh (pre ++ m :: post')).runTok tok s = (.ok (some k), s')) ∧
      ∃ l, s'.log = l ++ s.log ∧ ∀ e ∈ l, IsReadAmong (pre ++ [m]) e.1 := by
  rw [Km.runTok_getP11KeyP] at h
  obtain ⟨pre, m, post, s₁, h1, h2, h3, h4, h5, h6, h7⟩ := getP11Key_first_module label isPublic hh tok mods s s' k h
  refine ⟨pre, m, post, s₁, h1, ?_, ?_, h4, h5, ?_, h7⟩
  · rw [Km.runTok_getP11KeyP]; exact h2
  · rw [Km.runTok_findInSlotsP]; exact h3
  · intro post'; rw [Km.runTok_getP11KeyP]; exact h6 post'

/-! ## Non-vacuity (Part 2): a concrete healthy token with one RSA key in the second slot -/

def exObj : StoreObj :=
  { handle := 7, cls := ckoPublic, label := "K", keyType := some ckkRsa,
    modulus := some [0x80, 1], publicExponent := some [1, 0, 1] }
def exStore : Store := fun p sl => if p = "mod" ∧ sl = 1 then [exObj] else []
def exMod : P11Module := { label := "hsm", path := "mod", slots := [0, 1, 2], sessions := [0, 1, 2] }
def exTok : Token := storeToken exStore (fun _ _ => true)

-- hypotheses of `find_first` / `find_first_rsa` (pre = [0], s₀ = 1, post = [2])
example : (∀ sl ∈ [0], matching exStore exMod "K" ckoPublic sl = []) ∧
    matching exStore exMod "K" ckoPublic 1 = [exObj] ∧
    (exStore exMod.path 1).find? (·.handle == exObj.handle) = some exObj ∧
    1 ≤ beNat [1, 0, 1] := by decide
-- … and the model's verdict on it: found in slot 1 with handle 7; slot 2 never queried
example : (findInSlots exMod "K" ckoPublic none [0, 1, 2] exTok {}).1 =
    .ok (some { label := "K", keyType := .rsa, keyClass := ckoPublic, publicKey := some "AwEAAYAB",
                module := "mod", slot := 1, pubHandle := some 7 }) := by decide +kernel
example : ((findInSlots exMod "K" ckoPublic none [0, 1, 2] exTok {}).2.log.filter
      (fun e => match e.1 with | .findObjects .. => true | _ => false)).map (·.1) =
    [findOp exMod "K" ckoPublic 1, findOp exMod "K" ckoPublic 0] := by decide +kernel
example : rsaDecode "AwEAAYAB" 8 = .ok { bits := 16, exponent := 65537, n := [0x80, 1] } := by
  decide +kernel
-- two objects under the label in slot 1: runtime error although slot 2 holds exactly one
example : (findInSlots exMod "K" ckoPublic none [0, 1, 2]
    (storeToken (fun _ sl => if sl = 1 then [exObj, { exObj with handle := 8 }]
                             else if sl = 2 then [exObj] else []) (fun _ _ => true)) {}).1 =
    .error (.error .runtime) := by decide +kernel
-- a slot that refuses login is dropped (hypothesis `Nodup` of `sessions_drop_failed` holds)
example : [0, 1, 2].Nodup ∧
    (openSessions exMod [0, 1, 2] { exMod with sessions := [] }
      (storeToken exStore (fun _ s => s != 1)) {}).1 =
    .ok { exMod with slots := [0, 2], sessions := [0, 2] } := by decide +kernel
-- EC answers: a wrapped P-256 point meets the hypotheses of `derived_key_ec_wrapped`
example : ecPointOctets ecOidP256 = some 65 ∧ (List.replicate 64 (7 : UInt8)).length + 1 = 65 := by
  decide
-- the unwrap rule: the bare point of the real key d = 20220 meets the hypotheses of `ec_bare_any_octets_repaired`
-- and of `ec_bare_refused_pinned` (P-256, 65 octets, starts 04 3f 04 with 0x3f = 65 − 2)
example : ecPointOctets ecOidP256 = some 65 ∧ f24BarePoint.length = 65 ∧
    f24BarePoint.take 3 = [4, UInt8.ofNat (65 - 2), 4] := by decide
example : ecDeriveWith true f24BarePoint ecOidP256 = .ok (some (Base64.encode f24BarePoint)) :=
  ec_bare_any_octets_repaired f24BarePoint ecOidP256 65 (by decide) (by decide)

-- the keymaster's lookup on the same token: same key, same log (instance of `km_find_first`)
example : ((Km.findInSlotsP exMod "K" ckoPublic none [0, 1, 2]).runTok exTok {}).1 =
    .ok (some { label := "K", keyType := .rsa, keyClass := ckoPublic, publicKey := some "AwEAAYAB",
                module := "mod", slot := 1, pubHandle := some 7 }) := by
  rw [Km.runTok_findInSlotsP]; decide +kernel

end Kskm.C15

/-! ## The rest of misc/hsm.py: `.hsmconfig` files (`parse_hsmconfig`, `load_hsmconfig`), `find_key_by_id`, the `name` filter
    (model: Kskm/HsmConfig.lean; lemmas: KskmProofs/Lemmas/C15HsmConfig.lean; correspondence: harness/corr_C15_hsmconfig.py) -/
namespace Kskm.C15
open Kskm.HsmConfig
open Kskm.Xml (Classes Out)

/-- **The interpolation loop terminates.** Whatever the character classes and whatever `res` / `defaults` hold, the
    `while True:` loop of `parse_hsmconfig` never needs more rounds than the right-hand side has "$" characters: every
    round that does not leave the loop replaces at least one "$…" by a "$"-free value (`round_again_lt`), so the fuel
    never runs out for fuel ≥ the number of "$". -/
theorem hsmconfig_interpolation_terminates (isWord : Char → Bool) (lookup : Str → Option Str) (fuel : Nat) (rhs : Str)
    (h : dollars rhs ≤ fuel) : interpolate isWord lookup fuel rhs ≠ .outOfFuel :=
  interpolate_terminates isWord lookup fuel rhs h

/-- one round that goes on strictly lowers the measure (the reason for the theorem above) -/
theorem hsmconfig_round_decreases (isWord : Char → Bool) (lookup : Str → Option Str) (rhs rhs' : Str)
    (h : interpRound isWord lookup rhs = .again rhs') : dollars rhs' < dollars rhs :=
  round_again_lt isWord lookup rhs rhs' h

/-- … hence `parse_hsmconfig` and `load_hsmconfig` (which supply exactly that fuel) answer on EVERY input: lines, defaults,
    limit, file text, environment. -/
theorem hsmconfig_parse_never_hangs (cls : Classes) (defaults : Defaults) (maxLines : Int) (lines : List Str) :
    parseHsmconfig cls defaults maxLines lines ≠ .outOfFuel := by
  unfold parseHsmconfig
  have := loop_ne_outOfFuel cls defaults lines { maxLines, res := [] }
  split <;> simp_all

theorem hsmconfig_load_never_hangs (cls : Classes) (defaults : Option (List (Str × Str))) (environ : Defaults)
    (maxLines : Int) (text : Str) : loadHsmconfig cls defaults environ maxLines text ≠ .outOfFuel := by
  unfold loadHsmconfig
  simp only
  split
  · split <;> simp
  · simp
  · rename_i h; exact absurd h (hsmconfig_parse_never_hangs _ _ _ _)
-- a chain with a prefix-overlapping name: "$FOO" is replaced inside "$FOO_BAR" too, two rounds for three "$"
example : dollars "$FOO/$FOO_BAR$B".toList = 3 ∧
    interpolate Xml.pyClasses.isWord (lookupVar [("FOO".toList, "a".toList)] (fun k => if k = "B".toList then some "b".toList else none))
      3 "$FOO/$FOO_BAR$B".toList = .ok "a/a_BARb".toList := by decide +kernel

/-- **No reference survives.** When `parse_hsmconfig` succeeds, no value of the returned dict holds a "$" that is followed
    by a word character — for all defaults (the code refuses a "$" in every value it substitutes, so no hypothesis on the
    defaults is needed), all limits, all lines. -/
theorem hsmconfig_result_interpolated (cls : Classes) (defaults : Defaults) (maxLines : Int) (lines : List Str)
    (res : Dict) (h : parseHsmconfig cls defaults maxLines lines = .ok res) :
    ∀ p ∈ res, ∀ (pre : Str) (c : Char) (post : Str), p.2 = pre ++ '$' :: c :: post → cls.isWord c = false := by
  unfold parseHsmconfig at h
  split at h
  · rename_i st hl
    cases h
    intro p hp
    rcases (loop_ok_inv cls defaults lines _ _ hl).2 p hp with hp | hp
    · cases hp
    · exact searchVar_none cls.isWord p.2 hp
  · cases h
  · cases h
example : parseHsmconfig Xml.pyClasses (fun k => if k = "HOME".toList then some "/h".toList else none) 100
      ["A=$HOME/x\n".toList, " # c\r\n".toList, "B=$A:$A_\n".toList] =
    .ok [("A".toList, "/h/x".toList), ("B".toList, "/h/x:/h/x_".toList)] := by decide +kernel

/-- **Fail closed: undefined or empty variable.** If the lines before it were accepted, the line is within the limit, is an
    assignment, and the first reference its right-hand side holds names a variable that is neither assigned above nor in the
    defaults — or is assigned the empty string — then the whole file is refused (RuntimeError), whatever follows. -/
theorem hsmconfig_undefined_variable_fails (cls : Classes) (defaults : Defaults) (maxLines : Int)
    (pre : List Str) (line : Str) (post : List Str) (st : St) (lhs rhs key : Str)
    (hpre : loop cls defaults { maxLines, res := [] } pre = .ok st)
    (hlim : st.maxLines - 1 ≠ 0)
    (hline : Xml.strip (· == '\n') (Xml.strip cls.isStrip line) = lhs ++ '=' :: rhs)
    (hlhs : '=' ∉ lhs) (hcomment : (lhs ++ '=' :: rhs).head? ≠ some '#')
    (href : searchVar cls.isWord rhs = some key)
    (hundef : lookupVar st.res defaults key = none ∨ lookupVar st.res defaults key = some []) :
    parseHsmconfig cls defaults maxLines (pre ++ line :: post) = .err .runtime := by
  have hsplit : ∀ (l : Str), '=' ∉ l → splitEq (l ++ '=' :: rhs) = some (l, rhs) := by
    intro l
    induction l with
    | nil => intro _; simp [splitEq]
    | cons c l ih =>
      intro hm
      have hc : c ≠ '=' := fun h => hm (by simp [h])
      have hl : '=' ∉ l := fun h => hm (List.mem_cons_of_mem _ h)
      simp [splitEq, hc, ih hl]
  have hstep : step cls defaults st line = .err .runtime := by
    unfold step
    simp only [hline, if_neg hlim]
    have hne : ((lhs ++ '=' :: rhs).isEmpty || (lhs ++ '=' :: rhs).head? == some '#') = false := by
      have h1 : (lhs ++ '=' :: rhs).isEmpty = false := by cases lhs <;> rfl
      have h2 : ((lhs ++ '=' :: rhs).head? == some '#') = false := by
        cases hh : (lhs ++ '=' :: rhs).head? == some '#'
        · rfl
        · exact absurd (by simpa using hh) hcomment
      rw [h1, h2]; rfl
    rw [hne]
    simp only [Bool.false_eq_true, if_false, hsplit lhs hlhs,
      interpolate_undefined cls.isWord _ _ rhs key href hundef]
  unfold parseHsmconfig
  rw [loop_append cls defaults pre _ st (line :: post) hpre]
  simp only [loop, hstep]
example : loop Xml.pyClasses (fun _ => none) { maxLines := 100, res := [] } ["A=\n".toList] =
      .ok { maxLines := 99, res := [("A".toList, [])] } ∧
    searchVar Xml.pyClasses.isWord "x$A".toList = some "A".toList ∧
    parseHsmconfig Xml.pyClasses (fun _ => some "dflt".toList) 100 ["A=\n".toList, "B=x$A\n".toList, "C=1\n".toList] =
      .err .runtime := by decide +kernel

/-- **The line limit.** A successful parse has seen fewer than `max_lines` lines (blank and comment lines count), unless the
    limit is ≤ 0 — the counter is decremented before it is compared with 0, so a non-positive limit never triggers. -/
theorem hsmconfig_line_limit (cls : Classes) (defaults : Defaults) (maxLines : Int) (lines : List Str) (res : Dict)
    (h : parseHsmconfig cls defaults maxLines lines = .ok res) :
    maxLines ≤ 0 ∨ (lines.length : Int) < maxLines := by
  unfold parseHsmconfig at h
  split at h
  · rename_i st hl; exact (loop_ok_inv cls defaults lines _ _ hl).1
  · cases h
  · cases h

/-- … so lines beyond a positive limit are always refused -/
theorem hsmconfig_too_long_refused (cls : Classes) (defaults : Defaults) (maxLines : Int) (lines : List Str)
    (hpos : 0 < maxLines) (hlen : maxLines ≤ (lines.length : Int)) :
    ∃ k, parseHsmconfig cls defaults maxLines lines = .err k := by
  cases hp : parseHsmconfig cls defaults maxLines lines with
  | ok res => have := hsmconfig_line_limit _ _ _ _ _ hp; omega
  | err k => exact ⟨k, rfl⟩
  | outOfFuel => exact absurd hp (hsmconfig_parse_never_hangs _ _ _ _)
-- the default limit of 100: 99 blank lines pass, the 100th line is refused although it is blank too; limit 0 is no limit
example : parseHsmconfig Xml.pyClasses (fun _ => none) 100 (List.replicate 99 ['\n']) = .ok [] ∧
    parseHsmconfig Xml.pyClasses (fun _ => none) 100 (List.replicate 100 ['\n']) = .err .runtime ∧
    parseHsmconfig Xml.pyClasses (fun _ => none) 0 (List.replicate 300 ['\n']) = .ok [] := by decide +kernel

/-- **`find_key_by_id` keeps only public and private key objects, handle on the right side.** For EVERY token (any answers,
    any faults): when the call returns, every key in the list was built from one of the handles the token answered to the
    CKA_ID query, is of class CKO_PUBLIC_KEY with that handle as `pubkey_handle` and no private handle, or of class
    CKO_PRIVATE_KEY with that handle as `privkey_handle` and no public handle — never a secret key, certificate or data
    object; it names the session it was found in; and there are at most as many keys as handles. -/
theorem find_key_by_id_classes (path : String) (slot : Nat) (keyIdHex : String) (t : Token) (s s' : TokState)
    (ks : List P11Key) (h : findKeyById path slot keyIdHex t s = (.ok ks, s')) :
    ∃ hs, t s.count (.findObjects path slot [("ID", .str keyIdHex)]) = .handles hs ∧ ks.length ≤ hs.length ∧
      ∀ k ∈ ks, ∃ hd ∈ hs, k.module = path ∧ k.slot = slot ∧
        ((k.keyClass = ckoPublic ∧ k.pubHandle = some hd ∧ k.privHandle = none) ∨
         (k.keyClass = ckoPrivate ∧ k.privHandle = some hd ∧ k.pubHandle = none)) := by
  unfold findKeyById at h
  obtain ⟨a, s1, ha, h⟩ := TokM.bind_ok _ _ _ _ _ _ h
  have hask : a = t s.count (.findObjects path slot [("ID", .str keyIdHex)]) := by
    rw [askOk_run] at ha
    split at ha
    · simp at ha
    · simp only [Prod.mk.injEq, Except.ok.injEq] at ha
      exact ha.1.symm
  split at h
  · rename_i hs
    obtain ⟨hlen, hall⟩ := keysOfObjects_spec path slot t hs _ _ _ h
    refine ⟨hs, hask ▸ rfl, hlen, ?_⟩
    intro k hk
    obtain ⟨hd, hmem, hm, hsl, _, hcls⟩ := hall k hk
    exact ⟨hd, hmem, hm, hsl, hcls⟩
  · simp at h
-- a slot answering three handles under the identifier: a public RSA key, a secret key, a private RSA key;
-- the secret key is skipped, the other two come back with their handle on the side of their class
example :
    let tok : Token := fun _ op => match op with
      | .findObjects _ _ _ => .handles [1, 2, 3]
      | .getAttr _ _ 1 ["CLASS", "LABEL"] => .attrs [.num ckoPublic, .str "K"]
      | .getAttr _ _ 2 ["CLASS", "LABEL"] => .attrs [.num ckoSecret, .str "S"]
      | .getAttr _ _ 3 ["CLASS", "LABEL"] => .attrs [.num ckoPrivate, .str "K"]
      | .getAttr _ _ _ ["KEY_TYPE"] => .attrs [.num ckkRsa]
      | .getAttr _ _ _ ["MODULUS"] => .attrs [.bytes [0x80, 1]]
      | .getAttr _ _ _ ["PUBLIC_EXPONENT"] => .attrs [.bytes [1, 0, 1]]
      | _ => .other
    (findKeyById "mod" 0 "0102" tok {}).1 = .ok [
      { label := "K", keyType := .rsa, keyClass := ckoPublic, publicKey := some "AwEAAYAB", module := "mod", slot := 0,
        pubHandle := some 1 },
      { label := "K", keyType := .rsa, keyClass := ckoPrivate, publicKey := some "AwEAAYAB", module := "mod", slot := 0,
        privHandle := some 3 }] := by decide +kernel

/-- **`init_pkcs11_modules(config, name)` initialises only the named module.** For every token and every configuration:
    with a (non-empty) name, every module that comes back carries that name, there are exactly as many as the configuration
    has entries of that name (a dict: one), and the configuration does have one. -/
theorem init_by_name_only_that_module (all : List Kskm.HsmConfig) (name typed : String) (hne : name ≠ "") (t : Token)
    (s s' : TokState) (mods : List P11Module)
    (h : initPkcs11Modules all (some name) typed all t s = (.ok mods, s')) :
    (∀ m ∈ mods, m.label = name) ∧ mods.length = (all.filter (fun h => h.label == name)).length ∧
      (∃ h ∈ all, h.label = name) :=
  initPkcs11Modules_named all name typed hne t all s s' mods h

/-- … and a name no entry carries is refused (RuntimeError) before ANY token operation: state and log are untouched. -/
theorem init_by_unknown_name_refused (all : List Kskm.HsmConfig) (name typed : String) (hne : name ≠ "") (t : Token)
    (s : TokState) (hall : ∀ h ∈ all, h.label ≠ name) :
    initPkcs11Modules all (some name) typed all t s = (.error (.error .runtime), s) :=
  initPkcs11Modules_unknown all name typed hne t hall all s hall
-- two configured modules, the second one asked for: one module comes back, labelled "b", and only "mod_b" was loaded;
-- a name that is not configured: RuntimeError and an empty log
def exInitCfgs : List Kskm.HsmConfig :=
  [{ label := "a", path := "mod_a", pin := some "1", soPin := none }, { label := "b", path := "mod_b", pin := some "1", soPin := none }]
def exInitTok : Token := fun _ op => match op with | .getSlotList _ => .slots [] | _ => .ok
example :
    ((initPkcs11Modules exInitCfgs (some "b") "" exInitCfgs exInitTok {}).1.toOption.map (·.map (·.label))) = some ["b"] ∧
    ((initPkcs11Modules exInitCfgs (some "b") "" exInitCfgs exInitTok {}).2.log.map (·.1)) =
      [.getSlotList "mod_b", .initialize "mod_b", .load "mod_b"] ∧
    (initPkcs11Modules exInitCfgs (some "c") "" exInitCfgs exInitTok {}).1 = .error (.error .runtime) ∧
    (initPkcs11Modules exInitCfgs (some "c") "" exInitCfgs exInitTok {}).2.log = [] := by decide +kernel

/-- **The limit matters only when it is hit.** Two limits that the source does not reach (non-positive — never reached — or
    larger than the number of lines) give the same answer, result or error alike; in particular every `max_lines ≤ 0`
    behaves as "no limit" (the quirk of `max_lines -= 1; if not max_lines`). -/
theorem hsmconfig_limit_irrelevant_unless_hit (cls : Classes) (defaults : Defaults) (a b : Int) (lines : List Str)
    (ha : a ≤ 0 ∨ (lines.length : Int) < a) (hb : b ≤ 0 ∨ (lines.length : Int) < b) :
    parseHsmconfig cls defaults a lines = parseHsmconfig cls defaults b lines := by
  rw [parse_eq_resOf, parse_eq_resOf]
  exact loop_budget_irrelevant cls defaults lines a b [] ha hb
example : ((-5 : Int) ≤ 0 ∨ ((List.replicate 150 ['A', '=', '\n']).length : Int) < -5) ∧
    parseHsmconfig Xml.pyClasses (fun _ => none) (-5) (List.replicate 150 ['A', '=', '\n']) = .ok [(['A'], [])] := by
  decide +kernel

/-- **Later lines overwrite earlier keys, first assignment fixes the position** (Python dict semantics of `res[lhs] = rhs`):
    after the assignment the key reads back the new value, every other key is untouched, and the key order is the old one
    with a NEW key appended. -/
theorem hsmconfig_assignment_semantics (d : Dict) (k v : Str) :
    (Dict.set d k v).get k = some v ∧ (∀ k', k' ≠ k → (Dict.set d k v).get k' = d.get k') ∧
    (Dict.set d k v).map (·.1) = if k ∈ d.map (·.1) then d.map (·.1) else d.map (·.1) ++ [k] :=
  ⟨Dict.get_set_same d k v, fun k' hk => Dict.get_set_other d k k' v hk, Dict.keys_set d k v⟩
example : parseHsmconfig Xml.pyClasses (fun _ => none) 100 ["A=1\n".toList, "B=2\n".toList, "A=$B$A\n".toList] =
    .ok [("A".toList, "21".toList), ("B".toList, "2".toList)] := by decide +kernel

/-- `load_hsmconfig` returns only dicts that set PKCS11_LIBRARY_PATH -/
theorem hsmconfig_load_has_library_path (cls : Classes) (defaults : Option (List (Str × Str))) (environ : Defaults)
    (maxLines : Int) (text : Str) (res : Dict) (h : loadHsmconfig cls defaults environ maxLines text = .ok res) :
    (res.get pkcs11LibraryPath).isSome = true := by
  unfold loadHsmconfig at h
  simp only at h
  split at h
  · split at h
    · rename_i hs; cases h; exact hs
    · cases h
  · cases h
  · cases h

/-- **Fail closed: a substituted value may not itself hold a "$".** Whatever follows, a reference whose value (from an earlier
    line or from the defaults) contains "$" is refused with ValueError — values are never re-scanned, so no indirection. -/
theorem hsmconfig_indirect_reference_refused (isWord : Char → Bool) (lookup : Str → Option Str) (fuel : Nat)
    (rhs key val : Str) (hs : searchVar isWord rhs = some key) (hl : lookup key = some val) (hv : '$' ∈ val) :
    interpolate isWord lookup fuel rhs = .err .value := by
  have hr : interpRound isWord lookup rhs = .done (.err .value) := by
    unfold interpRound
    rw [hs]; simp only [hl]
    cases val with
    | nil => simp at hv
    | cons v vs =>
      have hc : (v :: vs).contains '$' = true := by simpa using hv
      simp only
      rw [if_pos hc]
  cases fuel <;> rw [interpolate, hr]
example : searchVar Xml.pyClasses.isWord "x/$B".toList = some "B".toList ∧ '$' ∈ "$C".toList ∧
    parseHsmconfig Xml.pyClasses (fun k => if k = "B".toList then some "$C".toList else some "c".toList) 100
      ["A=x/$B\n".toList] = .err .value := by decide +kernel

/-- the same guarantee for `load_hsmconfig`: whatever file, defaults and environment, a returned value holds no "$"
    followed by a word character -/
theorem hsmconfig_load_result_interpolated (cls : Classes) (defaults : Option (List (Str × Str))) (environ : Defaults)
    (maxLines : Int) (text : Str) (res : Dict) (h : loadHsmconfig cls defaults environ maxLines text = .ok res) :
    ∀ p ∈ res, ∀ (pre : Str) (c : Char) (post : Str), p.2 = pre ++ '$' :: c :: post → cls.isWord c = false := by
  unfold loadHsmconfig at h
  simp only at h
  split at h
  · rename_i r hp
    split at h
    · cases h; exact hsmconfig_result_interpolated _ _ _ _ _ hp
    · cases h
  · cases h
  · cases h
example : loadHsmconfig Xml.pyClasses none (fun k => if k = "HOME".toList then some "/h".toList else none) 100
      "# keyper\r\nPKCS11_LIBRARY_PATH=$HOME/p11.so\rLD=$PKCS11_LIBRARY_PATH".toList =
    .ok [("PKCS11_LIBRARY_PATH".toList, "/h/p11.so".toList), ("LD".toList, "/h/p11.so".toList)] := by decide +kernel

end Kskm.C15
