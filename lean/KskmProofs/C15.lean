/-
  C15 — the PKCS#11 layer finds the right key and hands the token the right octets.
  (first instalment: mechanism/padding/environment theorems; lookup theorems follow below)
-/
import Kskm.Hsm
import KskmGen.Tables
namespace Kskm.C15

/-! ## Constants and the mechanism table are those of the code and of PKCS#11 -/

/-- the PKCS#11 numbers used by the model are the ones PyKCS11 exports -/
theorem ckm_constants :
    KskmGen.ckm = [("CKM_RSA_X_509", ckmRsaX509), ("CKM_SHA1_RSA_PKCS", ckmSha1RsaPkcs),
      ("CKM_SHA256_RSA_PKCS", ckmSha256RsaPkcs), ("CKM_SHA512_RSA_PKCS", ckmSha512RsaPkcs),
      ("CKM_ECDSA", ckmEcdsa), ("CKM_ECDSA_SHA256", ckmEcdsaSha256),
      ("CKM_ECDSA_SHA384", ckmEcdsaSha384), ("CKM_EDDSA", ckmEddsa)] := by decide

/-- **Mechanism table.** For every DNSSEC algorithm number and hashing mode, the model's mechanism
    choice equals what `_format_data_for_signing` does in /repo (tabulated by execution on every
    run), except that the tabulation probes with an RSA key and therefore records no mechanism where
    the code fails before choosing. -/
theorem mechanism_table :
    ∀ row ∈ KskmGen.mechanismTable,
      (row.2.2.1.isSome → mechanismFor row.2.1 row.1 = row.2.2.1) := by decide +kernel

/-- the documented map: (algorithm, hash on token) ↦ mechanism -/
theorem mechanism_documented :
    mechanismFor false 8 = some ckmRsaX509 ∧ mechanismFor false 10 = some ckmRsaX509 ∧
    mechanismFor false 13 = some ckmEcdsa ∧ mechanismFor false 14 = some ckmEcdsa ∧
    mechanismFor true 8 = some ckmSha256RsaPkcs ∧ mechanismFor true 10 = some ckmSha512RsaPkcs ∧
    mechanismFor true 13 = some ckmEcdsaSha256 ∧ mechanismFor true 14 = some ckmEcdsaSha384 ∧
    (∀ a, a < 256 → a ∉ [5, 8, 10, 13, 14, 15, 16] → mechanismFor false a = none ∧ mechanismFor true a = none) := by
  refine ⟨rfl, rfl, rfl, rfl, rfl, rfl, rfl, rfl, ?_⟩
  decide +kernel

/-- DigestInfo prefixes are the RFC 8017 §9.2 note 1 values the code uses (regenerated table) -/
theorem digestinfo_table :
    KskmGen.digestInfoPrefix =
      [(5, digestInfoSha1.map (·.toNat)), (8, digestInfoSha256.map (·.toNat)),
       (10, digestInfoSha512.map (·.toNat))] := by decide

/-! ## EMSA-PKCS1-v1_5 (RFC 8017 §9.2) -/

/-- **Raw RSA input.** For every modulus length `k` with `k ≥ |T| + 11` the block handed over is
    `00 01 PS 00 T` with `PS` = `k − |T| − 3` octets `FF`, at least eight of them, and is exactly `k`
    octets long. -/
theorem emsa_eq_rfc8017 (k : Nat) (t : Bytes) (h : t.length + 11 ≤ k) :
    ∃ ps : Bytes, emsaBlock k t = [0x00, 0x01] ++ ps ++ [0x00] ++ t ∧
      ps.length = k - t.length - 3 ∧ 8 ≤ ps.length ∧ (∀ b ∈ ps, b = 0xff) ∧
      (emsaBlock k t).length = k := by
  refine ⟨List.replicate (k - t.length - 3) 0xff, rfl, by simp, by simp; omega, ?_, ?_⟩
  · intro b hb; exact (List.mem_replicate.mp hb).2
  · simp [emsaBlock]; omega

/-- when the modulus is too short for the encoding the block is NOT `k` octets long (so a healthy
    token refuses it): the tool never silently truncates `T` -/
theorem emsa_short_modulus (k : Nat) (t : Bytes) (h : k < t.length + 3) :
    (emsaBlock k t).length = t.length + 3 := by
  simp [emsaBlock]; omega

/-! ## What reaches the token -/

theorem onHsm_false (key : P11Key) (hk : key.hashUsingHsm ≠ some true) :
    (key.hashUsingHsm == some true) = false := by
  cases hh : key.hashUsingHsm with
  | none => rfl
  | some b => cases b <;> simp_all

/-- **Hash on token: data untouched, mechanism matching the algorithm.** -/
theorem hash_on_token_untouched (hash : Hasher) (key : P11Key) (data : Bytes) (alg : Nat) (d : DataToSign)
    (hk : key.hashUsingHsm = some true) (ha : alg ∈ [5, 8, 10, 13, 14])
    (h : formatDataForSigning hash key data alg = .ok d) :
    d.data = data ∧ some d.mechanism = mechanismFor true alg ∧ d.hashUsingHsm = true := by
  simp only [List.mem_cons, List.mem_nil_iff, or_false] at ha
  have hon : (key.hashUsingHsm == some true) = true := by simp [hk]
  unfold formatDataForSigning at h
  simp only [hon] at h
  rcases ha with rfl | rfl | rfl | rfl | rfl
  all_goals
    simp only [mechanismFor, algRSASHA1, algRSASHA256, algRSASHA512, algECDSAP256, algECDSAP384,
      ckmSha1RsaPkcs, ckmSha256RsaPkcs, ckmSha512RsaPkcs, ckmEcdsaSha256, ckmEcdsaSha384] at h ⊢
    simp at h
    subst h
    simp

/-- **Raw ECDSA: the matching digest, nothing else.** -/
theorem raw_ecdsa_is_digest (hash : Hasher) (key : P11Key) (data : Bytes) (alg : Nat) (d : DataToSign)
    (hk : key.hashUsingHsm ≠ some true) (ha : alg = 13 ∨ alg = 14)
    (h : formatDataForSigning hash key data alg = .ok d) :
    d.mechanism = ckmEcdsa ∧
    hash (if alg = 13 then .sha256 else .sha384) data = some d.data := by
  have hk' := onHsm_false key hk
  unfold formatDataForSigning at h
  simp only [hk'] at h
  rcases ha with rfl | rfl
  all_goals
    simp only [mechanismFor, ecdsaHashFor, algRSASHA1, algRSASHA256, algRSASHA512, algECDSAP256,
      algECDSAP384, ckmEcdsa, ckmEcdsaSha256, ckmEcdsaSha384, ckmSha1RsaPkcs, ckmSha256RsaPkcs,
      ckmSha512RsaPkcs, ckmRsaX509] at h ⊢
    simp at h
    split at h
    · simp [unsupported] at h
    · rename_i dg hdg
      simp at h
      subst h
      simp [hdg]

/-- **Raw RSA: the full-modulus-length EMSA encoding of the digest matching the algorithm.** -/
theorem raw_rsa_is_emsa (hash : Hasher) (key : P11Key) (data : Bytes) (alg : Nat) (d : DataToSign)
    (hk : key.hashUsingHsm ≠ some true) (ha : alg = 8 ∨ alg = 10)
    (h : formatDataForSigning hash key data alg = .ok d) :
    ∃ pk pub digest, key.publicKey = some pk ∧ rsaDecode pk alg = .ok pub ∧
      hash (if alg = 8 then .sha256 else .sha512) data = some digest ∧
      d.mechanism = ckmRsaX509 ∧
      d.data = emsaBlock (pub.bits / 8) ((if alg = 8 then digestInfoSha256 else digestInfoSha512) ++ digest) := by
  have hk' := onHsm_false key hk
  unfold formatDataForSigning at h
  simp only [hk'] at h
  rcases ha with rfl | rfl
  all_goals
    simp only [mechanismFor, rsaDigestFor, algRSASHA1, algRSASHA256, algRSASHA512, algECDSAP256,
      algECDSAP384, ckmEcdsa, ckmEcdsaSha256, ckmEcdsaSha384, ckmSha1RsaPkcs, ckmSha256RsaPkcs,
      ckmSha512RsaPkcs, ckmRsaX509] at h ⊢
    simp at h
    split at h
    · simp [unsupported] at h
    · rename_i dg hdg
      split at h
      · simp [err] at h
      · rename_i pk hpk
        split at h
        · simp [err] at h
        · split at h
          · simp at h
          · rename_i pub hpub
            simp at h
            subst h
            exact ⟨pk, pub, dg, hpk, hpub, by simpa using hdg, rfl, by simp⟩

/-- **Symmetric key types are never used**: no operation reaches the token, for every token. -/
theorem symmetric_never_signs (hash : Hasher) (key : P11Key) (data : Bytes) (alg : Nat) (tok : Token)
    (s : TokState) (hk : key.keyType = .aes ∨ key.keyType = .des3) :
    signUsingP11 hash key data alg tok s = (.error (.error .value), s) := by
  rcases hk with h | h <;> simp [signUsingP11, h, TokM.err, TokM.fail, bind]

/-! ## The process environment is restored -/

theorem restore_fold (saved : List (String × Option String)) (f : Env) (k : String) (v : Option String)
    (hv : ∀ p ∈ saved, p.1 = k → p.2 = v) :
    envRestore f saved k = if saved.any (·.1 = k) then v else f k := by
  unfold envRestore
  induction saved generalizing f with
  | nil => simp
  | cons p r ih =>
    simp only [List.foldl_cons, List.any_cons]
    rw [ih _ (fun q hq => hv q (List.mem_cons_of_mem _ hq))]
    by_cases hr : r.any (·.1 = k) = true
    · simp [hr]
    · simp only [hr, Bool.false_eq_true, ↓reduceIte, Bool.or_false]
      by_cases hp : p.1 = k
      · have := hv p (List.mem_cons_self) hp
        cases hp2 : p.2 with
        | none => simp [hp, Env.del, ← this, hp2]
        | some w => simp [hp, Env.set, ← this, hp2]
      · have hk : ¬ k = p.1 := fun h => hp h.symm
        cases hp2 : p.2 with
        | none => simp [hp, hk, Env.del]
        | some w => simp [hp, hk, Env.set]

theorem update_untouched (h : List (String × String)) (e : Env) (k : String)
    (hk : h.any (·.1 = k) = false) : envUpdate e h k = e k := by
  unfold envUpdate
  induction h generalizing e with
  | nil => rfl
  | cons p r ih =>
    simp only [List.any_cons, Bool.or_eq_false_iff, decide_eq_false_iff_not] at hk
    simp only [List.foldl_cons]
    rw [ih _ hk.2]
    have : ¬ k = p.1 := fun h => hk.1 h.symm
    simp [Env.set, this]

/-- **The process environment is restored.** For every environment and every HSM `env` map (any
    keys, any values, added or overriding), after the save / update / restore sequence of
    `KSKM_P11Module.__init__` every variable has exactly its original value (or is absent again). -/
theorem env_restored (e : Env) (h : List (String × String)) (k : String) :
    envRestore (envUpdate e h) (envSaved e h) k = e k := by
  rw [restore_fold (envSaved e h) _ k (e k)]
  · by_cases hk : (envSaved e h).any (·.1 = k) = true
    · simp [hk]
    · have hk' : h.any (·.1 = k) = false := by
        have : (envSaved e h).any (·.1 = k) = h.any (·.1 = k) := by
          simp only [envSaved, List.any_map]; rfl
        rw [← this]; exact Bool.eq_false_iff.mpr hk
      simp only [hk, Bool.false_eq_true, ↓reduceIte]
      exact update_untouched h e k hk'
  · intro p hp hpk
    simp only [envSaved, List.mem_map] at hp
    obtain ⟨q, _, rfl⟩ := hp
    simp at hpk ⊢
    rw [hpk]

/-- while the module is loaded every variable of the map has its configured value (last one wins) -/
theorem env_during (e : Env) (h : List (String × String)) (k v : String)
    (hlast : ∃ pre post, h = pre ++ [(k, v)] ++ post ∧ post.any (·.1 = k) = false) :
    envUpdate e h k = some v := by
  obtain ⟨pre, post, rfl, hpost⟩ := hlast
  unfold envUpdate
  rw [List.foldl_append, List.foldl_append]
  have := update_untouched post ((pre.foldl (fun acc p => acc.set p.1 p.2) e).set k v) k hpost
  unfold envUpdate at this
  simp only [List.foldl_cons, List.foldl_nil]
  rw [this]
  simp [Env.set]

/-! ## Non-vacuity -/

example : (emsaBlock 128 (digestInfoSha256 ++ List.replicate 32 0xab)).length = 128 := by decide
example : mechanismFor true 8 = some 64 := by decide

end Kskm.C15
