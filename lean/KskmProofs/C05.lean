/-
  C05 — KSR timing rules accept exactly the documented region, bounds inclusive.

  `TimingRegion` is written from the property text; the theorems say that each rule of the model
  (which mirrors /repo's loops and comparison operators) accepts exactly its clause, for every
  timeline of every length, every policy and every clock value — and that the composite verdict is
  the plain conjunction of the clauses of the *enabled* rules, i.e. a switched-off rule never
  rejects and never masks another.
-/
import Kskm.KsrPolicy
import KskmGen.Tables
import KskmProofs.Lemmas.Res
namespace Kskm.C05

/-! ## The documented region, clause by clause -/

/-- every bundle's validity lies within the declared [min, max] -/
def ValidityClause (req : Request) : Prop :=
  ∀ b ∈ req.bundles,
    req.zskPolicy.minSignatureValidity ≤ b.expiration - b.inception ∧
    b.expiration - b.inception ≤ req.zskPolicy.maxSignatureValidity

/-- consecutive bundles never leave a gap and overlap by an amount within the declared [min, max] -/
def OverlapClause (req : Request) : Prop :=
  ∀ i p t, req.bundles[i]? = some p → req.bundles[i + 1]? = some t →
    t.inception ≤ p.expiration ∧
    req.zskPolicy.minValidityOverlap ≤ p.expiration - t.inception ∧
    p.expiration - t.inception ≤ req.zskPolicy.maxValidityOverlap

/-- consecutive inceptions are spaced within the operator's [min, max] interval -/
def IntervalClause (req : Request) (pol : RequestPolicy) : Prop :=
  ∀ i p t, req.bundles[i]? = some p → req.bundles[i + 1]? = some t →
    pol.minBundleInterval ≤ t.inception - p.inception ∧
    t.inception - p.inception ≤ pol.maxBundleInterval

/-- first-to-last inception spans within the operator's [min, max] cycle length -/
def CycleClause (req : Request) (pol : RequestPolicy) : Prop :=
  ∀ f l, req.bundles.head? = some f → req.bundles.getLast? = some l →
    pol.minCycleInceptionLength ≤ l.inception - f.inception ∧
    l.inception - f.inception ≤ pol.maxCycleInceptionLength

/-- the number of bundles equals the configured count -/
def CountClause (req : Request) (pol : RequestPolicy) : Prop :=
  (req.bundles.length : Int) = pol.numBundles

/-- no bundle has already expired, none expires more than `H` whole days ahead:
    `now ≤ exp` and `exp − now < (H + 1) days` -/
def HorizonClause (now : Int) (req : Request) (pol : RequestPolicy) : Prop :=
  ∀ b ∈ req.bundles,
    now ≤ b.expiration ∧ b.expiration - now < (pol.signatureHorizonDays + 1) * usPerDay

/-- The documented timing region under a given assignment of the enable flags. -/
def TimingRegion (now : Int) (req : Request) (pol : RequestPolicy) : Prop :=
  CountClause req pol ∧
  (pol.checkCycleLength = true → CycleClause req pol) ∧
  (pol.checkBundleOverlap = true → OverlapClause req) ∧
  (pol.signatureValidityMatchZskPolicy = true → ValidityClause req) ∧
  (pol.signatureCheckExpireHorizon = true → HorizonClause now req pol) ∧
  (pol.checkBundleIntervals = true → IntervalClause req pol)

/-! ## Each rule accepts exactly its clause -/

theorem validity_iff (req : Request) (pol : RequestPolicy) :
    checkSignatureValidity req pol = .ok () ↔
      (pol.signatureValidityMatchZskPolicy = true → ValidityClause req) := by
  unfold checkSignatureValidity ValidityClause
  cases hf : pol.signatureValidityMatchZskPolicy
  · simp
  · simp only [Bool.not_true, Bool.false_eq_true, ↓reduceIte, forEach_ok_iff, forall_const]
    apply forall_congr'; intro b; apply imp_congr_right; intro _
    unfold checkValidityOne
    simp only
    split
    · simp; omega
    · split
      · simp; omega
      · simp; omega

theorem overlap_iff (req : Request) (pol : RequestPolicy) :
    checkBundleOverlaps req pol = .ok () ↔ (pol.checkBundleOverlap = true → OverlapClause req) := by
  unfold checkBundleOverlaps OverlapClause
  cases hf : pol.checkBundleOverlap
  · simp
  · simp only [Bool.not_true, Bool.false_eq_true, ↓reduceIte, forEach_ok_iff, forall_const]
    constructor
    · intro h i p t h1 h2
      have := h (p, t) ((mem_adjacent _ p t).mpr ⟨i, h1, h2⟩)
      unfold checkOverlapPair at this
      simp only at this
      split at this
      · simp at this
      · split at this
        · simp at this
        · split at this
          · simp at this
          · omega
    · rintro h ⟨p, t⟩ hm
      obtain ⟨i, h1, h2⟩ := (mem_adjacent _ p t).mp hm
      have := h i p t h1 h2
      unfold checkOverlapPair
      simp only
      rw [if_neg (by omega), if_neg (by omega), if_neg (by omega)]
      rfl

theorem interval_iff (req : Request) (pol : RequestPolicy) :
    checkBundleIntervals req pol = .ok () ↔ (pol.checkBundleIntervals = true → IntervalClause req pol) := by
  unfold checkBundleIntervals IntervalClause
  cases hf : pol.checkBundleIntervals
  · simp
  · simp only [Bool.not_true, Bool.false_eq_true, ↓reduceIte, forEach_ok_iff, forall_const]
    constructor
    · intro h i p t h1 h2
      have := h (p, t) ((mem_adjacent _ p t).mpr ⟨i, h1, h2⟩)
      unfold checkIntervalPair at this
      simp only at this
      split at this
      · simp at this
      · split at this
        · simp at this
        · omega
    · rintro h ⟨p, t⟩ hm
      obtain ⟨i, h1, h2⟩ := (mem_adjacent _ p t).mp hm
      have := h i p t h1 h2
      unfold checkIntervalPair
      simp only
      rw [if_neg (by omega), if_neg (by omega)]
      rfl

theorem cycle_iff (req : Request) (pol : RequestPolicy) :
    checkCycleDurations req pol = .ok () ↔ (pol.checkCycleLength = true → CycleClause req pol) := by
  unfold checkCycleDurations CycleClause
  cases hf : pol.checkCycleLength
  · simp
  · simp only [Bool.not_true, Bool.false_eq_true, ↓reduceIte, forall_const]
    cases hh : req.bundles.head? with
    | none => simp
    | some f =>
      cases hl : req.bundles.getLast? with
      | none => simp
      | some l =>
        simp only [Option.some.injEq]
        constructor
        · intro h f' l' hf' hl'
          subst hf' hl'
          split at h
          · simp at h
          · split at h
            · simp at h
            · omega
        · intro h
          have := h f l rfl rfl
          rw [if_neg (by omega), if_neg (by omega)]
          rfl

theorem count_iff (req : Request) (pol : RequestPolicy) :
    checkBundleCount req pol = .ok () ↔ CountClause req pol := by
  unfold checkBundleCount CountClause
  by_cases h : (req.bundles.length : Int) = pol.numBundles <;> simp [h]

/-- floor-division fact behind the horizon rule: whole days ahead ≤ H ⇔ less than H+1 days ahead -/
theorem tdDays_le_iff (d H : Int) : tdDays d ≤ H ↔ d < (H + 1) * usPerDay := by
  unfold tdDays usPerDay
  constructor
  · intro h
    have := Int.lt_ediv_add_one_mul_self d (show (0 : Int) < 86400000000 by decide)
    have h2 : (d / 86400000000 + 1) * 86400000000 ≤ (H + 1) * 86400000000 :=
      Int.mul_le_mul_of_nonneg_right (by omega) (by decide)
    omega
  · intro h
    have h1 := Int.ediv_mul_le d (show (86400000000 : Int) ≠ 0 by decide)
    apply Decidable.byContradiction
    intro hc
    have hc : H + 1 ≤ d / 86400000000 := by omega
    have h2 : (H + 1) * 86400000000 ≤ d / 86400000000 * 86400000000 :=
      Int.mul_le_mul_of_nonneg_right hc (by decide)
    omega

theorem tdDays_nonneg_iff (d : Int) : 0 ≤ tdDays d ↔ 0 ≤ d := by
  unfold tdDays usPerDay
  constructor
  · intro h
    have h1 := Int.ediv_mul_le d (show (86400000000 : Int) ≠ 0 by decide)
    have h2 : 0 ≤ d / 86400000000 * 86400000000 := Int.mul_nonneg h (by decide)
    omega
  · intro h; exact Int.ediv_nonneg h (by decide)

/-- The horizon rule, for every positive horizon `H` (the only values a loaded configuration can
    have): accepted ⇔ not yet expired and expiring less than `H + 1` days ahead. -/
theorem horizon_iff (now : Int) (req : Request) (pol : RequestPolicy) (hH : 1 ≤ pol.signatureHorizonDays) :
    checkSignatureHorizon now req pol = .ok () ↔
      (pol.signatureCheckExpireHorizon = true → HorizonClause now req pol) := by
  unfold checkSignatureHorizon HorizonClause
  cases hf : pol.signatureCheckExpireHorizon
  · simp
  · simp only [Bool.not_true, Bool.false_eq_true, ↓reduceIte, forEach_ok_iff, forall_const]
    apply forall_congr'; intro b; apply imp_congr_right; intro _
    unfold checkHorizonOne
    simp only
    have hne : (pol.signatureHorizonDays != 0) = true := by simp; omega
    have hpos : decide (pol.signatureHorizonDays > 0) = true := by simp; omega
    have e1 := tdDays_le_iff (b.expiration - now) pol.signatureHorizonDays
    have e2 := tdDays_nonneg_iff (b.expiration - now)
    simp only [hne, hpos, Bool.true_and]
    by_cases c1 : tdDays (b.expiration - now) > pol.signatureHorizonDays
    · simp [c1]; omega
    · by_cases c2 : tdDays (b.expiration - now) < 0
      · simp [c1, c2]; omega
      · simp [c1, c2]; omega

/-! ## The composite: plain conjunction, flag by flag -/

/-- the timing rules in the order `validate_request` runs them (other rules run in between) -/
def timingChecks (now : Int) (req : Request) (pol : RequestPolicy) : Res Unit := do
  checkBundleCount req pol
  checkCycleDurations req pol
  checkBundleOverlaps req pol
  checkSignatureValidity req pol
  checkSignatureHorizon now req pol
  checkBundleIntervals req pol

/-- **C05.** For every timeline, policy (H ≥ 1) and clock value: the timing rules accept iff the
    timeline lies in the documented region. -/
theorem C05_iff (now : Int) (req : Request) (pol : RequestPolicy) (hH : 1 ≤ pol.signatureHorizonDays) :
    timingChecks now req pol = .ok () ↔ TimingRegion now req pol := by
  unfold timingChecks TimingRegion
  simp only [seq_ok_iff, count_iff, cycle_iff, overlap_iff, validity_iff, horizon_iff now req pol hH,
    interval_iff]

/-- **A switched-off check never rejects.** -/
theorem C05_flags_off (now : Int) (req : Request) (pol : RequestPolicy) :
    (pol.checkCycleLength = false → checkCycleDurations req pol = .ok ()) ∧
    (pol.checkBundleOverlap = false → checkBundleOverlaps req pol = .ok ()) ∧
    (pol.signatureValidityMatchZskPolicy = false → checkSignatureValidity req pol = .ok ()) ∧
    (pol.signatureCheckExpireHorizon = false → checkSignatureHorizon now req pol = .ok ()) ∧
    (pol.checkBundleIntervals = false → checkBundleIntervals req pol = .ok ()) := by
  refine ⟨?_, ?_, ?_, ?_, ?_⟩ <;> intro h
  · simp [checkCycleDurations, h]
  · simp [checkBundleOverlaps, h]
  · simp [checkSignatureValidity, h]
  · simp [checkSignatureHorizon, h]
  · simp [checkBundleIntervals, h]

/-- **Never masks another.** The whole of `validate_request` accepts iff *every* rule accepts on its
    own; so a rule's verdict (in particular a disabled rule's `ok`) cannot hide another's rejection. -/
theorem validateRequest_ok_iff (verify : Verifier) (now : Int) (req : Request) (pol : RequestPolicy) :
    validateRequest verify now req pol = .ok () ↔
      checkDomain req pol = .ok () ∧ checkUniqueIds req = .ok () ∧
      checkKeysMatchZskPolicy req pol = .ok () ∧ checkProofOfPossession verify req pol = .ok () ∧
      checkBundleCount req pol = .ok () ∧ checkCycleDurations req pol = .ok () ∧
      checkKeysInBundles req pol = .ok () ∧ checkZskPolicyAlgorithm req pol = .ok () ∧
      checkBundleOverlaps req pol = .ok () ∧ checkSignatureValidity req pol = .ok () ∧
      checkSignatureHorizon now req pol = .ok () ∧ checkBundleIntervals req pol = .ok () := by
  unfold validateRequest verifyBundles verifyPolicy
  simp only [seq_ok_iff, and_assoc]

/-- **C05 inside the full validation.** An accepted request lies in the timing region, and a request
    that passes every non-timing rule is accepted iff it lies in the timing region. -/
theorem C05_in_validateRequest (verify : Verifier) (now : Int) (req : Request) (pol : RequestPolicy)
    (hH : 1 ≤ pol.signatureHorizonDays)
    (hother : checkDomain req pol = .ok () ∧ checkUniqueIds req = .ok () ∧
      checkKeysMatchZskPolicy req pol = .ok () ∧ checkProofOfPossession verify req pol = .ok () ∧
      checkKeysInBundles req pol = .ok () ∧ checkZskPolicyAlgorithm req pol = .ok ()) :
    validateRequest verify now req pol = .ok () ↔ TimingRegion now req pol := by
  rw [validateRequest_ok_iff, ← C05_iff now req pol hH]
  unfold timingChecks
  simp only [seq_ok_iff]
  obtain ⟨h1, h2, h3, h4, h5, h6⟩ := hother
  simp only [h1, h2, h3, h4, h5, h6, true_and]

/-- the defaults regenerated from /repo carry the documented timing parameters (all checks on,
    9 bundles, 79–81-day cycle, 9–11-day interval, 180-day horizon) -/
theorem defaults_documented :
    KskmGen.requestPolicyDefaults.numBundles = 9 ∧
    KskmGen.requestPolicyDefaults.minCycleInceptionLength = 79 * usPerDay ∧
    KskmGen.requestPolicyDefaults.maxCycleInceptionLength = 81 * usPerDay ∧
    KskmGen.requestPolicyDefaults.minBundleInterval = 9 * usPerDay ∧
    KskmGen.requestPolicyDefaults.maxBundleInterval = 11 * usPerDay ∧
    KskmGen.requestPolicyDefaults.signatureHorizonDays = 180 ∧
    KskmGen.requestPolicyDefaults.checkCycleLength = true ∧
    KskmGen.requestPolicyDefaults.checkBundleOverlap = true ∧
    KskmGen.requestPolicyDefaults.signatureValidityMatchZskPolicy = true ∧
    KskmGen.requestPolicyDefaults.signatureCheckExpireHorizon = true ∧
    KskmGen.requestPolicyDefaults.checkBundleIntervals = true := by decide

/-! ## Non-vacuity: a nine-bundle timeline shaped like the archived 2017-Q2 KSR lies in the region -/

def day : Int := usPerDay
def exBundle (i : Nat) : Bundle :=
  { id := s!"b{i}", inception := (i : Int) * 10 * day, expiration := (i : Int) * 10 * day + 21 * day,
    keys := [], signatures := [] }
def exReq : Request :=
  { id := "r", serial := 1, domain := ".",
    zskPolicy := { maxSignatureValidity := 21 * day, minSignatureValidity := 21 * day,
                   maxValidityOverlap := 12 * day, minValidityOverlap := 9 * day },
    bundles := (List.range 9).map exBundle }

example : timingChecks (5 * day) exReq KskmGen.requestPolicyDefaults = .ok () := by decide +kernel
example : (1 : Int) ≤ KskmGen.requestPolicyDefaults.signatureHorizonDays := by decide

end Kskm.C05
