/-
  C02 — the SKR contains exactly what the KSR and the signing schema dictate.

  Every theorem is for EVERY token oracle `tok`, every starting state `s`, every hash function and
  software verifier (`ext`): the token may answer anything, at any operation.

  Layout
    §1  key-set algebra of `KeysToSign` (`ktsAdd` / `ktsUpdate` and their folds)
    §2  `SlotKeys`: the key set of one slot, specified from the property text; `signBundle_keys_spec`
    §3  signatures: exactly one per KSK listed under `sign`
    §4  algorithm-set agreement, refusal on mismatch
    §5  header echo, slot numbering, KSK policy (`createSkr_header`)
    §6  the form of a revoked key
    §7  non-vacuity examples
    §8  order independence: the key set and the signature set do not depend on the order in which
        Python visits the request's key set and the schema lists (nor on repeated names)
-/
import Kskm.Signer
import KskmProofs.Lemmas.TokM
import KskmProofs.Lemmas.SignerKeys
import KskmProofs.Lemmas.SignerInv
import KskmProofs.Lemmas.SignerPerm
import KskmProofs.C14
namespace Kskm.C02

/-! ## §1 Key-set algebra -/

/-- every key entering the signed set carries the configured TTL afterwards, if all did before -/
theorem ktsAdd_ttl (ttl : Int) (keys : List Key) (k : Key) (h : ∀ x ∈ keys, x.ttl = ttl) :
    ∀ x ∈ ktsAdd ttl keys k, x.ttl = ttl :=
  Kskm.ktsAdd_ttl ttl keys k h

/-- **`add`.** The set after `add k` is the old set, plus — only when no record had `k`'s public key
    text — `k` with the TTL replaced (`{k with ttl := ttl} = k` when the TTL was already right). -/
theorem mem_ktsAdd (ttl : Int) (keys : List Key) (k x : Key) :
    x ∈ ktsAdd ttl keys k ↔
      x ∈ keys ∨ ((∀ y ∈ keys, y.publicKey ≠ k.publicKey) ∧ x = { k with ttl := ttl }) :=
  Kskm.mem_ktsAdd ttl keys k x

/-- `add` never creates two records with one public key text -/
theorem ktsAdd_unique (ttl : Int) (keys : List Key) (k : Key)
    (h : keys.Pairwise (fun a b => a.publicKey ≠ b.publicKey)) :
    (ktsAdd ttl keys k).Pairwise (fun a b => a.publicKey ≠ b.publicKey) :=
  Kskm.ktsAdd_unique ttl keys k h

/-- **`update`.** On a set without repeated public keys, `update k` REPLACES: every record with
    another public key stays, the record with `k`'s public key (if any) goes, `k` (TTL set) enters. -/
theorem mem_ktsUpdate (ttl : Int) (keys : List Key) (k x : Key)
    (hu : keys.Pairwise (fun a b => a.publicKey ≠ b.publicKey)) :
    x ∈ ktsUpdate ttl keys k ↔
      (x ∈ keys ∧ x.publicKey ≠ k.publicKey) ∨ x = { k with ttl := ttl } :=
  Kskm.mem_ktsUpdate ttl keys k x hu

theorem ktsUpdate_unique (ttl : Int) (keys : List Key) (k : Key)
    (h : keys.Pairwise (fun a b => a.publicKey ≠ b.publicKey)) :
    (ktsUpdate ttl keys k).Pairwise (fun a b => a.publicKey ≠ b.publicKey) :=
  Kskm.ktsUpdate_unique ttl keys k h

theorem ktsUpdate_ttl (ttl : Int) (keys : List Key) (k : Key) (h : ∀ x ∈ keys, x.ttl = ttl) :
    ∀ x ∈ ktsUpdate ttl keys k, x.ttl = ttl :=
  Kskm.ktsUpdate_ttl ttl keys k h

/-- first record of `l` with public key text `p` -/
def firstWithPk (l : List Key) (p : String) : Option Key := l.find? (fun k => k.publicKey = p)
/-- last record of `l` with public key text `p` -/
def lastWithPk (l : List Key) (p : String) : Option Key := l.reverse.find? (fun k => k.publicKey = p)

/-- **fold of `add`** over any list, any starting set: for each public key text, what was there
    wins, otherwise the FIRST record of the list with that text enters (TTL set). -/
theorem foldl_ktsAdd_pick (ttl : Int) (l acc : List Key) (p : String) :
    firstWithPk (l.foldl (fun acc k => ktsAdd ttl acc k) acc) p
      = (firstWithPk acc p).or ((firstWithPk l p).map fun k => { k with ttl := ttl }) :=
  lookupPk_foldl_ktsAdd ttl l acc p

/-- **fold of `update`** over any list: the LAST record of the list with that text wins (TTL set),
    otherwise what was there stays. -/
theorem foldl_ktsUpdate_pick (ttl : Int) (l acc : List Key) (p : String)
    (hu : acc.Pairwise (fun a b => a.publicKey ≠ b.publicKey)) :
    firstWithPk (l.foldl (fun acc k => ktsUpdate ttl acc k) acc) p
      = ((lastWithPk l p).map fun k => { k with ttl := ttl }).or (firstWithPk acc p) :=
  lookupPk_foldl_ktsUpdate ttl l acc p hu

/-! ## §2 The key set of one slot

`P` are the DNSKEY records of the KSKs fetched for `publish`, `R` those fetched for `revoke` in their
revoked form, `S` those fetched for `sign`, `Z` the keys of the request bundle.

Property text: the key set is `{z with ttl | z ∈ Z} ∪ {k ∈ P ∪ S | no r ∈ R has k's public key} ∪ R`,
everything with the configured TTL, deduplicated by public key text.  Deduplication needs a
precedence, and the precedence is part of the specification: for each public key text `p`

    the last record of `R` with text `p`,  else the first of `P`,  else the first of `S`,
    else the first of `Z`

(`slotPick`).  In particular — the caveat of DESIGN §4/C02, not idealised away — a request key whose
public key text equals that of a KSK record is DROPPED in favour of the KSK record
(`request_key_with_ksk_pk_dropped`). -/

/-- the record chosen for public key text `p` -/
def slotPick (P R S Z : List Key) (p : String) : Option Key :=
  (lastWithPk R p).or ((firstWithPk P p).or ((firstWithPk S p).or (firstWithPk Z p)))

/-- `out` is the key set the property prescribes for a slot (up to order) -/
structure SlotKeys (ttl : Int) (P R S Z out : List Key) : Prop where
  /-- membership: exactly the chosen record of every public key text, TTL set -/
  mem : ∀ x, x ∈ out ↔ ∃ p k, slotPick P R S Z p = some k ∧ x = { k with ttl := ttl }
  /-- every key carries the configured TTL -/
  ttl : ∀ x ∈ out, x.ttl = ttl
  /-- no two entries share a public key text -/
  unique : out.Pairwise (fun a b => a.publicKey ≠ b.publicKey)

theorem slotPick_pk {P R S Z : List Key} {p : String} {k : Key} (h : slotPick P R S Z p = some k) :
    k.publicKey = p := by
  simp only [slotPick, Option.or_eq_some_iff] at h
  rcases h with h | ⟨_, h | ⟨_, h | ⟨_, h⟩⟩⟩ <;> exact lookupPk_some_pk h

theorem lookupPk_slotFold (ttl : Int) (P R S Z : List Key) (p : String) :
    lookupPk (slotFold ttl P R S Z) p = (slotPick P R S Z p).map fun k => { k with ttl := ttl } := by
  have hu : UniquePk (P.foldl (fun acc k => ktsAdd ttl acc k) []) :=
    foldl_ktsAdd_unique ttl P [] List.Pairwise.nil
  unfold slotFold slotPick lastWithPk firstWithPk
  rw [lookupPk_foldl_ktsAdd, lookupPk_foldl_ktsAdd, lookupPk_foldl_ktsUpdate _ _ _ _ hu,
    lookupPk_foldl_ktsAdd]
  simp only [lookupPk_nil, Option.none_or, Option.map_or, Option.or_assoc]
  rfl

/-- the fold that `sign_bundles` runs meets the specification, for all four lists -/
theorem slotFold_spec (ttl : Int) (P R S Z : List Key) : SlotKeys ttl P R S Z (slotFold ttl P R S Z) := by
  have hu1 : UniquePk (P.foldl (fun acc k => ktsAdd ttl acc k) []) :=
    foldl_ktsAdd_unique ttl P [] List.Pairwise.nil
  have ht1 : ∀ x ∈ P.foldl (fun acc k => ktsAdd ttl acc k) [], x.ttl = ttl :=
    foldl_ktsAdd_ttl ttl P [] (by simp)
  have hu : UniquePk (slotFold ttl P R S Z) :=
    foldl_ktsAdd_unique ttl Z _ (foldl_ktsAdd_unique ttl S _ (foldl_ktsUpdate_unique ttl R _ hu1))
  have ht : ∀ x ∈ slotFold ttl P R S Z, x.ttl = ttl :=
    foldl_ktsAdd_ttl ttl Z _ (foldl_ktsAdd_ttl ttl S _ (foldl_ktsUpdate_ttl ttl R _ ht1))
  refine ⟨?_, ht, hu⟩
  intro x
  rw [mem_iff_lookupPk hu, lookupPk_slotFold]
  constructor
  · intro h
    cases hp : slotPick P R S Z x.publicKey with
    | none => simp [hp] at h
    | some k =>
      simp only [hp, Option.map_some, Option.some.injEq] at h
      exact ⟨x.publicKey, k, hp, h.symm⟩
  · rintro ⟨p, k, hp, rfl⟩
    have : k.publicKey = p := slotPick_pk hp
    simp only [this, hp, Option.map_some]

/-! ### consequences of `SlotKeys` in the vocabulary of the property text -/

/-- nothing else slipped in: every published record is a revoked record, or a publish/sign record
    whose public key is not revoked, or a request key whose public key is no KSK's — with the TTL set -/
theorem SlotKeys.sound {ttl : Int} {P R S Z out : List Key} (h : SlotKeys ttl P R S Z out) (x : Key)
    (hx : x ∈ out) :
    (∃ r ∈ R, x = { r with ttl := ttl }) ∨
    (∃ k ∈ P ++ S, x = { k with ttl := ttl } ∧ ∀ r ∈ R, r.publicKey ≠ k.publicKey) ∨
    (∃ z ∈ Z, x = { z with ttl := ttl } ∧ ∀ k ∈ P ++ R ++ S, k.publicKey ≠ z.publicKey) := by
  obtain ⟨p, k, hp, rfl⟩ := (h.mem x).mp hx
  have hkp := slotPick_pk hp
  simp only [slotPick, lastWithPk, firstWithPk, Option.or_eq_some_iff] at hp
  have hR : ∀ {l : List Key}, l.reverse.find? (fun k => decide (k.publicKey = p)) = none →
      ∀ r ∈ l, r.publicKey ≠ p := by
    intro l hl r hr
    exact (lookupPk_eq_none (l := l.reverse)).mp hl r (List.mem_reverse.mpr hr)
  rcases hp with h1 | ⟨hr, h2 | ⟨hpn, h3 | ⟨hsn, h4⟩⟩⟩
  · exact Or.inl ⟨k, List.mem_reverse.mp (lookupPk_some_mem h1), rfl⟩
  · refine Or.inr (Or.inl ⟨k, List.mem_append_left _ (lookupPk_some_mem h2), rfl, ?_⟩)
    intro r hr'; rw [hkp]; exact hR hr r hr'
  · refine Or.inr (Or.inl ⟨k, List.mem_append_right _ (lookupPk_some_mem h3), rfl, ?_⟩)
    intro r hr'; rw [hkp]; exact hR hr r hr'
  · refine Or.inr (Or.inr ⟨k, lookupPk_some_mem h4, rfl, ?_⟩)
    intro y hy
    rw [hkp]
    simp only [List.mem_append] at hy
    rcases hy with (hy | hy) | hy
    · exact lookupPk_eq_none.mp hpn y hy
    · exact hR hr y hy
    · exact lookupPk_eq_none.mp hsn y hy

/-- nothing is missing: every public key text occurring in `P`, `R`, `S` or `Z` is represented -/
theorem SlotKeys.complete {ttl : Int} {P R S Z out : List Key} (h : SlotKeys ttl P R S Z out) (k : Key)
    (hk : k ∈ P ++ R ++ S ++ Z) : ∃ x ∈ out, x.publicKey = k.publicKey := by
  have : ∃ k', slotPick P R S Z k.publicKey = some k' := by
    simp only [List.mem_append] at hk
    unfold slotPick lastWithPk firstWithPk
    rcases hk with ((hk | hk) | hk) | hk
    · obtain ⟨k', hk'⟩ := lookupPk_isSome_of_mem hk
      unfold lookupPk at hk'
      cases (List.find? (fun k_1 => decide (k_1.publicKey = k.publicKey)) R.reverse) <;> simp [hk']
    · obtain ⟨k', hk'⟩ := lookupPk_isSome_of_mem (List.mem_reverse.mpr hk)
      unfold lookupPk at hk'
      simp [hk']
    · obtain ⟨k', hk'⟩ := lookupPk_isSome_of_mem hk
      unfold lookupPk at hk'
      cases (List.find? (fun k_1 => decide (k_1.publicKey = k.publicKey)) R.reverse) <;>
        cases (List.find? (fun k_1 => decide (k_1.publicKey = k.publicKey)) P) <;> simp [hk']
    · obtain ⟨k', hk'⟩ := lookupPk_isSome_of_mem hk
      unfold lookupPk at hk'
      cases (List.find? (fun k_1 => decide (k_1.publicKey = k.publicKey)) R.reverse) <;>
        cases (List.find? (fun k_1 => decide (k_1.publicKey = k.publicKey)) P) <;>
        cases (List.find? (fun k_1 => decide (k_1.publicKey = k.publicKey)) S) <;> simp [hk']
  obtain ⟨k', hk'⟩ := this
  exact ⟨{ k' with ttl := ttl }, (h.mem _).mpr ⟨_, k', hk', rfl⟩, (slotPick_pk hk' : k'.publicKey = _)⟩

/-- a revoked record is published as such (the last one of `R` per public key text): `revoke`
    REPLACES whatever `publish` put there and is not displaced by `sign` or by a request key -/
theorem SlotKeys.revoked_in {ttl : Int} {P R S Z out : List Key} (h : SlotKeys ttl P R S Z out) (r : Key)
    (hr : r ∈ R) : ∃ x ∈ out, x.publicKey = r.publicKey ∧ ∃ r' ∈ R, x = { r' with ttl := ttl } := by
  obtain ⟨r', hr'⟩ := lookupPk_isSome_of_mem (List.mem_reverse.mpr hr)
  have hp : slotPick P R S Z r.publicKey = some r' := by
    unfold slotPick lastWithPk
    unfold lookupPk at hr'
    simp [hr']
  exact ⟨{ r' with ttl := ttl }, (h.mem _).mpr ⟨_, r', hp, rfl⟩, (slotPick_pk hp : r'.publicKey = _), r',
    List.mem_reverse.mp (lookupPk_some_mem hr'), rfl⟩

/-- **The dedupe caveat, explicitly.** A request key whose public key text equals that of a KSK
    record (publish, revoke or sign) does not appear: the entry with that public key text is the
    KSK record. -/
theorem SlotKeys.request_key_with_ksk_pk_dropped {ttl : Int} {P R S Z out : List Key}
    (h : SlotKeys ttl P R S Z out) (z k : Key) (hk : k ∈ P ++ R ++ S)
    (hpk : k.publicKey = z.publicKey) :
    ∀ x ∈ out, x.publicKey = z.publicKey → ∃ k' ∈ P ++ R ++ S, x = { k' with ttl := ttl } := by
  intro x hx hxz
  rcases h.sound x hx with ⟨r, hr, rfl⟩ | ⟨k', hk', rfl, _⟩ | ⟨z', _, rfl, hno⟩
  · exact ⟨r, by simp [hr], rfl⟩
  · refine ⟨k', ?_, rfl⟩
    simp only [List.mem_append] at hk' ⊢
    rcases hk' with h1 | h1
    · exact Or.inl (Or.inl h1)
    · exact Or.inr h1
  · exact absurd (hpk.trans hxz.symm) (hno k hk)

/-- no two records of `l` share a public key text unless they are the same record -/
def PkFunctional (l : List Key) : Prop := ∀ a ∈ l, ∀ b ∈ l, a.publicKey = b.publicKey → a = b

/-- **Exactly the set of the property text**, when a public key text names one record within the
    revoked records, within the publish/sign records and within the request keys: -/
theorem SlotKeys.exact {ttl : Int} {P R S Z out : List Key} (h : SlotKeys ttl P R S Z out)
    (hR : PkFunctional R) (hPS : PkFunctional (P ++ S)) (hZ : PkFunctional Z) (x : Key) :
    x ∈ out ↔
      (∃ r ∈ R, x = { r with ttl := ttl }) ∨
      (∃ k ∈ P ++ S, x = { k with ttl := ttl } ∧ ∀ r ∈ R, r.publicKey ≠ k.publicKey) ∨
      (∃ z ∈ Z, x = { z with ttl := ttl } ∧ ∀ k ∈ P ++ R ++ S, k.publicKey ≠ z.publicKey) := by
  constructor
  · exact h.sound x
  · have none_of : ∀ (l : List Key) (p : String), (∀ y ∈ l, y.publicKey ≠ p) →
        l.find? (fun k => decide (k.publicKey = p)) = none := by
      intro l p hl
      exact lookupPk_eq_none.mpr hl
    have some_of : ∀ (l : List Key), PkFunctional l → ∀ k ∈ l,
        l.find? (fun y => decide (y.publicKey = k.publicKey)) = some k := by
      intro l hl k hk
      obtain ⟨k', hk'⟩ := lookupPk_isSome_of_mem hk
      have := hl k' (lookupPk_some_mem hk') k hk (lookupPk_some_pk hk')
      unfold lookupPk at hk'
      rw [hk', this]
    rintro (⟨r, hr, rfl⟩ | ⟨k, hk, rfl, hno⟩ | ⟨z, hz, rfl, hno⟩)
    · obtain ⟨x, hx, hpk, r', hr', rfl⟩ := h.revoked_in r hr
      have : r' = r := hR r' hr' r hr hpk
      rw [← this]; exact hx
    · refine (h.mem _).mpr ⟨k.publicKey, k, ?_, rfl⟩
      unfold slotPick lastWithPk firstWithPk
      rw [none_of R.reverse k.publicKey (fun y hy => hno y (List.mem_reverse.mp hy)), Option.none_or,
        ← Option.or_assoc, ← List.find?_append, some_of (P ++ S) hPS k hk, Option.some_or]
    · refine (h.mem _).mpr ⟨z.publicKey, z, ?_, rfl⟩
      unfold slotPick lastWithPk firstWithPk
      rw [none_of R.reverse z.publicKey
          (fun y hy => hno y (by simp [List.mem_reverse.mp hy])),
        none_of P z.publicKey (fun y hy => hno y (by simp [hy])),
        none_of S z.publicKey (fun y hy => hno y (by simp [hy])), some_of Z hZ z hz]
      rfl

/-! ### what `_fetch_keys` returns: KSK records in the form the property states -/

/-- `k` is the DNSKEY record of the KSK configured under `name`, as built from the public key text
    `pk` the token attributes encode: flags 257, protocol 3, configured algorithm and TTL, label as
    identifier, RFC 4034 App. B tag over its own RDATA. -/
structure KskRecord (cfg : SignerConfig) (name : String) (pk : String) (k : Key) : Prop where
  configured : ∃ ksk, cfg.kskKeys.lookup name = some ksk ∧ k.keyIdentifier = ksk.label ∧
    k.algorithm = ksk.algorithm
  flags : k.flags = 257
  protocol : k.protocol = 3
  ttl : k.ttl = cfg.kskPolicy.ttl
  publicKey : k.publicKey = pk
  tag : ∃ rd, keyToRdata k = .ok rd ∧ k.keyTag = (C14.rfc4034KeyTag rd : Nat)

theorem kskRecord_of_fetched {cfg : SignerConfig} {name : String} {ck : CompositeKey}
    (h : FetchedAs cfg name ck) :
    ∃ pk, ck.p11.publicKey = some pk ∧ KskRecord cfg name pk ck.dns := by
  obtain ⟨ksk, pk, hl, hpk, hk⟩ := h
  obtain ⟨h1, h2, h3, h4, h5, h6, rd, h7, h8⟩ := publicKeyToDnssecKey_ok hk
  exact ⟨pk, hpk, ⟨ksk, hl, h1, h5⟩, h3, h4, h2, h6, rd, h7, by rw [h8, C14.keyTag_eq_rfc4034]⟩

/-- the fetched keys of one schema list: one per name, each a `KskRecord` of a listed name with the
    public key text the token answered -/
def FetchedFor (cfg : SignerConfig) (names : List String) (cks : List CompositeKey) : Prop :=
  cks.length = names.length ∧
  (∀ ck ∈ cks, ∃ name ∈ names, ∃ pk, ck.p11.publicKey = some pk ∧ KskRecord cfg name pk ck.dns) ∧
  (∀ name ∈ names, ∃ ck ∈ cks, ∃ pk, ck.p11.publicKey = some pk ∧ KskRecord cfg name pk ck.dns)

theorem fetchedFor_of_ok {ext : Externals} {mods : List P11Module} {cfg : SignerConfig} {bundle : Bundle}
    {isPublic : Bool} {names : List String} {t : Token} {s s' : TokState} {cks : List CompositeKey}
    (h : fetchKeys ext mods cfg bundle isPublic names t s = (.ok cks, s')) :
    FetchedFor cfg names cks := by
  obtain ⟨h1, h2, h3⟩ := fetchKeys_ok h
  refine ⟨h3, ?_, ?_⟩
  · intro ck hck
    obtain ⟨n, hn, hf⟩ := h1 ck hck
    exact ⟨n, hn, kskRecord_of_fetched hf⟩
  · intro n hn
    obtain ⟨ck, hck, hf⟩ := h2 n hn
    exact ⟨ck, hck, kskRecord_of_fetched hf⟩

/-- **C02, key set of a slot.** Whenever `signBundle` succeeds — any token, any state — there are
    the schema action of the slot and the keys the three fetches returned such that the response key
    set is `SlotKeys` of them and of the request keys (membership by precedence, all with the
    configured TTL, no public key text twice), and id / inception / expiration are the request's.
    Caveat carried by `SlotKeys.mem` (see `SlotKeys.request_key_with_ksk_pk_dropped`): a request key
    whose public key text equals that of a fetched KSK record is NOT in the set — the KSK record is. -/
theorem signBundle_keys_spec (ext : Externals) (mods : List P11Module) (cfg : SignerConfig) (slot : Nat)
    (bundle rb : Bundle) (tok : Token) (s s' : TokState)
    (h : signBundle ext mods cfg slot bundle tok s = (.ok rb, s')) :
    ∃ act pub rev signing revoked,
      cfg.actions.lookup slot = some act ∧
      FetchedFor cfg act.publish pub ∧ FetchedFor cfg act.revoke rev ∧ FetchedFor cfg act.sign signing ∧
      rev.mapM (fun ck => ck.dns.asRevoked) = .ok revoked ∧
      SlotKeys cfg.kskPolicy.ttl (pub.map (·.dns)) revoked (signing.map (·.dns)) bundle.keys rb.keys ∧
      (∀ x ∈ rb.keys, x.ttl = cfg.kskPolicy.ttl) ∧
      rb.keys.Pairwise (fun a b => a.publicKey ≠ b.publicKey) ∧
      rb.id = bundle.id ∧ rb.inception = bundle.inception ∧ rb.expiration = bundle.expiration := by
  obtain ⟨act, pub, rev, revoked, signing, s1, s2, s3, hact, hpub, hrev, hrevoked, hsign, hkeys, _, hfin⟩ :=
    signBundle_ok h
  obtain ⟨_, hrb, _⟩ := finishBundle_ok hfin
  have hspec := slotFold_spec cfg.kskPolicy.ttl (pub.map (·.dns)) revoked (signing.map (·.dns)) bundle.keys
  rw [← hkeys] at hspec
  refine ⟨act, pub, rev, signing, revoked, hact, fetchedFor_of_ok hpub, fetchedFor_of_ok hrev,
    fetchedFor_of_ok hsign, hrevoked, hspec, hspec.ttl, hspec.unique, ?_, ?_, ?_⟩ <;> rw [hrb]

/-! ## §3 Signatures: exactly one per KSK listed under `sign` -/

/-- **C02, signatures of a slot.** The identifiers of the response signatures are exactly the key
    identifiers (= configured labels) of the keys fetched for `sign`, as a set, and pairwise
    distinct: one signature per KSK even when a name is repeated under `sign`. -/
theorem signBundle_signatures_spec (ext : Externals) (mods : List P11Module) (cfg : SignerConfig)
    (slot : Nat) (bundle rb : Bundle) (tok : Token) (s s' : TokState)
    (h : signBundle ext mods cfg slot bundle tok s = (.ok rb, s')) :
    ∃ act signing, cfg.actions.lookup slot = some act ∧ FetchedFor cfg act.sign signing ∧
      (∀ id, (∃ σ ∈ rb.signatures, σ.keyIdentifier = id) ↔ (∃ ck ∈ signing, ck.dns.keyIdentifier = id)) ∧
      (∀ id, (∃ σ ∈ rb.signatures, σ.keyIdentifier = id) ↔
        (∃ name ∈ act.sign, ∃ ksk, cfg.kskKeys.lookup name = some ksk ∧ ksk.label = id)) ∧
      rb.signatures.Pairwise (fun a b => a.keyIdentifier ≠ b.keyIdentifier) := by
  obtain ⟨act, pub, rev, revoked, signing, s1, s2, s3, hact, _, _, _, hsign, _, hsigs, _⟩ := signBundle_ok h
  obtain ⟨new, e, h1, h2, h3, _⟩ := signAll_ok hsigs
  simp only [List.nil_append] at e
  subst e
  have hff := fetchedFor_of_ok hsign
  have hset : ∀ id, (∃ σ ∈ rb.signatures, σ.keyIdentifier = id) ↔ (∃ ck ∈ signing, ck.dns.keyIdentifier = id) := by
    intro id
    constructor
    · rintro ⟨σ, hσ, rfl⟩
      obtain ⟨sk, hsk, sa, sb, hrun⟩ := h1 σ hσ
      exact ⟨sk, hsk, (signKeys_ok_id hrun).1.symm⟩
    · rintro ⟨ck, hck, rfl⟩
      exact h2 ck hck
  refine ⟨act, signing, hact, hff, hset, ?_, h3 List.Pairwise.nil⟩
  intro id
  rw [hset id]
  constructor
  · rintro ⟨ck, hck, rfl⟩
    obtain ⟨name, hn, pk, _, hrec⟩ := hff.2.1 ck hck
    obtain ⟨ksk, hl, hid, _⟩ := hrec.configured
    exact ⟨name, hn, ksk, hl, hid.symm⟩
  · rintro ⟨name, hn, ksk, hl, rfl⟩
    obtain ⟨ck, hck, pk, _, hrec⟩ := hff.2.2 name hn
    obtain ⟨ksk', hl', hid, _⟩ := hrec.configured
    rw [hl] at hl'
    cases hl'
    exact ⟨ck, hck, hid⟩

/-! ## §4 Algorithm sets -/

/-- **Refusal.** Once the fetches and the signing loop have answered (whatever the token answered),
    if the set of algorithm numbers of the request keys differs from that of the signatures made,
    the outcome is `CreateSignatureError` — no bundle is returned. -/
theorem alg_mismatch_refused (ext : Externals) (mods : List P11Module) (cfg : SignerConfig) (slot : Nat)
    (bundle : Bundle) (tok : Token) (s s1 s2 s3 s4 : TokState) (act : SchemaAction)
    (pub rev signing : List CompositeKey) (revoked : List Key) (sigs : List Signature)
    (hact : cfg.actions.lookup slot = some act)
    (hpub : fetchKeys ext mods cfg bundle true act.publish tok s = (.ok pub, s1))
    (hrev : fetchKeys ext mods cfg bundle true act.revoke tok s1 = (.ok rev, s2))
    (hrevoked : rev.mapM (fun ck => ck.dns.asRevoked) = .ok revoked)
    (hsign : fetchKeys ext mods cfg bundle false act.sign tok s2 = (.ok signing, s3))
    (hsigs : signAll ext bundle
      (slotFold cfg.kskPolicy.ttl (pub.map (·.dns)) revoked (signing.map (·.dns)) bundle.keys)
      cfg.kskPolicy signing [] tok s3 = (.ok sigs, s4))
    (hne : ¬ ∀ a, a ∈ bundle.keys.map (·.algorithm) ↔ a ∈ sigs.map (·.algorithm)) :
    signBundle ext mods cfg slot bundle tok s = (.error (.error .createSignature), s4) := by
  rw [signBundle_run hact hpub hrev hrevoked hsign hsigs]
  have : sameSet (bundle.keys.map (·.algorithm)) (sigs.map (·.algorithm)) = false := by
    rw [Bool.eq_false_iff]
    intro hs
    exact hne ((sameSet_iff _ _).mp hs)
  simp [finishBundle, this, err]

/-- **Agreement.** A returned bundle has the same set of algorithm numbers among the request keys and
    among its signatures. -/
theorem signBundle_ok_algs (ext : Externals) (mods : List P11Module) (cfg : SignerConfig) (slot : Nat)
    (bundle rb : Bundle) (tok : Token) (s s' : TokState)
    (h : signBundle ext mods cfg slot bundle tok s = (.ok rb, s')) :
    ∀ a, a ∈ bundle.keys.map (·.algorithm) ↔ a ∈ rb.signatures.map (·.algorithm) := by
  obtain ⟨act, pub, rev, revoked, signing, s1, s2, s3, _, _, _, _, _, _, _, hfin⟩ := signBundle_ok h
  exact (sameSet_iff _ _).mp (finishBundle_ok hfin).1

/-! ## §5 Header, slot numbering, KSK policy -/

/-- **C02, response assembly.** For every request (any number of bundles): the header echoes the
    request, no timestamp, as many bundles as requested, bundle `i` is the result of `signBundle` for
    slot `i + 1` on request bundle `i` (so §2–§4 apply to it), the six KSK policy durations are the
    configured ones, and the stated algorithm set is exactly the set of algorithm policies of all
    published keys (each listed once). -/
theorem createSkr_header (ext : Externals) (mods : List P11Module) (cfg : SignerConfig) (req : Request)
    (resp : Response) (tok : Token) (s s' : TokState)
    (h : createSkr ext mods cfg req tok s = (.ok resp, s')) :
    resp.id = req.id ∧ resp.serial = req.serial ∧ resp.domain = req.domain ∧
    resp.zskPolicy = req.zskPolicy ∧ resp.timestamp = none ∧
    resp.bundles.length = req.bundles.length ∧
    (∀ i b, req.bundles[i]? = some b → ∃ rb s1 s2, resp.bundles[i]? = some rb ∧
      signBundle ext mods cfg (i + 1) b tok s1 = (.ok rb, s2)) ∧
    resp.kskPolicy.publishSafety = cfg.kskPolicy.signaturePolicy.publishSafety ∧
    resp.kskPolicy.retireSafety = cfg.kskPolicy.signaturePolicy.retireSafety ∧
    resp.kskPolicy.maxSignatureValidity = cfg.kskPolicy.signaturePolicy.maxSignatureValidity ∧
    resp.kskPolicy.minSignatureValidity = cfg.kskPolicy.signaturePolicy.minSignatureValidity ∧
    resp.kskPolicy.maxValidityOverlap = cfg.kskPolicy.signaturePolicy.maxValidityOverlap ∧
    resp.kskPolicy.minValidityOverlap = cfg.kskPolicy.signaturePolicy.minValidityOverlap ∧
    (∀ a, a ∈ resp.kskPolicy.algorithms ↔
      ∃ b ∈ resp.bundles, ∃ k ∈ b.keys, algorithmPolicyOfKey k = .ok a) ∧
    resp.kskPolicy.algorithms.Nodup := by
  unfold createSkr at h
  obtain ⟨bundles, s1, hb, h⟩ := TokM.bind_ok _ _ _ _ _ _ h
  obtain ⟨kp, hkp, h⟩ := (TokM.lift_bind_ok_iff _ _ _ _ _ _).mp h
  simp only [TokM.pure_run, Prod.mk.injEq, Except.ok.injEq] at h
  obtain ⟨rfl, rfl⟩ := h
  unfold signBundles at hb
  obtain ⟨hlen, hpos⟩ := signBundlesFrom_ok hb
  obtain ⟨k1, k2, k3, k4, k5, k6, k7, k8, _⟩ := kskSignaturePolicy_ok hkp
  refine ⟨rfl, rfl, rfl, rfl, rfl, hlen, ?_, k1, k2, k3, k4, k5, k6, k7, k8⟩
  intro i b hib
  obtain ⟨rb, sa, sb, h1, h2⟩ := hpos i b hib
  exact ⟨rb, sa, sb, h1, by rw [Nat.add_comm]; exact h2⟩

/-! ## §6 The form of a revoked key -/

/-- **Revoked form.** A KSK record listed under `revoke` enters the set with flags
    `setRevokeBit 257 = 385`, the RFC 4034 App. B tag recomputed over its own (new) RDATA, and label,
    TTL, protocol, algorithm and public key text unchanged. -/
theorem revoked_key_form (cfg : SignerConfig) (name pk : String) (k r : Key)
    (hk : KskRecord cfg name pk k) (hr : k.asRevoked = .ok r) :
    r.flags = 385 ∧ setRevokeBit 257 = 385 ∧
    r.keyIdentifier = k.keyIdentifier ∧ r.ttl = cfg.kskPolicy.ttl ∧ r.protocol = 3 ∧
    r.algorithm = k.algorithm ∧ r.publicKey = pk ∧
    ∃ rd, keyToRdata r = .ok rd ∧ r.keyTag = (C14.rfc4034KeyTag rd : Nat) := by
  obtain ⟨rd, h1, _, h3, h4, h5, h6, h7, h8, h9⟩ := C14.revoke_sets_only_bit_and_retags k r hr
  refine ⟨?_, by decide, h3, by rw [h4, hk.ttl], by rw [h5, hk.protocol], h6, by rw [h7, hk.publicKey],
    rd, h8, h9⟩
  rw [h1, hk.flags]
  decide

/-- every record of the revoked list of a successful slot has that form, for a name listed under
    `revoke`, and is published (last one per public key text) -/
theorem signBundle_revoked_published (ext : Externals) (mods : List P11Module) (cfg : SignerConfig)
    (slot : Nat) (bundle rb : Bundle) (tok : Token) (s s' : TokState)
    (h : signBundle ext mods cfg slot bundle tok s = (.ok rb, s')) :
    ∃ act, ∃ revoked : List Key, cfg.actions.lookup slot = some act ∧
      (∀ r ∈ revoked, ∃ name ∈ act.revoke, ∃ pk k, KskRecord cfg name pk k ∧ k.asRevoked = .ok r) ∧
      (∀ name ∈ act.revoke, ∃ r ∈ revoked, ∃ pk k, KskRecord cfg name pk k ∧ k.asRevoked = .ok r) ∧
      (∀ r ∈ revoked, ∃ x ∈ rb.keys, x ∈ revoked ∧ x.publicKey = r.publicKey) := by
  obtain ⟨act, pub, rev, signing, revoked, hact, _, hrev, _, hrevoked, hspec, _⟩ :=
    signBundle_keys_spec ext mods cfg slot bundle rb tok s s' h
  obtain ⟨hm, _, hall⟩ := mapM_ok_mem _ _ _ hrevoked
  have hform : ∀ r ∈ revoked, ∃ name ∈ act.revoke, ∃ pk k, KskRecord cfg name pk k ∧ k.asRevoked = .ok r := by
    intro r hr
    obtain ⟨ck, hck, hrk⟩ := (hm r).mp hr
    obtain ⟨name, hn, pk, _, hrec⟩ := hrev.2.1 ck hck
    exact ⟨name, hn, pk, ck.dns, hrec, hrk⟩
  refine ⟨act, revoked, hact, hform, ?_, ?_⟩
  · intro name hn
    obtain ⟨ck, hck, pk, _, hrec⟩ := hrev.2.2 name hn
    obtain ⟨r, hrk⟩ := hall ck hck
    exact ⟨r, (hm r).mpr ⟨ck, hck, hrk⟩, pk, ck.dns, hrec, hrk⟩
  · intro r hr
    obtain ⟨x, hx, hpk, r', hr', rfl⟩ := hspec.revoked_in r hr
    obtain ⟨name, _, pk, k, hrec, hrk⟩ := hform r' hr'
    have httl : r'.ttl = cfg.kskPolicy.ttl := (revoked_key_form cfg name pk k r' hrec hrk).2.2.2.1
    rw [withTtl_self _ _ httl] at hx
    exact ⟨r', hx, hr', hpk⟩

/-! ## §7 Non-vacuity: small concrete instances -/

section Examples

private def kP : Key := ⟨"ksk-next", 1, 172800, 257, 3, 8, "AAAA"⟩
private def kC : Key := ⟨"ksk-current", 2, 172800, 257, 3, 8, "BBBB"⟩
private def kCrev : Key := ⟨"ksk-current", 130, 172800, 385, 3, 8, "BBBB"⟩
private def z1 : Key := ⟨"zsk-1", 3, 3600, 256, 3, 8, "CCCC"⟩
private def zClash : Key := ⟨"zsk-clash", 4, 3600, 256, 3, 8, "AAAA"⟩

/-- the `revoke` schema slot of the example configuration: publish next + current, revoke current,
    sign with current and next; one honest ZSK and one request key clashing with a KSK -/
example : slotFold 172800 [kP, kC] [kCrev] [kC, kP] [z1, zClash]
    = [kP, kCrev, { z1 with ttl := 172800 }] := by decide

example : slotPick [kP, kC] [kCrev] [kC, kP] [z1, zClash] "BBBB" = some kCrev := by decide
example : slotPick [kP, kC] [kCrev] [kC, kP] [z1, zClash] "AAAA" = some kP := by decide
example : PkFunctional [kCrev] ∧ PkFunctional ([kP, kC] ++ [kC, kP]) ∧ PkFunctional [z1] := by
  refine ⟨?_, ?_, ?_⟩ <;> unfold PkFunctional <;> decide

example : sameSet [8, 8] [8] = true ∧ sameSet [8, 13] [8] = false := by decide

end Examples

/-! ## §8 Order independence

Python iterates `set[Key]` (the request bundle's keys), and the schema's `publish` / `sign` /
`revoke` lists, in some order.  The property says the response is *exactly* what KSR and schema
dictate, so nothing observable may depend on that order, nor on a name being listed twice.

`SameElems l l'` (Lemmas/SignerPerm.lean): the two lists have the same elements — every
permutation (`SameElems.of_perm`), and every re-listing with repetitions.

* **Specification level, every token**: `slotPick`, hence `SlotKeys`, depends on its four list
  arguments only as SETS, provided a public key text names one record within each list
  (`PkFunctional`); any two lists meeting one `SlotKeys` specification are permutations of each other
  (`SlotKeys.unique_up_to_perm`); so the fold `sign_bundles` runs yields the same key set
  (`slotFold_order_free`).  `PkFunctional` cannot be dropped (`pkFunctional_needed`): with two
  request keys that share a public key text but differ elsewhere, the survivor is whichever the set
  iteration meets first.  For fetched KSK records `PkFunctional` holds exactly when two records with
  one public key text also agree in label and algorithm (`fetched_pkFunctional_iff`); it fails for
  two configured names that reach the same key material under different labels, or under one label
  with different algorithm numbers.
* **Run level**: the token is an oracle indexed by the operation number, and a permuted schema list
  asks its questions at other indices, so for an arbitrary token (say, one with a fault planted at
  operation 7) the outcome legitimately depends on the order.  On a token whose answers do not
  depend on the operation index (`IndexFree`: a store-backed token, a healthy HSM)
  `signBundle_order_free`: the permuted slot succeeds as well, with a permutation of the keys and a
  permutation of the signatures (identical records), and the same header.
* **Signature identifiers, every token**: `signature_ids_order_free`. -/

theorem firstWithPk_order_free {l l' : List Key} (h : SameElems l l') (hf : PkFunctional l) (p : String) :
    firstWithPk l p = firstWithPk l' p := lookupPk_same h hf p

theorem lastWithPk_order_free {l l' : List Key} (h : SameElems l l') (hf : PkFunctional l) (p : String) :
    lastWithPk l p = lastWithPk l' p :=
  lookupPk_same h.reverse
    (fun a ha b hb e => hf a (List.mem_reverse.mp ha) b (List.mem_reverse.mp hb) e) p

/-- **The record chosen for a public key text depends on the four lists only as sets.** -/
theorem slotPick_order_free {P P' R R' S S' Z Z' : List Key}
    (hP : SameElems P P') (hR : SameElems R R') (hS : SameElems S S') (hZ : SameElems Z Z')
    (fP : PkFunctional P) (fR : PkFunctional R) (fS : PkFunctional S) (fZ : PkFunctional Z) (p : String) :
    slotPick P R S Z p = slotPick P' R' S' Z' p := by
  unfold slotPick
  rw [lastWithPk_order_free hR fR, firstWithPk_order_free hP fP, firstWithPk_order_free hS fS,
    firstWithPk_order_free hZ fZ]

/-- the specification does not look at the order of the OUTPUT either -/
theorem SlotKeys.of_perm {ttl : Int} {P R S Z out out' : List Key} (h : SlotKeys ttl P R S Z out)
    (hp : out.Perm out') : SlotKeys ttl P R S Z out' :=
  ⟨fun x => by rw [← hp.mem_iff]; exact h.mem x, fun x hx => h.ttl x (hp.mem_iff.mpr hx),
    (hp.pairwise_iff (fun hne e => hne e.symm)).mp h.unique⟩

/-- **`SlotKeys_perm`.** The specification of a slot's key set is invariant under reordering (and
    repetition) within each of its four input lists, given `PkFunctional` of each. -/
theorem SlotKeys_order_free {ttl : Int} {P P' R R' S S' Z Z' out : List Key}
    (hP : SameElems P P') (hR : SameElems R R') (hS : SameElems S S') (hZ : SameElems Z Z')
    (fP : PkFunctional P) (fR : PkFunctional R) (fS : PkFunctional S) (fZ : PkFunctional Z) :
    SlotKeys ttl P R S Z out ↔ SlotKeys ttl P' R' S' Z' out := by
  have hpick := slotPick_order_free hP hR hS hZ fP fR fS fZ
  constructor
  · intro h
    exact ⟨fun x => by rw [h.mem x]; simp only [hpick], h.ttl, h.unique⟩
  · intro h
    exact ⟨fun x => by rw [h.mem x]; simp only [hpick], h.ttl, h.unique⟩

/-- the same in `List.Perm` vocabulary, for all five lists at once -/
theorem SlotKeys_perm {ttl : Int} {P P' R R' S S' Z Z' out out' : List Key}
    (hP : P.Perm P') (hR : R.Perm R') (hS : S.Perm S') (hZ : Z.Perm Z') (ho : out.Perm out')
    (fP : PkFunctional P) (fR : PkFunctional R) (fS : PkFunctional S) (fZ : PkFunctional Z)
    (h : SlotKeys ttl P R S Z out) : SlotKeys ttl P' R' S' Z' out' :=
  ((SlotKeys_order_free (SameElems.of_perm hP) (SameElems.of_perm hR) (SameElems.of_perm hS)
    (SameElems.of_perm hZ) fP fR fS fZ).mp h).of_perm ho

/-- **The specification determines the key set up to order**: two lists meeting `SlotKeys` of the
    same inputs are permutations of each other. -/
theorem SlotKeys.unique_up_to_perm {ttl : Int} {P R S Z out out' : List Key}
    (h : SlotKeys ttl P R S Z out) (h' : SlotKeys ttl P R S Z out') : out.Perm out' :=
  SameElems.perm_of_nodup (fun x => by rw [h.mem x, h'.mem x]) (uniquePk_nodup h.unique)
    (uniquePk_nodup h'.unique)

/-- **The key set `sign_bundles` assembles does not depend on the order (or repetition) within the
    fetched publish / revoke / sign records and the request keys.** -/
theorem slotFold_order_free (ttl : Int) {P P' R R' S S' Z Z' : List Key}
    (hP : SameElems P P') (hR : SameElems R R') (hS : SameElems S S') (hZ : SameElems Z Z')
    (fP : PkFunctional P) (fR : PkFunctional R) (fS : PkFunctional S) (fZ : PkFunctional Z) :
    (slotFold ttl P R S Z).Perm (slotFold ttl P' R' S' Z') :=
  ((SlotKeys_order_free hP hR hS hZ fP fR fS fZ).mp (slotFold_spec ttl P R S Z)).unique_up_to_perm
    (slotFold_spec ttl P' R' S' Z')

/-- **`PkFunctional` is needed.** Two request keys with one public key text but different flags:
    the two iteration orders of the request's key SET give different responses. -/
theorem pkFunctional_needed :
    ∃ Z Z' : List Key, Z.Perm Z' ∧ ¬ PkFunctional Z ∧
      ¬ (slotFold 172800 [] [] [] Z).Perm (slotFold 172800 [] [] [] Z') := by
  refine ⟨[⟨"a", 1, 172800, 256, 3, 8, "AAAA"⟩, ⟨"b", 2, 172800, 257, 3, 8, "AAAA"⟩],
    [⟨"b", 2, 172800, 257, 3, 8, "AAAA"⟩, ⟨"a", 1, 172800, 256, 3, 8, "AAAA"⟩],
    List.Perm.swap _ _ _, ?_, ?_⟩
  · intro h
    have := h ⟨"a", 1, 172800, 256, 3, 8, "AAAA"⟩ (by simp) ⟨"b", 2, 172800, 257, 3, 8, "AAAA"⟩ (by simp) rfl
    simp at this
  · have e1 : slotFold 172800 [] [] [] [⟨"a", 1, 172800, 256, 3, 8, "AAAA"⟩, ⟨"b", 2, 172800, 257, 3, 8, "AAAA"⟩]
        = [⟨"a", 1, 172800, 256, 3, 8, "AAAA"⟩] := by decide
    have e2 : slotFold 172800 [] [] [] [⟨"b", 2, 172800, 257, 3, 8, "AAAA"⟩, ⟨"a", 1, 172800, 256, 3, 8, "AAAA"⟩]
        = [⟨"b", 2, 172800, 257, 3, 8, "AAAA"⟩] := by decide
    rw [e1, e2]
    intro h
    have := List.singleton_perm.mp h
    simp at this

/-! ### `PkFunctional` of fetched KSK records -/

/-- a KSK record is determined by label, algorithm and public key text (flags, protocol, TTL are
    fixed, the tag is computed from the RDATA) -/
theorem kskRecord_determined {cfg : SignerConfig} {n₁ n₂ pk : String} {a b : Key}
    (ha : KskRecord cfg n₁ pk a) (hb : KskRecord cfg n₂ pk b)
    (hid : a.keyIdentifier = b.keyIdentifier) (halg : a.algorithm = b.algorithm) : a = b := by
  have hrd : keyToRdata a = keyToRdata b := by
    unfold keyToRdata
    rw [ha.flags, hb.flags, ha.protocol, hb.protocol, halg, ha.publicKey, hb.publicKey]
  obtain ⟨ra, hra, hta⟩ := ha.tag
  obtain ⟨rb, hrb, htb⟩ := hb.tag
  rw [hrd, hrb] at hra
  cases hra
  exact key_ext hid (by rw [hta, htb]) (by rw [ha.ttl, hb.ttl]) (by rw [ha.flags, hb.flags])
    (by rw [ha.protocol, hb.protocol]) halg (by rw [ha.publicKey, hb.publicKey])

/-- **When is a public key text one record among the fetched KSK records?**  Exactly when two
    fetched records with one public key text also carry one label and one algorithm number.  So
    `PkFunctional` holds unless two names of the list reach the same key material under different
    labels, or under one label configured with different algorithms — then the record published is
    whichever name the schema list has first, and `PkFunctional` states precisely that this does not
    happen. -/
theorem fetched_pkFunctional_iff {cfg : SignerConfig} {names : List String} {cks : List CompositeKey}
    (h : FetchedFor cfg names cks) :
    PkFunctional (cks.map (·.dns)) ↔
      ∀ a ∈ cks, ∀ b ∈ cks, a.dns.publicKey = b.dns.publicKey →
        a.dns.keyIdentifier = b.dns.keyIdentifier ∧ a.dns.algorithm = b.dns.algorithm := by
  constructor
  · intro hf a ha b hb e
    have := hf a.dns (List.mem_map.mpr ⟨a, ha, rfl⟩) b.dns (List.mem_map.mpr ⟨b, hb, rfl⟩) e
    rw [this]; exact ⟨rfl, rfl⟩
  · intro hc x hx y hy e
    obtain ⟨a, ha, rfl⟩ := List.mem_map.mp hx
    obtain ⟨b, hb, rfl⟩ := List.mem_map.mp hy
    obtain ⟨n₁, _, pk₁, _, r₁⟩ := h.2.1 a ha
    obtain ⟨n₂, _, pk₂, _, r₂⟩ := h.2.1 b hb
    have hpk : pk₁ = pk₂ := by rw [← r₁.publicKey, ← r₂.publicKey]; exact e
    subst hpk
    exact kskRecord_determined r₁ r₂ (hc a ha b hb e).1 (hc a ha b hb e).2

/-- split into a configuration part and a token part: a label is configured with one algorithm
    number (configuration), and different labels are different key material (token) -/
theorem fetched_pkFunctional_of_config {cfg : SignerConfig} {names : List String} {cks : List CompositeKey}
    (h : FetchedFor cfg names cks)
    (hcfg : ∀ n₁ ∈ names, ∀ n₂ ∈ names, ∀ k₁ k₂, cfg.kskKeys.lookup n₁ = some k₁ →
      cfg.kskKeys.lookup n₂ = some k₂ → k₁.label = k₂.label → k₁.algorithm = k₂.algorithm)
    (htok : ∀ a ∈ cks, ∀ b ∈ cks, a.dns.publicKey = b.dns.publicKey →
      a.dns.keyIdentifier = b.dns.keyIdentifier) :
    PkFunctional (cks.map (·.dns)) := by
  rw [fetched_pkFunctional_iff h]
  intro a ha b hb e
  have hid := htok a ha b hb e
  refine ⟨hid, ?_⟩
  obtain ⟨n₁, hn₁, pk₁, _, r₁⟩ := h.2.1 a ha
  obtain ⟨n₂, hn₂, pk₂, _, r₂⟩ := h.2.1 b hb
  obtain ⟨k₁, hl₁, hi₁, ha₁⟩ := r₁.configured
  obtain ⟨k₂, hl₂, hi₂, ha₂⟩ := r₂.configured
  rw [ha₁, ha₂]
  exact hcfg n₁ hn₁ n₂ hn₂ k₁ k₂ hl₁ hl₂ (by rw [← hi₁, ← hi₂]; exact hid)

/-- **an identifier names one signing key** (hypothesis `IdFun` of `signBundle_order_free`), in
    configuration terms, on an index-free token: names with one label have one configured entry -/
theorem fetched_idFun_of_config (ext : Externals) (mods : List P11Module) (cfg : SignerConfig) (b : Bundle)
    (isPublic : Bool) (tok : Token) (ht : IndexFree tok) (names : List String) (cks : List CompositeKey)
    (s s1 : TokState) (h : fetchKeys ext mods cfg b isPublic names tok s = (.ok cks, s1))
    (hcfg : ∀ n₁ ∈ names, ∀ n₂ ∈ names, ∀ k₁ k₂, cfg.kskKeys.lookup n₁ = some k₁ →
      cfg.kskKeys.lookup n₂ = some k₂ → k₁.label = k₂.label → k₁ = k₂) :
    IdFun cks := by
  have h1 := fetchKeys_indexFree ext mods cfg b isPublic ht names s
  rw [h] at h1
  obtain ⟨hm, _, _⟩ := mapM_ok_mem _ _ _ h1.symm
  intro x hx y hy e
  obtain ⟨n₁, hn₁, f₁⟩ := (hm x).mp hx
  obtain ⟨n₂, hn₂, f₂⟩ := (hm y).mp hy
  obtain ⟨k₁, l₁, i₁⟩ := fetchedOf_ok f₁
  obtain ⟨k₂, l₂, i₂⟩ := fetchedOf_ok f₂
  have hk : k₁ = k₂ := hcfg n₁ hn₁ n₂ hn₂ k₁ k₂ l₁ l₂ (by rw [← i₁, ← i₂]; exact e)
  rw [fetchedOf_congr ext mods cfg b isPublic tok (l₁.trans (hk ▸ l₂.symm))] at f₁
  rw [f₁] at f₂
  exact Except.ok.inj f₂

/-- revoking keeps `PkFunctional`: the revoked form is a function of the record and keeps the
    public key text -/
theorem revoked_pkFunctional {l : List Key} {revoked : List Key} (hf : PkFunctional l)
    (hr : l.mapM (fun k => k.asRevoked) = .ok revoked) : PkFunctional revoked := by
  obtain ⟨hm, _, _⟩ := mapM_ok_mem _ _ _ hr
  intro a ha b hb e
  obtain ⟨x, hx, hxa⟩ := (hm a).mp ha
  obtain ⟨y, hy, hyb⟩ := (hm b).mp hb
  have hpa := (C14.revoke_sets_only_bit_and_retags x a hxa).choose_spec.2.2.2.2.2.2.1
  have hpb := (C14.revoke_sets_only_bit_and_retags y b hyb).choose_spec.2.2.2.2.2.2.1
  have : x = y := hf x hx y hy (by rw [← hpa, ← hpb]; exact e)
  subst this
  rw [hxa] at hyb
  exact Except.ok.inj hyb

/-! ### the run on an index-free token -/

/-- **C02, order independence of one slot on an index-free token.**  `tok` answers every operation
    the same at whatever index.  The slot `slot` was signed successfully (`h`) under configuration
    `cfg` for request bundle `bundle`; `pub`, `rev`, `signing` are what the three fetches returned.
    `cfg'` differs from `cfg` in the schema only, its action for the slot lists the same names under
    `publish`, `revoke`, `sign` — in any order, any name any number of times; `bundle'` is `bundle`
    with its key set in any order.  Provided a public key text names one record within each of the
    four lists and an identifier names one signing key, then — from ANY token state `s'` — the slot
    is signed successfully again, and the response bundle has a permutation of the same keys, a
    permutation of the same signatures (identical records: same octets signed, same signature data),
    and the same id / inception / expiration. -/
theorem signBundle_order_free (ext : Externals) (mods : List P11Module) (cfg cfg' : SignerConfig)
    (slot : Nat) (bundle bundle' rb : Bundle) (tok : Token) (s s1 s2 s3 s4 s' : TokState)
    (act act' : SchemaAction) (pub rev signing : List CompositeKey)
    (ht : IndexFree tok)
    (hk : cfg'.kskKeys = cfg.kskKeys) (hp : cfg'.kskPolicy = cfg.kskPolicy)
    (hrp : cfg'.responsePolicy = cfg.responsePolicy)
    (hact : cfg.actions.lookup slot = some act) (hact' : cfg'.actions.lookup slot = some act')
    (hlp : SameElems act.publish act'.publish) (hlr : SameElems act.revoke act'.revoke)
    (hls : SameElems act.sign act'.sign)
    (hid : bundle'.id = bundle.id) (hinc : bundle'.inception = bundle.inception)
    (hexp : bundle'.expiration = bundle.expiration) (hz : SameElems bundle.keys bundle'.keys)
    (hpub : fetchKeys ext mods cfg bundle true act.publish tok s = (.ok pub, s1))
    (hrev : fetchKeys ext mods cfg bundle true act.revoke tok s1 = (.ok rev, s2))
    (hsign : fetchKeys ext mods cfg bundle false act.sign tok s2 = (.ok signing, s3))
    (h : signBundle ext mods cfg slot bundle tok s = (.ok rb, s4))
    (fP : PkFunctional (pub.map (·.dns))) (fR : PkFunctional (rev.map (·.dns)))
    (fS : PkFunctional (signing.map (·.dns))) (fZ : PkFunctional bundle.keys) (fI : IdFun signing) :
    ∃ rb' s'', signBundle ext mods cfg' slot bundle' tok s' = (.ok rb', s'') ∧
      rb'.keys.Perm rb.keys ∧ rb'.signatures.Perm rb.signatures ∧
      rb'.id = rb.id ∧ rb'.inception = rb.inception ∧ rb'.expiration = rb.expiration := by
  -- the original run, step by step
  obtain ⟨act0, pub0, rev0, revoked, signing0, t1, t2, t3, hact0, hpub0, hrev0, hrevoked, hsign0, hkeys,
    hsigs, hfin⟩ := signBundle_ok h
  rw [hact] at hact0; cases hact0
  rw [hpub] at hpub0; cases hpub0
  rw [hrev] at hrev0; cases hrev0
  rw [hsign] at hsign0; cases hsign0
  -- the three fetches of the reordered slot
  obtain ⟨pub', u1, hpub', sP⟩ := fetchKeys_same ext mods cfg bundle true ht hlp hpub s'
  obtain ⟨rev', u2, hrev', sR⟩ := fetchKeys_same ext mods cfg bundle true ht hlr hrev u1
  obtain ⟨signing', u3, hsign', sS⟩ := fetchKeys_same ext mods cfg bundle false ht hls hsign u2
  rw [← fetchKeys_congr ext mods cfg cfg' bundle bundle' _ hk hp hinc hexp] at hpub' hrev' hsign'
  -- revoked forms
  have hrevoked0 : (rev.map (·.dns)).mapM (fun k => k.asRevoked) = .ok revoked := by
    rw [List.mapM_map]; exact hrevoked
  obtain ⟨revoked', hrevoked'0, sRv⟩ := mapM_same (fun k : Key => k.asRevoked) (sR.map (·.dns)) hrevoked0
  have hrevoked' : rev'.mapM (fun ck => ck.dns.asRevoked) = .ok revoked' := by
    rw [List.mapM_map] at hrevoked'0; exact hrevoked'0
  -- the key sets
  have hperm : (slotFold cfg.kskPolicy.ttl (pub.map (·.dns)) revoked (signing.map (·.dns)) bundle.keys).Perm
      (slotFold cfg'.kskPolicy.ttl (pub'.map (·.dns)) revoked' (signing'.map (·.dns)) bundle'.keys) := by
    rw [hp]
    exact slotFold_order_free _ (sP.map _) sRv (sS.map _) hz fP (revoked_pkFunctional fR hrevoked0) fS fZ
  -- the signing loop
  have hpure := signAll_indexFree ext bundle rb.keys cfg.kskPolicy ht signing [] s3
  rw [hsigs] at hpure
  have hidf : ∀ sk σ, signedBy ext bundle rb.keys cfg.kskPolicy tok sk = .ok σ →
      σ.keyIdentifier = sk.dns.keyIdentifier := by
    intro sk σ hσ
    have : signKeys ext bundle rb.keys sk cfg.kskPolicy tok {} =
        (.ok σ, (signKeys ext bundle rb.keys sk cfg.kskPolicy tok {}).2) := Prod.ext hσ rfl
    exact (signKeys_ok_id this).1
  obtain ⟨sigs', hpure', sSig⟩ := signAllPure_same _
    (signedBy ext bundle'
      (slotFold cfg'.kskPolicy.ttl (pub'.map (·.dns)) revoked' (signing'.map (·.dns)) bundle'.keys)
      cfg'.kskPolicy tok) sS fI hidf (by
      intro sk _ σ hσ
      have h0 : signKeys ext bundle rb.keys sk cfg.kskPolicy tok {} =
          (.ok σ, (signKeys ext bundle rb.keys sk cfg.kskPolicy tok {}).2) := Prod.ext hσ rfl
      rw [hkeys] at h0
      have h1 := signKeys_perm hperm h0
      unfold signedBy
      rw [hp] at h1
      rw [signKeys_bundle_congr ext bundle bundle' _ sk _ hinc hexp, hp, h1]) hpure.symm
  have hsigs' : signAll ext bundle'
      (slotFold cfg'.kskPolicy.ttl (pub'.map (·.dns)) revoked' (signing'.map (·.dns)) bundle'.keys)
      cfg'.kskPolicy signing' [] tok u3 = (.ok sigs', (signAll ext bundle'
      (slotFold cfg'.kskPolicy.ttl (pub'.map (·.dns)) revoked' (signing'.map (·.dns)) bundle'.keys)
      cfg'.kskPolicy signing' [] tok u3).2) := by
    refine Prod.ext ?_ rfl
    rw [signAll_indexFree ext bundle' _ cfg'.kskPolicy ht signing' [] u3]
    exact hpure'
  -- the tail
  rw [signBundle_run hact' hpub' hrev' hrevoked' hsign' hsigs']
  have hfin' := finishBundle_same (cfg' := cfg') hrp hid hinc hexp hz (hkeys ▸ hperm) sSig hfin
  obtain ⟨_, hrb, _⟩ := finishBundle_ok hfin
  have hd : rb.signatures.Nodup := by
    obtain ⟨new, e, _, _, hdist, _⟩ := signAll_ok hsigs
    have := hdist List.Pairwise.nil
    rw [List.nodup_iff_pairwise_ne]
    exact this.imp (fun hne e => hne (by rw [e]))
  have hd' : sigs'.Nodup := by
    obtain ⟨new, e, _, _, hdist, _⟩ := signAll_ok hsigs'
    have := hdist List.Pairwise.nil
    rw [List.nodup_iff_pairwise_ne]
    exact this.imp (fun hne e => hne (by rw [e]))
  refine ⟨_, _, by rw [hfin'], ?_, (sSig.symm.perm_of_nodup hd' hd), ?_, ?_, ?_⟩
  · rw [hkeys]; exact hperm.symm
  · rw [hrb]
  · rw [hrb]
  · rw [hrb]

/-- **Signature identifiers, every token.** Two successful runs of a slot — any two tokens, any
    states, any two configurations with the same configured keys — whose actions list the same names
    under `sign` (any order, any repetition) return signatures with the same set of key identifiers. -/
theorem signature_ids_order_free (ext : Externals) (mods : List P11Module) (cfg cfg' : SignerConfig)
    (slot : Nat) (bundle bundle' rb rb' : Bundle) (tok tok' : Token) (s s1 s' s1' : TokState)
    (act act' : SchemaAction) (hk : cfg'.kskKeys = cfg.kskKeys)
    (hact : cfg.actions.lookup slot = some act) (hact' : cfg'.actions.lookup slot = some act')
    (hls : SameElems act.sign act'.sign)
    (h : signBundle ext mods cfg slot bundle tok s = (.ok rb, s1))
    (h' : signBundle ext mods cfg' slot bundle' tok' s' = (.ok rb', s1')) :
    ∀ id, (∃ σ ∈ rb.signatures, σ.keyIdentifier = id) ↔ (∃ σ ∈ rb'.signatures, σ.keyIdentifier = id) := by
  obtain ⟨a, _, ha, _, _, h2, _⟩ := signBundle_signatures_spec ext mods cfg slot bundle rb tok s s1 h
  obtain ⟨a', _, ha', _, _, h2', _⟩ := signBundle_signatures_spec ext mods cfg' slot bundle' rb' tok' s' s1' h'
  rw [hact] at ha; cases ha
  rw [hact'] at ha'; cases ha'
  intro id
  rw [h2 id, h2' id, hk]
  constructor
  · rintro ⟨n, hn, r⟩; exact ⟨n, (hls n).mp hn, r⟩
  · rintro ⟨n, hn, r⟩; exact ⟨n, (hls n).mpr hn, r⟩

/-! ### Non-vacuity of `signBundle_order_free` -/

section OrderExample

/-- an index-free token with two RSA key pairs (labels "kskA" / "kskB", handles 5 / 6, moduli `80 01` /
    `80 03`, e = 65537) that signs everything with `[1, 2, 3]` -/
private def ofTok : Token := fun _ op =>
  match op with
  | .findObjects _ _ [("LABEL", .str "kskA"), _] => .handles [5]
  | .findObjects _ _ [("LABEL", .str "kskB"), _] => .handles [6]
  | .getAttr _ _ _ ["KEY_TYPE"] => .attrs [.num 0]
  | .getAttr _ _ 5 ["MODULUS"] => .attrs [.bytes [0x80, 1]]
  | .getAttr _ _ 6 ["MODULUS"] => .attrs [.bytes [0x80, 3]]
  | .getAttr _ _ _ ["PUBLIC_EXPONENT"] => .attrs [.bytes [1, 0, 1]]
  | .sign .. => .sig [1, 2, 3]
  | _ => .other
private def ofExt : Externals :=
  { hash := fun _ d => some d, verify := fun _ _ _ sg => if sg = [1, 2, 3] then .valid else .invalid }
private def ofKsk (l : String) : KskKey :=
  { label := l, algorithm := 8, validFrom := 0, rsaSize := some 16, rsaExponent := some 65537,
    hashUsingHsm := some true }
private def ofCfg (acts : List (Nat × SchemaAction)) : SignerConfig :=
  { kskKeys := [("a", ofKsk "kskA"), ("b", ofKsk "kskB")], actions := acts }
private def ofMods : List P11Module := [{ label := "hsm", path := "m", sessions := [0] }]
private def oz1 : Key := ⟨"zsk1", 2, 3600, 256, 3, 8, "AwEAAg=="⟩
private def oz2 : Key := ⟨"zsk2", 3, 3600, 256, 3, 8, "AwEAAw=="⟩
private def ofBundle (ks : List Key) : Bundle := ⟨"b1", 1700000000000000, 1701000000000000, ks, [], none⟩
private def ofAct : SchemaAction := { publish := ["a", "b"], sign := ["a", "b"], revoke := ["b"] }
private def ofAct' : SchemaAction := { publish := ["b", "a", "b"], sign := ["b", "a"], revoke := ["b", "b"] }

private def os1 : TokState :=
  (fetchKeys ofExt ofMods (ofCfg [(1, ofAct)]) (ofBundle [oz1, oz2]) true ofAct.publish ofTok {}).2
private def os2 : TokState :=
  (fetchKeys ofExt ofMods (ofCfg [(1, ofAct)]) (ofBundle [oz1, oz2]) true ofAct.revoke ofTok os1).2

/-- the hypotheses of `signBundle_order_free` are satisfiable, with a non-trivial reordering: names
    swapped and repeated in all three schema lists, request keys swapped, `revoke` non-empty -/
example : ∃ rb rb' s4 s'',
    signBundle ofExt ofMods (ofCfg [(1, ofAct)]) 1 (ofBundle [oz1, oz2]) ofTok {} = (.ok rb, s4) ∧
    signBundle ofExt ofMods (ofCfg [(1, ofAct')]) 1 (ofBundle [oz2, oz1]) ofTok {} = (.ok rb', s'') ∧
    rb'.keys.Perm rb.keys ∧ rb'.signatures.Perm rb.signatures ∧ rb.keys.length = 4 ∧
    rb.signatures.length = 2 := by
  have ht : IndexFree ofTok := fun _ _ _ => rfl
  have hpub : fetchKeys ofExt ofMods (ofCfg [(1, ofAct)]) (ofBundle [oz1, oz2]) true ofAct.publish ofTok {}
      = (.ok _, os1) := Prod.ext (eq_okOr [] (by decide +kernel)) rfl
  have hrev : fetchKeys ofExt ofMods (ofCfg [(1, ofAct)]) (ofBundle [oz1, oz2]) true ofAct.revoke ofTok os1
      = (.ok _, os2) := Prod.ext (eq_okOr [] (by decide +kernel)) rfl
  have hsign : fetchKeys ofExt ofMods (ofCfg [(1, ofAct)]) (ofBundle [oz1, oz2]) false ofAct.sign ofTok os2
      = (.ok _, _) := Prod.ext (eq_okOr [] (by decide +kernel)) rfl
  have h : signBundle ofExt ofMods (ofCfg [(1, ofAct)]) 1 (ofBundle [oz1, oz2]) ofTok {}
      = (.ok _, _) := Prod.ext (eq_okOr default (by decide +kernel)) rfl
  obtain ⟨rb', s'', h', hk, hs, _⟩ := signBundle_order_free ofExt ofMods (ofCfg [(1, ofAct)])
    (ofCfg [(1, ofAct')]) 1 (ofBundle [oz1, oz2]) (ofBundle [oz2, oz1]) _ ofTok {} _ _ _ _ {} ofAct ofAct'
    _ _ _ ht rfl rfl rfl rfl rfl (SameElems.of_subsets (by decide) (by decide))
    (SameElems.of_subsets (by decide) (by decide)) (SameElems.of_subsets (by decide) (by decide))
    rfl rfl rfl (SameElems.of_subsets (by decide) (by decide))
    hpub hrev hsign h (by unfold PkFunctional; decide +kernel) (by unfold PkFunctional; decide +kernel)
    (by unfold PkFunctional; decide +kernel) (by unfold PkFunctional; decide +kernel)
    (by unfold IdFun; decide +kernel)
  exact ⟨_, rb', _, s'', h, h', hk, hs, by decide +kernel, by decide +kernel⟩

end OrderExample

end Kskm.C02
