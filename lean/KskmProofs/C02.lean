/-
  C02 — the SKR contains exactly what the KSR and the signing schema dictate.

  Every theorem is for EVERY token oracle `tok`, every starting state `s`, every hash function and
  software verifier (`ext`): the token may answer anything, at any operation.

  Layout
    §1  key-set algebra of `KeysToSign` (`ktsAdd` / `ktsUpdate` and their folds)
    §2  `SlotKeys`: the key set of one slot, specified from the property text; `signBundle_keys_spec`
    §3  signatures: exactly one per KSK listed under `sign`
    §4  algorithm-set agreement, refusal on mismatch
    §5  header echo, slot numbering, KSK policy (`createSkr_header`)
    §6  the form of a revoked key
    §7  non-vacuity examples
-/
import Kskm.Signer
import KskmProofs.Lemmas.TokM
import KskmProofs.Lemmas.SignerKeys
import KskmProofs.Lemmas.SignerInv
import KskmProofs.C14
namespace Kskm.C02

/-! ## §1 Key-set algebra -/

/-- every key entering the signed set carries the configured TTL afterwards, if all did before -/
theorem ktsAdd_ttl (ttl : Int) (keys : List Key) (k : Key) (h : ∀ x ∈ keys, x.ttl = ttl) :
    ∀ x ∈ ktsAdd ttl keys k, x.ttl = ttl :=
  Kskm.ktsAdd_ttl ttl keys k h

/-- **`add`.** The set after `add k` is the old set, plus — only when no record had `k`'s public key
    text — `k` with the TTL replaced (`{k with ttl := ttl} = k` when the TTL was already right). -/
theorem mem_ktsAdd (ttl : Int) (keys : List Key) (k x : Key) :
    x ∈ ktsAdd ttl keys k ↔
      x ∈ keys ∨ ((∀ y ∈ keys, y.publicKey ≠ k.publicKey) ∧ x = { k with ttl := ttl }) :=
  Kskm.mem_ktsAdd ttl keys k x

/-- `add` never creates two records with one public key text -/
theorem ktsAdd_unique (ttl : Int) (keys : List Key) (k : Key)
    (h : keys.Pairwise (fun a b => a.publicKey ≠ b.publicKey)) :
    (ktsAdd ttl keys k).Pairwise (fun a b => a.publicKey ≠ b.publicKey) :=
  Kskm.ktsAdd_unique ttl keys k h

/-- **`update`.** On a set without repeated public keys, `update k` REPLACES: every record with
    another public key stays, the record with `k`'s public key (if any) goes, `k` (TTL set) enters. -/
theorem mem_ktsUpdate (ttl : Int) (keys : List Key) (k x : Key)
    (hu : keys.Pairwise (fun a b => a.publicKey ≠ b.publicKey)) :
    x ∈ ktsUpdate ttl keys k ↔
      (x ∈ keys ∧ x.publicKey ≠ k.publicKey) ∨ x = { k with ttl := ttl } :=
  Kskm.mem_ktsUpdate ttl keys k x hu

theorem ktsUpdate_unique (ttl : Int) (keys : List Key) (k : Key)
    (h : keys.Pairwise (fun a b => a.publicKey ≠ b.publicKey)) :
    (ktsUpdate ttl keys k).Pairwise (fun a b => a.publicKey ≠ b.publicKey) :=
  Kskm.ktsUpdate_unique ttl keys k h

theorem ktsUpdate_ttl (ttl : Int) (keys : List Key) (k : Key) (h : ∀ x ∈ keys, x.ttl = ttl) :
    ∀ x ∈ ktsUpdate ttl keys k, x.ttl = ttl :=
  Kskm.ktsUpdate_ttl ttl keys k h

/-- first record of `l` with public key text `p` -/
def firstWithPk (l : List Key) (p : String) : Option Key := l.find? (fun k => k.publicKey = p)
/-- last record of `l` with public key text `p` -/
def lastWithPk (l : List Key) (p : String) : Option Key := l.reverse.find? (fun k => k.publicKey = p)

/-- **fold of `add`** over any list, any starting set: for each public key text, what was there
    wins, otherwise the FIRST record of the list with that text enters (TTL set). -/
theorem foldl_ktsAdd_pick (ttl : Int) (l acc : List Key) (p : String) :
    firstWithPk (l.foldl (fun acc k => ktsAdd ttl acc k) acc) p
      = (firstWithPk acc p).or ((firstWithPk l p).map fun k => { k with ttl := ttl }) :=
  lookupPk_foldl_ktsAdd ttl l acc p

/-- **fold of `update`** over any list: the LAST record of the list with that text wins (TTL set),
    otherwise what was there stays. -/
theorem foldl_ktsUpdate_pick (ttl : Int) (l acc : List Key) (p : String)
    (hu : acc.Pairwise (fun a b => a.publicKey ≠ b.publicKey)) :
    firstWithPk (l.foldl (fun acc k => ktsUpdate ttl acc k) acc) p
      = ((lastWithPk l p).map fun k => { k with ttl := ttl }).or (firstWithPk acc p) :=
  lookupPk_foldl_ktsUpdate ttl l acc p hu

/-! ## §2 The key set of one slot

`P` are the DNSKEY records of the KSKs fetched for `publish`, `R` those fetched for `revoke` in their
revoked form, `S` those fetched for `sign`, `Z` the keys of the request bundle.

Property text: the key set is `{z with ttl | z ∈ Z} ∪ {k ∈ P ∪ S | no r ∈ R has k's public key} ∪ R`,
everything with the configured TTL, deduplicated by public key text.  Deduplication needs a
precedence, and the precedence is part of the specification: for each public key text `p`

    the last record of `R` with text `p`,  else the first of `P`,  else the first of `S`,
    else the first of `Z`

(`slotPick`).  In particular — the caveat of DESIGN §4/C02, not idealised away — a request key whose
public key text equals that of a KSK record is DROPPED in favour of the KSK record
(`request_key_with_ksk_pk_dropped`). -/

/-- the record chosen for public key text `p` -/
def slotPick (P R S Z : List Key) (p : String) : Option Key :=
  (lastWithPk R p).or ((firstWithPk P p).or ((firstWithPk S p).or (firstWithPk Z p)))

/-- `out` is the key set the property prescribes for a slot (up to order) -/
structure SlotKeys (ttl : Int) (P R S Z out : List Key) : Prop where
  /-- membership: exactly the chosen record of every public key text, TTL set -/
  mem : ∀ x, x ∈ out ↔ ∃ p k, slotPick P R S Z p = some k ∧ x = { k with ttl := ttl }
  /-- every key carries the configured TTL -/
  ttl : ∀ x ∈ out, x.ttl = ttl
  /-- no two entries share a public key text -/
  unique : out.Pairwise (fun a b => a.publicKey ≠ b.publicKey)

theorem slotPick_pk {P R S Z : List Key} {p : String} {k : Key} (h : slotPick P R S Z p = some k) :
    k.publicKey = p := by
  simp only [slotPick, Option.or_eq_some_iff] at h
  rcases h with h | ⟨_, h | ⟨_, h | ⟨_, h⟩⟩⟩ <;> exact lookupPk_some_pk h

theorem lookupPk_slotFold (ttl : Int) (P R S Z : List Key) (p : String) :
    lookupPk (slotFold ttl P R S Z) p = (slotPick P R S Z p).map fun k => { k with ttl := ttl } := by
  have hu : UniquePk (P.foldl (fun acc k => ktsAdd ttl acc k) []) :=
    foldl_ktsAdd_unique ttl P [] List.Pairwise.nil
  unfold slotFold slotPick lastWithPk firstWithPk
  rw [lookupPk_foldl_ktsAdd, lookupPk_foldl_ktsAdd, lookupPk_foldl_ktsUpdate _ _ _ _ hu,
    lookupPk_foldl_ktsAdd]
  simp only [lookupPk_nil, Option.none_or, Option.map_or, Option.or_assoc]
  rfl

/-- the fold that `sign_bundles` runs meets the specification, for all four lists -/
theorem slotFold_spec (ttl : Int) (P R S Z : List Key) : SlotKeys ttl P R S Z (slotFold ttl P R S Z) := by
  have hu1 : UniquePk (P.foldl (fun acc k => ktsAdd ttl acc k) []) :=
    foldl_ktsAdd_unique ttl P [] List.Pairwise.nil
  have ht1 : ∀ x ∈ P.foldl (fun acc k => ktsAdd ttl acc k) [], x.ttl = ttl :=
    foldl_ktsAdd_ttl ttl P [] (by simp)
  have hu : UniquePk (slotFold ttl P R S Z) :=
    foldl_ktsAdd_unique ttl Z _ (foldl_ktsAdd_unique ttl S _ (foldl_ktsUpdate_unique ttl R _ hu1))
  have ht : ∀ x ∈ slotFold ttl P R S Z, x.ttl = ttl :=
    foldl_ktsAdd_ttl ttl Z _ (foldl_ktsAdd_ttl ttl S _ (foldl_ktsUpdate_ttl ttl R _ ht1))
  refine ⟨?_, ht, hu⟩
  intro x
  rw [mem_iff_lookupPk hu, lookupPk_slotFold]
  constructor
  · intro h
    cases hp : slotPick P R S Z x.publicKey with
    | none => simp [hp] at h
    | some k =>
      simp only [hp, Option.map_some, Option.some.injEq] at h
      exact ⟨x.publicKey, k, hp, h.symm⟩
  · rintro ⟨p, k, hp, rfl⟩
    have : k.publicKey = p := slotPick_pk hp
    simp only [this, hp, Option.map_some]

/-! ### consequences of `SlotKeys` in the vocabulary of the property text -/

/-- nothing else slipped in: every published record is a revoked record, or a publish/sign record
    whose public key is not revoked, or a request key whose public key is no KSK's — with the TTL set -/
theorem SlotKeys.sound {ttl : Int} {P R S Z out : List Key} (h : SlotKeys ttl P R S Z out) (x : Key)
    (hx : x ∈ out) :
    (∃ r ∈ R, x = { r with ttl := ttl }) ∨
    (∃ k ∈ P ++ S, x = { k with ttl := ttl } ∧ ∀ r ∈ R, r.publicKey ≠ k.publicKey) ∨
    (∃ z ∈ Z, x = { z with ttl := ttl } ∧ ∀ k ∈ P ++ R ++ S, k.publicKey ≠ z.publicKey) := by
  obtain ⟨p, k, hp, rfl⟩ := (h.mem x).mp hx
  have hkp := slotPick_pk hp
  simp only [slotPick, lastWithPk, firstWithPk, Option.or_eq_some_iff] at hp
  have hR : ∀ {l : List Key}, l.reverse.find? (fun k => decide (k.publicKey = p)) = none →
      ∀ r ∈ l, r.publicKey ≠ p := by
    intro l hl r hr
    exact (lookupPk_eq_none (l := l.reverse)).mp hl r (List.mem_reverse.mpr hr)
  rcases hp with h1 | ⟨hr, h2 | ⟨hpn, h3 | ⟨hsn, h4⟩⟩⟩
  · exact Or.inl ⟨k, List.mem_reverse.mp (lookupPk_some_mem h1), rfl⟩
  · refine Or.inr (Or.inl ⟨k, List.mem_append_left _ (lookupPk_some_mem h2), rfl, ?_⟩)
    intro r hr'; rw [hkp]; exact hR hr r hr'
  · refine Or.inr (Or.inl ⟨k, List.mem_append_right _ (lookupPk_some_mem h3), rfl, ?_⟩)
    intro r hr'; rw [hkp]; exact hR hr r hr'
  · refine Or.inr (Or.inr ⟨k, lookupPk_some_mem h4, rfl, ?_⟩)
    intro y hy
    rw [hkp]
    simp only [List.mem_append] at hy
    rcases hy with (hy | hy) | hy
    · exact lookupPk_eq_none.mp hpn y hy
    · exact hR hr y hy
    · exact lookupPk_eq_none.mp hsn y hy

/-- nothing is missing: every public key text occurring in `P`, `R`, `S` or `Z` is represented -/
theorem SlotKeys.complete {ttl : Int} {P R S Z out : List Key} (h : SlotKeys ttl P R S Z out) (k : Key)
    (hk : k ∈ P ++ R ++ S ++ Z) : ∃ x ∈ out, x.publicKey = k.publicKey := by
  have : ∃ k', slotPick P R S Z k.publicKey = some k' := by
    simp only [List.mem_append] at hk
    unfold slotPick lastWithPk firstWithPk
    rcases hk with ((hk | hk) | hk) | hk
    · obtain ⟨k', hk'⟩ := lookupPk_isSome_of_mem hk
      unfold lookupPk at hk'
      cases (List.find? (fun k_1 => decide (k_1.publicKey = k.publicKey)) R.reverse) <;> simp [hk']
    · obtain ⟨k', hk'⟩ := lookupPk_isSome_of_mem (List.mem_reverse.mpr hk)
      unfold lookupPk at hk'
      simp [hk']
    · obtain ⟨k', hk'⟩ := lookupPk_isSome_of_mem hk
      unfold lookupPk at hk'
      cases (List.find? (fun k_1 => decide (k_1.publicKey = k.publicKey)) R.reverse) <;>
        cases (List.find? (fun k_1 => decide (k_1.publicKey = k.publicKey)) P) <;> simp [hk']
    · obtain ⟨k', hk'⟩ := lookupPk_isSome_of_mem hk
      unfold lookupPk at hk'
      cases (List.find? (fun k_1 => decide (k_1.publicKey = k.publicKey)) R.reverse) <;>
        cases (List.find? (fun k_1 => decide (k_1.publicKey = k.publicKey)) P) <;>
        cases (List.find? (fun k_1 => decide (k_1.publicKey = k.publicKey)) S) <;> simp [hk']
  obtain ⟨k', hk'⟩ := this
  exact ⟨{ k' with ttl := ttl }, (h.mem _).mpr ⟨_, k', hk', rfl⟩, (slotPick_pk hk' : k'.publicKey = _)⟩

/-- a revoked record is published as such (the last one of `R` per public key text): `revoke`
    REPLACES whatever `publish` put there and is not displaced by `sign` or by a request key -/
theorem SlotKeys.revoked_in {ttl : Int} {P R S Z out : List Key} (h : SlotKeys ttl P R S Z out) (r : Key)
    (hr : r ∈ R) : ∃ x ∈ out, x.publicKey = r.publicKey ∧ ∃ r' ∈ R, x = { r' with ttl := ttl } := by
  obtain ⟨r', hr'⟩ := lookupPk_isSome_of_mem (List.mem_reverse.mpr hr)
  have hp : slotPick P R S Z r.publicKey = some r' := by
    unfold slotPick lastWithPk
    unfold lookupPk at hr'
    simp [hr']
  exact ⟨{ r' with ttl := ttl }, (h.mem _).mpr ⟨_, r', hp, rfl⟩, (slotPick_pk hp : r'.publicKey = _), r',
    List.mem_reverse.mp (lookupPk_some_mem hr'), rfl⟩

/-- **The dedupe caveat, explicitly.** A request key whose public key text equals that of a KSK
    record (publish, revoke or sign) does not appear: the entry with that public key text is the
    KSK record. -/
theorem SlotKeys.request_key_with_ksk_pk_dropped {ttl : Int} {P R S Z out : List Key}
    (h : SlotKeys ttl P R S Z out) (z k : Key) (hk : k ∈ P ++ R ++ S)
    (hpk : k.publicKey = z.publicKey) :
    ∀ x ∈ out, x.publicKey = z.publicKey → ∃ k' ∈ P ++ R ++ S, x = { k' with ttl := ttl } := by
  intro x hx hxz
  rcases h.sound x hx with ⟨r, hr, rfl⟩ | ⟨k', hk', rfl, _⟩ | ⟨z', _, rfl, hno⟩
  · exact ⟨r, by simp [hr], rfl⟩
  · refine ⟨k', ?_, rfl⟩
    simp only [List.mem_append] at hk' ⊢
    rcases hk' with h1 | h1
    · exact Or.inl (Or.inl h1)
    · exact Or.inr h1
  · exact absurd (hpk.trans hxz.symm) (hno k hk)

/-- no two records of `l` share a public key text unless they are the same record -/
def PkFunctional (l : List Key) : Prop := ∀ a ∈ l, ∀ b ∈ l, a.publicKey = b.publicKey → a = b

/-- **Exactly the set of the property text**, when a public key text names one record within the
    revoked records, within the publish/sign records and within the request keys: -/
theorem SlotKeys.exact {ttl : Int} {P R S Z out : List Key} (h : SlotKeys ttl P R S Z out)
    (hR : PkFunctional R) (hPS : PkFunctional (P ++ S)) (hZ : PkFunctional Z) (x : Key) :
    x ∈ out ↔
      (∃ r ∈ R, x = { r with ttl := ttl }) ∨
      (∃ k ∈ P ++ S, x = { k with ttl := ttl } ∧ ∀ r ∈ R, r.publicKey ≠ k.publicKey) ∨
      (∃ z ∈ Z, x = { z with ttl := ttl } ∧ ∀ k ∈ P ++ R ++ S, k.publicKey ≠ z.publicKey) := by
  constructor
  · exact h.sound x
  · have none_of : ∀ (l : List Key) (p : String), (∀ y ∈ l, y.publicKey ≠ p) →
        l.find? (fun k => decide (k.publicKey = p)) = none := by
      intro l p hl
      exact lookupPk_eq_none.mpr hl
    have some_of : ∀ (l : List Key), PkFunctional l → ∀ k ∈ l,
        l.find? (fun y => decide (y.publicKey = k.publicKey)) = some k := by
      intro l hl k hk
      obtain ⟨k', hk'⟩ := lookupPk_isSome_of_mem hk
      have := hl k' (lookupPk_some_mem hk') k hk (lookupPk_some_pk hk')
      unfold lookupPk at hk'
      rw [hk', this]
    rintro (⟨r, hr, rfl⟩ | ⟨k, hk, rfl, hno⟩ | ⟨z, hz, rfl, hno⟩)
    · obtain ⟨x, hx, hpk, r', hr', rfl⟩ := h.revoked_in r hr
      have : r' = r := hR r' hr' r hr hpk
      rw [← this]; exact hx
    · refine (h.mem _).mpr ⟨k.publicKey, k, ?_, rfl⟩
      unfold slotPick lastWithPk firstWithPk
      rw [none_of R.reverse k.publicKey (fun y hy => hno y (List.mem_reverse.mp hy)), Option.none_or,
        ← Option.or_assoc, ← List.find?_append, some_of (P ++ S) hPS k hk, Option.some_or]
    · refine (h.mem _).mpr ⟨z.publicKey, z, ?_, rfl⟩
      unfold slotPick lastWithPk firstWithPk
      rw [none_of R.reverse z.publicKey
          (fun y hy => hno y (by simp [List.mem_reverse.mp hy])),
        none_of P z.publicKey (fun y hy => hno y (by simp [hy])),
        none_of S z.publicKey (fun y hy => hno y (by simp [hy])), some_of Z hZ z hz]
      rfl

/-! ### what `_fetch_keys` returns: KSK records in the form the property states -/

/-- `k` is the DNSKEY record of the KSK configured under `name`, as built from the public key text
    `pk` the token attributes encode: flags 257, protocol 3, configured algorithm and TTL, label as
    identifier, RFC 4034 App. B tag over its own RDATA. -/
structure KskRecord (cfg : SignerConfig) (name : String) (pk : String) (k : Key) : Prop where
  configured : ∃ ksk, cfg.kskKeys.lookup name = some ksk ∧ k.keyIdentifier = ksk.label ∧
    k.algorithm = ksk.algorithm
  flags : k.flags = 257
  protocol : k.protocol = 3
  ttl : k.ttl = cfg.kskPolicy.ttl
  publicKey : k.publicKey = pk
  tag : ∃ rd, keyToRdata k = .ok rd ∧ k.keyTag = (C14.rfc4034KeyTag rd : Nat)

theorem kskRecord_of_fetched {cfg : SignerConfig} {name : String} {ck : CompositeKey}
    (h : FetchedAs cfg name ck) :
    ∃ pk, ck.p11.publicKey = some pk ∧ KskRecord cfg name pk ck.dns := by
  obtain ⟨ksk, pk, hl, hpk, hk⟩ := h
  obtain ⟨h1, h2, h3, h4, h5, h6, rd, h7, h8⟩ := publicKeyToDnssecKey_ok hk
  exact ⟨pk, hpk, ⟨ksk, hl, h1, h5⟩, h3, h4, h2, h6, rd, h7, by rw [h8, C14.keyTag_eq_rfc4034]⟩

/-- the fetched keys of one schema list: one per name, each a `KskRecord` of a listed name with the
    public key text the token answered -/
def FetchedFor (cfg : SignerConfig) (names : List String) (cks : List CompositeKey) : Prop :=
  cks.length = names.length ∧
  (∀ ck ∈ cks, ∃ name ∈ names, ∃ pk, ck.p11.publicKey = some pk ∧ KskRecord cfg name pk ck.dns) ∧
  (∀ name ∈ names, ∃ ck ∈ cks, ∃ pk, ck.p11.publicKey = some pk ∧ KskRecord cfg name pk ck.dns)

theorem fetchedFor_of_ok {ext : Externals} {mods : List P11Module} {cfg : SignerConfig} {bundle : Bundle}
    {isPublic : Bool} {names : List String} {t : Token} {s s' : TokState} {cks : List CompositeKey}
    (h : fetchKeys ext mods cfg bundle isPublic names t s = (.ok cks, s')) :
    FetchedFor cfg names cks := by
  obtain ⟨h1, h2, h3⟩ := fetchKeys_ok h
  refine ⟨h3, ?_, ?_⟩
  · intro ck hck
    obtain ⟨n, hn, hf⟩ := h1 ck hck
    exact ⟨n, hn, kskRecord_of_fetched hf⟩
  · intro n hn
    obtain ⟨ck, hck, hf⟩ := h2 n hn
    exact ⟨ck, hck, kskRecord_of_fetched hf⟩

/-- **C02, key set of a slot.** Whenever `signBundle` succeeds — any token, any state — there are
    the schema action of the slot and the keys the three fetches returned such that the response key
    set is `SlotKeys` of them and of the request keys (membership by precedence, all with the
    configured TTL, no public key text twice), and id / inception / expiration are the request's.
    Caveat carried by `SlotKeys.mem` (see `SlotKeys.request_key_with_ksk_pk_dropped`): a request key
    whose public key text equals that of a fetched KSK record is NOT in the set — the KSK record is. -/
theorem signBundle_keys_spec (ext : Externals) (mods : List P11Module) (cfg : SignerConfig) (slot : Nat)
    (bundle rb : Bundle) (tok : Token) (s s' : TokState)
    (h : signBundle ext mods cfg slot bundle tok s = (.ok rb, s')) :
    ∃ act pub rev signing revoked,
      cfg.actions.lookup slot = some act ∧
      FetchedFor cfg act.publish pub ∧ FetchedFor cfg act.revoke rev ∧ FetchedFor cfg act.sign signing ∧
      rev.mapM (fun ck => ck.dns.asRevoked) = .ok revoked ∧
      SlotKeys cfg.kskPolicy.ttl (pub.map (·.dns)) revoked (signing.map (·.dns)) bundle.keys rb.keys ∧
      (∀ x ∈ rb.keys, x.ttl = cfg.kskPolicy.ttl) ∧
      rb.keys.Pairwise (fun a b => a.publicKey ≠ b.publicKey) ∧
      rb.id = bundle.id ∧ rb.inception = bundle.inception ∧ rb.expiration = bundle.expiration := by
  obtain ⟨act, pub, rev, revoked, signing, s1, s2, s3, hact, hpub, hrev, hrevoked, hsign, hkeys, _, hfin⟩ :=
    signBundle_ok h
  obtain ⟨_, hrb, _⟩ := finishBundle_ok hfin
  have hspec := slotFold_spec cfg.kskPolicy.ttl (pub.map (·.dns)) revoked (signing.map (·.dns)) bundle.keys
  rw [← hkeys] at hspec
  refine ⟨act, pub, rev, signing, revoked, hact, fetchedFor_of_ok hpub, fetchedFor_of_ok hrev,
    fetchedFor_of_ok hsign, hrevoked, hspec, hspec.ttl, hspec.unique, ?_, ?_, ?_⟩ <;> rw [hrb]

/-! ## §3 Signatures: exactly one per KSK listed under `sign` -/

/-- **C02, signatures of a slot.** The identifiers of the response signatures are exactly the key
    identifiers (= configured labels) of the keys fetched for `sign`, as a set, and pairwise
    distinct: one signature per KSK even when a name is repeated under `sign`. -/
theorem signBundle_signatures_spec (ext : Externals) (mods : List P11Module) (cfg : SignerConfig)
    (slot : Nat) (bundle rb : Bundle) (tok : Token) (s s' : TokState)
    (h : signBundle ext mods cfg slot bundle tok s = (.ok rb, s')) :
    ∃ act signing, cfg.actions.lookup slot = some act ∧ FetchedFor cfg act.sign signing ∧
      (∀ id, (∃ σ ∈ rb.signatures, σ.keyIdentifier = id) ↔ (∃ ck ∈ signing, ck.dns.keyIdentifier = id)) ∧
      (∀ id, (∃ σ ∈ rb.signatures, σ.keyIdentifier = id) ↔
        (∃ name ∈ act.sign, ∃ ksk, cfg.kskKeys.lookup name = some ksk ∧ ksk.label = id)) ∧
      rb.signatures.Pairwise (fun a b => a.keyIdentifier ≠ b.keyIdentifier) := by
  obtain ⟨act, pub, rev, revoked, signing, s1, s2, s3, hact, _, _, _, hsign, _, hsigs, _⟩ := signBundle_ok h
  obtain ⟨new, e, h1, h2, h3, _⟩ := signAll_ok hsigs
  simp only [List.nil_append] at e
  subst e
  have hff := fetchedFor_of_ok hsign
  have hset : ∀ id, (∃ σ ∈ rb.signatures, σ.keyIdentifier = id) ↔ (∃ ck ∈ signing, ck.dns.keyIdentifier = id) := by
    intro id
    constructor
    · rintro ⟨σ, hσ, rfl⟩
      obtain ⟨sk, hsk, sa, sb, hrun⟩ := h1 σ hσ
      exact ⟨sk, hsk, (signKeys_ok_id hrun).1.symm⟩
    · rintro ⟨ck, hck, rfl⟩
      exact h2 ck hck
  refine ⟨act, signing, hact, hff, hset, ?_, h3 List.Pairwise.nil⟩
  intro id
  rw [hset id]
  constructor
  · rintro ⟨ck, hck, rfl⟩
    obtain ⟨name, hn, pk, _, hrec⟩ := hff.2.1 ck hck
    obtain ⟨ksk, hl, hid, _⟩ := hrec.configured
    exact ⟨name, hn, ksk, hl, hid.symm⟩
  · rintro ⟨name, hn, ksk, hl, rfl⟩
    obtain ⟨ck, hck, pk, _, hrec⟩ := hff.2.2 name hn
    obtain ⟨ksk', hl', hid, _⟩ := hrec.configured
    rw [hl] at hl'
    cases hl'
    exact ⟨ck, hck, hid⟩

/-! ## §4 Algorithm sets -/

/-- **Refusal.** Once the fetches and the signing loop have answered (whatever the token answered),
    if the set of algorithm numbers of the request keys differs from that of the signatures made,
    the outcome is `CreateSignatureError` — no bundle is returned. -/
theorem alg_mismatch_refused (ext : Externals) (mods : List P11Module) (cfg : SignerConfig) (slot : Nat)
    (bundle : Bundle) (tok : Token) (s s1 s2 s3 s4 : TokState) (act : SchemaAction)
    (pub rev signing : List CompositeKey) (revoked : List Key) (sigs : List Signature)
    (hact : cfg.actions.lookup slot = some act)
    (hpub : fetchKeys ext mods cfg bundle true act.publish tok s = (.ok pub, s1))
    (hrev : fetchKeys ext mods cfg bundle true act.revoke tok s1 = (.ok rev, s2))
    (hrevoked : rev.mapM (fun ck => ck.dns.asRevoked) = .ok revoked)
    (hsign : fetchKeys ext mods cfg bundle false act.sign tok s2 = (.ok signing, s3))
    (hsigs : signAll ext bundle
      (slotFold cfg.kskPolicy.ttl (pub.map (·.dns)) revoked (signing.map (·.dns)) bundle.keys)
      cfg.kskPolicy signing [] tok s3 = (.ok sigs, s4))
    (hne : ¬ ∀ a, a ∈ bundle.keys.map (·.algorithm) ↔ a ∈ sigs.map (·.algorithm)) :
    signBundle ext mods cfg slot bundle tok s = (.error (.error .createSignature), s4) := by
  rw [signBundle_run hact hpub hrev hrevoked hsign hsigs]
  have : sameSet (bundle.keys.map (·.algorithm)) (sigs.map (·.algorithm)) = false := by
    rw [Bool.eq_false_iff]
    intro hs
    exact hne ((sameSet_iff _ _).mp hs)
  simp [finishBundle, this, err]

/-- **Agreement.** A returned bundle has the same set of algorithm numbers among the request keys and
    among its signatures. -/
theorem signBundle_ok_algs (ext : Externals) (mods : List P11Module) (cfg : SignerConfig) (slot : Nat)
    (bundle rb : Bundle) (tok : Token) (s s' : TokState)
    (h : signBundle ext mods cfg slot bundle tok s = (.ok rb, s')) :
    ∀ a, a ∈ bundle.keys.map (·.algorithm) ↔ a ∈ rb.signatures.map (·.algorithm) := by
  obtain ⟨act, pub, rev, revoked, signing, s1, s2, s3, _, _, _, _, _, _, _, hfin⟩ := signBundle_ok h
  exact (sameSet_iff _ _).mp (finishBundle_ok hfin).1

/-! ## §5 Header, slot numbering, KSK policy -/

/-- **C02, response assembly.** For every request (any number of bundles): the header echoes the
    request, no timestamp, as many bundles as requested, bundle `i` is the result of `signBundle` for
    slot `i + 1` on request bundle `i` (so §2–§4 apply to it), the six KSK policy durations are the
    configured ones, and the stated algorithm set is exactly the set of algorithm policies of all
    published keys (each listed once). -/
theorem createSkr_header (ext : Externals) (mods : List P11Module) (cfg : SignerConfig) (req : Request)
    (resp : Response) (tok : Token) (s s' : TokState)
    (h : createSkr ext mods cfg req tok s = (.ok resp, s')) :
    resp.id = req.id ∧ resp.serial = req.serial ∧ resp.domain = req.domain ∧
    resp.zskPolicy = req.zskPolicy ∧ resp.timestamp = none ∧
    resp.bundles.length = req.bundles.length ∧
    (∀ i b, req.bundles[i]? = some b → ∃ rb s1 s2, resp.bundles[i]? = some rb ∧
      signBundle ext mods cfg (i + 1) b tok s1 = (.ok rb, s2)) ∧
    resp.kskPolicy.publishSafety = cfg.kskPolicy.signaturePolicy.publishSafety ∧
    resp.kskPolicy.retireSafety = cfg.kskPolicy.signaturePolicy.retireSafety ∧
    resp.kskPolicy.maxSignatureValidity = cfg.kskPolicy.signaturePolicy.maxSignatureValidity ∧
    resp.kskPolicy.minSignatureValidity = cfg.kskPolicy.signaturePolicy.minSignatureValidity ∧
    resp.kskPolicy.maxValidityOverlap = cfg.kskPolicy.signaturePolicy.maxValidityOverlap ∧
    resp.kskPolicy.minValidityOverlap = cfg.kskPolicy.signaturePolicy.minValidityOverlap ∧
    (∀ a, a ∈ resp.kskPolicy.algorithms ↔
      ∃ b ∈ resp.bundles, ∃ k ∈ b.keys, algorithmPolicyOfKey k = .ok a) ∧
    resp.kskPolicy.algorithms.Nodup := by
  unfold createSkr at h
  obtain ⟨bundles, s1, hb, h⟩ := TokM.bind_ok _ _ _ _ _ _ h
  obtain ⟨kp, hkp, h⟩ := (TokM.lift_bind_ok_iff _ _ _ _ _ _).mp h
  simp only [TokM.pure_run, Prod.mk.injEq, Except.ok.injEq] at h
  obtain ⟨rfl, rfl⟩ := h
  unfold signBundles at hb
  obtain ⟨hlen, hpos⟩ := signBundlesFrom_ok hb
  obtain ⟨k1, k2, k3, k4, k5, k6, k7, k8, _⟩ := kskSignaturePolicy_ok hkp
  refine ⟨rfl, rfl, rfl, rfl, rfl, hlen, ?_, k1, k2, k3, k4, k5, k6, k7, k8⟩
  intro i b hib
  obtain ⟨rb, sa, sb, h1, h2⟩ := hpos i b hib
  exact ⟨rb, sa, sb, h1, by rw [Nat.add_comm]; exact h2⟩

/-! ## §6 The form of a revoked key -/

/-- **Revoked form.** A KSK record listed under `revoke` enters the set with flags
    `setRevokeBit 257 = 385`, the RFC 4034 App. B tag recomputed over its own (new) RDATA, and label,
    TTL, protocol, algorithm and public key text unchanged. -/
theorem revoked_key_form (cfg : SignerConfig) (name pk : String) (k r : Key)
    (hk : KskRecord cfg name pk k) (hr : k.asRevoked = .ok r) :
    r.flags = 385 ∧ setRevokeBit 257 = 385 ∧
    r.keyIdentifier = k.keyIdentifier ∧ r.ttl = cfg.kskPolicy.ttl ∧ r.protocol = 3 ∧
    r.algorithm = k.algorithm ∧ r.publicKey = pk ∧
    ∃ rd, keyToRdata r = .ok rd ∧ r.keyTag = (C14.rfc4034KeyTag rd : Nat) := by
  obtain ⟨rd, h1, _, h3, h4, h5, h6, h7, h8, h9⟩ := C14.revoke_sets_only_bit_and_retags k r hr
  refine ⟨?_, by decide, h3, by rw [h4, hk.ttl], by rw [h5, hk.protocol], h6, by rw [h7, hk.publicKey],
    rd, h8, h9⟩
  rw [h1, hk.flags]
  decide

/-- every record of the revoked list of a successful slot has that form, for a name listed under
    `revoke`, and is published (last one per public key text) -/
theorem signBundle_revoked_published (ext : Externals) (mods : List P11Module) (cfg : SignerConfig)
    (slot : Nat) (bundle rb : Bundle) (tok : Token) (s s' : TokState)
    (h : signBundle ext mods cfg slot bundle tok s = (.ok rb, s')) :
    ∃ act, ∃ revoked : List Key, cfg.actions.lookup slot = some act ∧
      (∀ r ∈ revoked, ∃ name ∈ act.revoke, ∃ pk k, KskRecord cfg name pk k ∧ k.asRevoked = .ok r) ∧
      (∀ name ∈ act.revoke, ∃ r ∈ revoked, ∃ pk k, KskRecord cfg name pk k ∧ k.asRevoked = .ok r) ∧
      (∀ r ∈ revoked, ∃ x ∈ rb.keys, x ∈ revoked ∧ x.publicKey = r.publicKey) := by
  obtain ⟨act, pub, rev, signing, revoked, hact, _, hrev, _, hrevoked, hspec, _⟩ :=
    signBundle_keys_spec ext mods cfg slot bundle rb tok s s' h
  obtain ⟨hm, _, hall⟩ := mapM_ok_mem _ _ _ hrevoked
  have hform : ∀ r ∈ revoked, ∃ name ∈ act.revoke, ∃ pk k, KskRecord cfg name pk k ∧ k.asRevoked = .ok r := by
    intro r hr
    obtain ⟨ck, hck, hrk⟩ := (hm r).mp hr
    obtain ⟨name, hn, pk, _, hrec⟩ := hrev.2.1 ck hck
    exact ⟨name, hn, pk, ck.dns, hrec, hrk⟩
  refine ⟨act, revoked, hact, hform, ?_, ?_⟩
  · intro name hn
    obtain ⟨ck, hck, pk, _, hrec⟩ := hrev.2.2 name hn
    obtain ⟨r, hrk⟩ := hall ck hck
    exact ⟨r, (hm r).mpr ⟨ck, hck, hrk⟩, pk, ck.dns, hrec, hrk⟩
  · intro r hr
    obtain ⟨x, hx, hpk, r', hr', rfl⟩ := hspec.revoked_in r hr
    obtain ⟨name, _, pk, k, hrec, hrk⟩ := hform r' hr'
    have httl : r'.ttl = cfg.kskPolicy.ttl := (revoked_key_form cfg name pk k r' hrec hrk).2.2.2.1
    rw [withTtl_self _ _ httl] at hx
    exact ⟨r', hx, hr', hpk⟩

/-! ## §7 Non-vacuity: small concrete instances -/

section Examples

private def kP : Key := ⟨"ksk-next", 1, 172800, 257, 3, 8, "AAAA"⟩
private def kC : Key := ⟨"ksk-current", 2, 172800, 257, 3, 8, "BBBB"⟩
private def kCrev : Key := ⟨"ksk-current", 130, 172800, 385, 3, 8, "BBBB"⟩
private def z1 : Key := ⟨"zsk-1", 3, 3600, 256, 3, 8, "CCCC"⟩
private def zClash : Key := ⟨"zsk-clash", 4, 3600, 256, 3, 8, "AAAA"⟩

/-- the `revoke` schema slot of the example configuration: publish next + current, revoke current,
    sign with current and next; one honest ZSK and one request key clashing with a KSK -/
example : slotFold 172800 [kP, kC] [kCrev] [kC, kP] [z1, zClash]
    = [kP, kCrev, { z1 with ttl := 172800 }] := by decide

example : slotPick [kP, kC] [kCrev] [kC, kP] [z1, zClash] "BBBB" = some kCrev := by decide
example : slotPick [kP, kC] [kCrev] [kC, kP] [z1, zClash] "AAAA" = some kP := by decide
example : PkFunctional [kCrev] ∧ PkFunctional ([kP, kC] ++ [kC, kP]) ∧ PkFunctional [z1] := by
  refine ⟨?_, ?_, ?_⟩ <;> unfold PkFunctional <;> decide

example : sameSet [8, 8] [8] = true ∧ sameSet [8, 13] [8] = false := by decide

end Examples

end Kskm.C02
