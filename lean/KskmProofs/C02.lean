/-
  C02 — the SKR contains exactly what the KSR and the signing schema dictate.
-/
import Kskm.Signer
import KskmProofs.Lemmas.TokM
namespace Kskm.C02

/-- every key entering the signed set carries the configured TTL afterwards, if all did before -/
theorem ktsAdd_ttl (ttl : Int) (keys : List Key) (k : Key) (h : ∀ x ∈ keys, x.ttl = ttl) :
    ∀ x ∈ ktsAdd ttl keys k, x.ttl = ttl := by
  intro x hx
  unfold ktsAdd at hx
  split at hx
  · exact h x hx
  · rcases List.mem_append.mp hx with h1 | h1
    · exact h x h1
    · simp only [List.mem_singleton] at h1
      subst h1
      split <;> simp_all

end Kskm.C02
