/-
  C18 — the exported trust anchor states the true DS of each configured KSK on the token.

  The theorems are about `trustanchor` of Kskm/TrustAnchor.lean and hold for EVERY token oracle `tok`
  (a healthy device, a faulty one, one holding foreign keys), every hash function, every
  configuration and every argument vector.

  Vocabulary.
    * `Lookups mods tok ksks s rs s'` (Lemmas/C18Run.lean): in this run, `rs[i]` is what
      `get_p11_key(ksks[i].label, public=True)` returned against the token, in configuration order.
    * `usablePk r`: the public-key text of a lookup result — nothing for an absent key, an object
      without public key, an empty key.  "Present on the token" = `usablePk rs[i] = some pk`.
    * `IsTrueDS ext ksk pk d` (below): the SPECIFICATION of one entry, written from RFC 4034 App. B
      (key tag), RFC 4034 §5.1.4 / RFC 4509 (DS digest over owner name ‖ RDATA, digest type 2) and
      RFC 7958 (id, validity) — in terms of `C14.rfc4034KeyTag` and the RDATA layout theorem of C14,
      not of the model's own functions.
    * `pk` is the key text the token lookup produced (C15's subject).  For RSA it is the RFC 3110
      form; for ECDSA the code keeps the SEC 1 `0x04` octet (DESIGN §5 F4), so `pk` — and therefore
      the exported DS — is that of the prefixed point: the theorems are about the DS of THE KEY TEXT
      THE TOOLS PUBLISH, and the harness reports the ECDSA difference to the RFC 6605 form.
-/
import KskmProofs.Lemmas.C18Run
import KskmProofs.Lemmas.C18Render
import KskmProofs.Lemmas.C18Read
import KskmProofs.C14
namespace Kskm.C18

/-! ## Specification of one exported entry -/

/-- **The true DS entry** of configured KSK `ksk` whose key on the token has public-key text `pk`:
    id = label; algorithm = configured algorithm; key tag = RFC 4034 App. B tag of the DNSKEY RDATA
    with flags 257, protocol 3; digest = SHA-256 over 0x00 (the root's owner name) ‖ that RDATA, digest
    type 2; validity as configured. -/
def IsTrueDS (ext : Externals) (ksk : KskKey) (pk : String) (d : KeyDigest) : Prop :=
  ∃ pkb, Base64.decode pk = some pkb ∧
    d.id = ksk.label ∧ d.algorithm = ksk.algorithm ∧ d.digestType = 2 ∧
    d.keyTag = (C14.rfc4034KeyTag (rdataOf 257 3 ksk.algorithm pkb) : Nat) ∧
    ext.hash .sha256 (0 :: rdataOf 257 3 ksk.algorithm pkb) = some d.digest ∧
    d.validFrom = ksk.validFrom ∧ d.validUntil = ksk.validUntil

/-- configured KSK number `i` is present on the token with public-key text `pk` in this run -/
def PresentAt (ksks : List KskKey) (rs : List (Option P11Key)) (i : Nat) (ksk : KskKey) (pk : String) : Prop :=
  ksks[i]? = some ksk ∧ ∃ r, rs[i]? = some r ∧ usablePk r = some pk

/-- the configured KSKs, in configuration order -/
def configured (cfg : TaConfig) : List KskKey := cfg.kskKeys.map (·.2)

theorem mem_zip_iff (ksks : List KskKey) (rs : List (Option P11Key)) (ksk : KskKey) (pk : String) :
    (ksk, some pk) ∈ ksks.zip (rs.map usablePk) ↔ ∃ i, PresentAt ksks rs i ksk pk := by
  simp only [List.mem_iff_getElem?, List.getElem?_zip_eq_some, List.getElem?_map, PresentAt]
  constructor
  · rintro ⟨i, h1, h2⟩
    cases hr : rs[i]? with
    | none => simp [hr] at h2
    | some r => exact ⟨i, h1, r, hr, by simpa [hr] using h2⟩
  · rintro ⟨i, h1, r, hr, hu⟩
    exact ⟨i, h1, by simp [hr, hu]⟩

theorem digestFor_isTrueDS {ext : Externals} {ttl : Int} {ksk : KskKey} {pk : String} {d : KeyDigest}
    (h : digestFor ext ttl ksk pk = .ok d) : IsTrueDS ext ksk pk d := by
  obtain ⟨_, pkb, hdec, hid, hal, hdt, hvf, hvu, htag, hdg⟩ := digestFor_ok h
  exact ⟨pkb, hdec, hid, hal, hdt, by rw [htag, C14.keyTag_eq_rfc4034], hdg, hvf, hvu⟩

/-- the specification determines the entry -/
theorem isTrueDS_unique {ext : Externals} {ksk : KskKey} {pk : String} {d₁ d₂ : KeyDigest}
    (h₁ : IsTrueDS ext ksk pk d₁) (h₂ : IsTrueDS ext ksk pk d₂) : d₁ = d₂ := by
  obtain ⟨b₁, e₁, i₁, a₁, t₁, k₁, g₁, f₁, u₁⟩ := h₁
  obtain ⟨b₂, e₂, i₂, a₂, t₂, k₂, g₂, f₂, u₂⟩ := h₂
  have hb : b₁ = b₂ := by rw [e₁] at e₂; exact Option.some.inj e₂
  subst hb
  rw [g₁] at g₂
  have hg : d₁.digest = d₂.digest := Option.some.inj g₂
  cases d₁; cases d₂
  simp_all

/-! ## The run -/

/-- **Anatomy of a successful run**: the modules were initialised, every configured KSK was looked up
    once, in configuration order, and the exported set is exactly the true DS entries of those that
    are present — without duplicates. -/
theorem run_anatomy (ext : Externals) (args : TaArgs) (cfg : TaConfig) (tok : Token) (s s' : TokState)
    (res : TaResult) (h : trustanchor ext args cfg tok s = (.ok res, s')) :
    ∃ mods s1 rs,
      initPkcs11Modules cfg.hsm args.hsm cfg.typedPin cfg.hsm tok s = (.ok mods, s1) ∧
      Lookups mods tok (configured cfg) s1 rs s' ∧
      res.ta.keyDigests.Nodup ∧
      ∀ d, d ∈ res.ta.keyDigests ↔
        ∃ i ksk pk, PresentAt (configured cfg) rs i ksk pk ∧ digestFor ext cfg.ttl ksk pk = .ok d := by
  unfold trustanchor at h
  obtain ⟨mods, s1, hinit, h⟩ := TokM.bind_ok _ _ _ _ _ _ h
  obtain ⟨ds, s2, hloop, h⟩ := TokM.bind_ok _ _ _ _ _ _ h
  obtain ⟨rs, hl, hc⟩ := taLoop_ok ext mods cfg.ttl tok _ _ _ _ _ hloop
  have hres : res.ta.keyDigests = ds ∧ s' = s2 := by
    dsimp only at h
    cases hf : trustanchorFilename args cfg <;>
      (simp only [hf, TokM.pure_run, Prod.mk.injEq, Except.ok.injEq] at h
       obtain ⟨rfl, rfl⟩ := h
       exact ⟨rfl, rfl⟩)
  obtain ⟨hds, rfl⟩ := hres
  refine ⟨mods, s1, rs, hinit, hl, ?_, ?_⟩
  · rw [hds]; exact collect_nodup ext cfg.ttl _ _ _ hc List.nodup_nil
  · intro d
    rw [hds, collect_mem ext cfg.ttl _ _ _ hc d]
    simp only [List.not_mem_nil, false_or]
    constructor
    · rintro ⟨ksk, pk, hm, hd⟩
      obtain ⟨i, hp⟩ := (mem_zip_iff _ _ _ _).mp hm
      exact ⟨i, ksk, pk, hp, hd⟩
    · rintro ⟨i, ksk, pk, hp, hd⟩
      exact ⟨ksk, pk, (mem_zip_iff _ _ _ _).mpr ⟨i, hp⟩, hd⟩

/-- **One digest per present key.** For every token: when the export succeeds, every configured KSK
    present on the token (its lookup returned a key with a public key) has its true DS entry in the
    exported set, and the set holds no entry twice. -/
theorem one_digest_per_present_key (ext : Externals) (args : TaArgs) (cfg : TaConfig) (tok : Token)
    (s s' : TokState) (res : TaResult) (h : trustanchor ext args cfg tok s = (.ok res, s')) :
    ∃ mods s1 rs, initPkcs11Modules cfg.hsm args.hsm cfg.typedPin cfg.hsm tok s = (.ok mods, s1) ∧
      Lookups mods tok (configured cfg) s1 rs s' ∧ res.ta.keyDigests.Nodup ∧
      ∀ i ksk pk, PresentAt (configured cfg) rs i ksk pk →
        ∃ d ∈ res.ta.keyDigests, IsTrueDS ext ksk pk d ∧ ∀ d', IsTrueDS ext ksk pk d' → d' = d := by
  obtain ⟨mods, s1, rs, hinit, hl, hn, hm⟩ := run_anatomy ext args cfg tok s s' res h
  refine ⟨mods, s1, rs, hinit, hl, hn, ?_⟩
  intro i ksk pk hp
  -- the loop did not fail, so the digest for this present key was built
  have : ∃ d, digestFor ext cfg.ttl ksk pk = .ok d := by
    unfold trustanchor at h
    obtain ⟨mods', s1', hinit', h⟩ := TokM.bind_ok _ _ _ _ _ _ h
    obtain ⟨ds, s2, hloop, _⟩ := TokM.bind_ok _ _ _ _ _ _ h
    rw [hinit] at hinit'
    obtain ⟨rfl, rfl⟩ : mods = mods' ∧ s1 = s1' := by simpa using hinit'
    -- collect succeeded on a list containing (ksk, some pk)
    obtain ⟨rs', hl', hc⟩ := taLoop_ok ext mods cfg.ttl tok _ _ _ _ _ hloop
    have hrs : rs' = rs := by
      clear hc hm hp hn
      have key : ∀ ksks s rs rs' sa sb, Lookups mods tok ksks s rs sa → Lookups mods tok ksks s rs' sb → rs' = rs := by
        intro ksks
        induction ksks with
        | nil => intro s rs rs' sa sb h1 h2; cases h1; cases h2; rfl
        | cons k r ih =>
          intro s rs rs' sa sb h1 h2
          cases h1 with
          | cons g1 l1 =>
            cases h2 with
            | cons g2 l2 =>
              rw [g1] at g2
              simp only [Prod.mk.injEq, Except.ok.injEq] at g2
              obtain ⟨rfl, rfl⟩ := g2
              rw [ih _ _ _ _ _ l1 l2]
      exact key _ _ _ _ _ _ hl hl'
    subst hrs
    have hmem := (mem_zip_iff (configured cfg) rs' ksk pk).mpr ⟨i, hp⟩
    have succ : ∀ (l : List (KskKey × Option String)) (acc ds : List KeyDigest), collect ext cfg.ttl l acc = .ok ds →
        (ksk, some pk) ∈ l → ∃ d, digestFor ext cfg.ttl ksk pk = .ok d := by
      intro l
      induction l with
      | nil => intro _ _ _ hm; simp at hm
      | cons p r ih =>
        intro acc ds hc hm
        obtain ⟨k, o⟩ := p
        cases o with
        | none =>
          simp only [collect] at hc
          rcases List.mem_cons.mp hm with he | hm
          · simp at he
          · exact ih _ _ hc hm
        | some q =>
          simp only [collect, bind, Except.bind] at hc
          cases hd : digestFor ext cfg.ttl k q with
          | error e => simp [hd] at hc
          | ok d0 =>
            rw [hd] at hc
            rcases List.mem_cons.mp hm with he | hm
            · simp only [Prod.mk.injEq, Option.some.injEq] at he
              obtain ⟨rfl, rfl⟩ := he
              exact ⟨d0, hd⟩
            · exact ih _ _ hc hm
    exact succ _ _ _ hc hmem
  obtain ⟨d, hd⟩ := this
  have hspec := digestFor_isTrueDS hd
  exact ⟨d, (hm d).mpr ⟨i, ksk, pk, hp, hd⟩, hspec, fun d' h' => isTrueDS_unique h' hspec⟩

/-- **Absent keys are omitted; unconfigured keys are never exported.** For every token: every exported
    entry is the true DS entry of a CONFIGURED KSK whose lookup returned a key with a public key.  In
    particular its id is a configured label, and a configured label none of whose entries is present
    on the token appears nowhere in the document. -/
theorem unconfigured_never_exported (ext : Externals) (args : TaArgs) (cfg : TaConfig) (tok : Token)
    (s s' : TokState) (res : TaResult) (h : trustanchor ext args cfg tok s = (.ok res, s')) :
    ∃ mods s1 rs, initPkcs11Modules cfg.hsm args.hsm cfg.typedPin cfg.hsm tok s = (.ok mods, s1) ∧
      Lookups mods tok (configured cfg) s1 rs s' ∧
      ∀ d ∈ res.ta.keyDigests, ∃ i ksk pk, PresentAt (configured cfg) rs i ksk pk ∧ IsTrueDS ext ksk pk d ∧
        ksk ∈ configured cfg ∧ d.id = ksk.label := by
  obtain ⟨mods, s1, rs, hinit, hl, _, hm⟩ := run_anatomy ext args cfg tok s s' res h
  refine ⟨mods, s1, rs, hinit, hl, ?_⟩
  intro d hd
  obtain ⟨i, ksk, pk, hp, hdf⟩ := (hm d).mp hd
  have hspec := digestFor_isTrueDS hdf
  obtain ⟨_, _, hid, _⟩ := hspec
  exact ⟨i, ksk, pk, hp, digestFor_isTrueDS hdf, List.mem_of_getElem? hp.1, hid⟩

theorem absent_keys_omitted (ext : Externals) (args : TaArgs) (cfg : TaConfig) (tok : Token)
    (s s' : TokState) (res : TaResult) (h : trustanchor ext args cfg tok s = (.ok res, s')) :
    ∃ mods s1 rs, initPkcs11Modules cfg.hsm args.hsm cfg.typedPin cfg.hsm tok s = (.ok mods, s1) ∧
      Lookups mods tok (configured cfg) s1 rs s' ∧
      ∀ label : String,
        (∀ (i : Nat) (ksk : KskKey) (r : Option P11Key), (configured cfg)[i]? = some ksk → ksk.label = label → rs[i]? = some r → usablePk r = none) →
        ∀ d ∈ res.ta.keyDigests, d.id ≠ label := by
  obtain ⟨mods, s1, rs, hinit, hl, hex⟩ := unconfigured_never_exported ext args cfg tok s s' res h
  refine ⟨mods, s1, rs, hinit, hl, ?_⟩
  intro label habs d hd hid
  obtain ⟨i, ksk, pk, ⟨hk, r, hr, hu⟩, _, _, hlab⟩ := hex d hd
  have := habs i ksk r hk (by rw [← hlab, hid]) hr
  rw [this] at hu
  cases hu

/-- **The digest is the RFC value**, spelled out: the entry's key tag is the RFC 4034 Appendix B
    checksum of the octets `flags(257, network order) ‖ 3 ‖ algorithm ‖ key`, and its digest is the hash
    of `0x00 ‖` those octets, digest type 2, algorithm as configured. -/
theorem digest_is_rfc (ext : Externals) (ksk : KskKey) (pk : String) (d : KeyDigest)
    (h : IsTrueDS ext ksk pk d) (ha : ksk.algorithm < 256) :
    ∃ (pkb : Bytes) (f1 f0 pb ab : UInt8), Base64.decode pk = some pkb ∧
      f1.toNat * 256 + f0.toNat = 257 ∧ pb.toNat = 3 ∧ ab.toNat = ksk.algorithm ∧
      d.keyTag = (C14.rfc4034KeyTag (f1 :: f0 :: pb :: ab :: pkb) : Nat) ∧
      ext.hash .sha256 (0 :: f1 :: f0 :: pb :: ab :: pkb) = some d.digest ∧
      d.digestType = 2 ∧ d.algorithm = ksk.algorithm := by
  obtain ⟨pkb, hdec, _, hal, hdt, htag, hdg, _, _⟩ := h
  obtain ⟨f1, f0, pb, ab, hlay, hf, hp, hab⟩ := C14.rdata_layout 257 3 ksk.algorithm pkb (by omega) (by omega) ha
  rw [hlay] at htag hdg
  exact ⟨pkb, f1, f0, pb, ab, hdec, hf, hp, hab, htag, hdg, hdt, hal⟩

/-- **Validity is echoed**: validFrom / validUntil of an entry are the configured values. -/
theorem validity_echoed (ext : Externals) (ksk : KskKey) (pk : String) (d : KeyDigest)
    (h : IsTrueDS ext ksk pk d) : d.validFrom = ksk.validFrom ∧ d.validUntil = ksk.validUntil := by
  obtain ⟨_, _, _, _, _, _, _, hf, hu⟩ := h
  exact ⟨hf, hu⟩

/-! ## What the exporter asks of the token -/

/-- **Only configured labels are queried; nothing is signed, generated or destroyed.**  For every
    token and whatever the outcome (success, exception at any point): every operation the exporter
    issued is session set-up, an attribute read, or a lookup of the PUBLIC object of a configured label. -/
theorem only_configured_labels_queried (ext : Externals) (args : TaArgs) (cfg : TaConfig) (tok : Token)
    (s : TokState) :
    ∃ l : List (TokOp × TokAns), (trustanchor ext args cfg tok s).2.log = l ++ s.log ∧
      ∀ e ∈ l, IsTaOp ((configured cfg).map (fun k : KskKey => k.label)) e.1 := by
  obtain ⟨l, hl, _, hp⟩ := trustanchor_emits ext args cfg tok s
  refine ⟨l, hl, ?_⟩
  intro e he
  have := hp e he
  simpa [configured, List.map_map, Function.comp_def] using this

/-- is this a private-key operation or a write to the token -/
def touchesToken : TokOp → Bool
  | .sign .. => true
  | .generateKeyPair .. => true
  | .destroyObject .. => true
  | _ => false

theorem no_private_key_operation_no_token_write (ext : Externals) (args : TaArgs) (cfg : TaConfig)
    (tok : Token) (s : TokState) :
    ∃ l : List (TokOp × TokAns), (trustanchor ext args cfg tok s).2.log = l ++ s.log ∧
      ∀ e ∈ l, touchesToken e.1 = false := by
  obtain ⟨l, hl, hp⟩ := only_configured_labels_queried ext args cfg tok s
  refine ⟨l, hl, ?_⟩
  intro e he
  have := hp e he
  cases hop : e.1 <;> simp_all [IsTaOp, touchesToken]

/-! ## Order and rendering -/

/-- **Entries are sorted by validFrom**: the rendered entries are the `to_xml` snippets of the exported
    set, each exactly once, in non-decreasing order of validFrom. -/
theorem entries_sorted (ta : TrustAnchorDoc) :
    ∃ order : List KeyDigest, ta.entries = order.map KeyDigest.toXml ∧ order.Perm ta.keyDigests ∧
      order.Pairwise (fun a b => a.validFrom ≤ b.validFrom) :=
  ⟨sortDigests ta.keyDigests, rfl, (sortDigests_sorted _).2, (sortDigests_sorted _).1⟩

/-- **The iteration order of the Python set does not matter** beyond ties: two orders of the same set
    give rendered entries that are permutations of each other, both sorted; when the validFrom values
    are pairwise different the documents are identical. -/
theorem order_independent (ta₁ ta₂ : TrustAnchorDoc) (hp : ta₁.keyDigests.Perm ta₂.keyDigests) :
    ta₁.entries.Perm ta₂.entries ∧
    (ta₁.keyDigests.Pairwise (fun a b => a.validFrom ≠ b.validFrom) → ta₁.entries = ta₂.entries) := by
  have h1 := sortDigests_sorted ta₁.keyDigests
  have h2 := sortDigests_sorted ta₂.keyDigests
  have hperm : (sortDigests ta₁.keyDigests).Perm (sortDigests ta₂.keyDigests) := h1.2.trans (hp.trans h2.2.symm)
  refine ⟨hperm.map _, ?_⟩
  intro hd
  unfold TrustAnchorDoc.entries
  congr 1
  apply List.Perm.eq_of_pairwise (le := fun a b : KeyDigest => a.validFrom ≤ b.validFrom) _ h1.1 h2.1 hperm
  intro a b ha hb hab hba
  have ha' : a ∈ ta₁.keyDigests := h1.2.mem_iff.mp ha
  have hb' : b ∈ ta₁.keyDigests := hp.mem_iff.mpr (h2.2.mem_iff.mp hb)
  have heq : a.validFrom = b.validFrom := by omega
  -- distinct elements of the set have different validFrom
  by_cases hne : a = b
  · exact hne
  · exact absurd heq (pairwise_ne_of_mem hd ha' hb' hne)

/-- **Document shape and the single write**: a successful run hands exactly one document to exactly one
    place — the file named by `--trustanchor` (else `filenames.output_trustanchor`), or stdout — and the
    document is declaration, header (id, source, zone "."), the sorted entries, footer. -/
theorem document_shape (ext : Externals) (args : TaArgs) (cfg : TaConfig) (tok : Token) (s s' : TokState)
    (res : TaResult) (h : trustanchor ext args cfg tok s = (.ok res, s')) :
    res.ta.zone = "." ∧ res.ta.source = taSource ∧ res.ta.id = (truthyStr args.id).getD args.uuid ∧
    (match trustanchorFilename args cfg with
     | some path => res.output = .file path res.ta.toXmlDoc
     | none => res.output = .stdout (res.ta.toXmlDoc ++ "\n")) ∧
    res.ta.toXmlDoc = xmlDeclLine ++ (res.ta.header ++ String.join res.ta.entries ++ taFooter) := by
  unfold trustanchor at h
  obtain ⟨mods, s1, _, h⟩ := TokM.bind_ok _ _ _ _ _ _ h
  obtain ⟨ds, s2, _, h⟩ := TokM.bind_ok _ _ _ _ _ _ h
  dsimp only at h
  cases hf : trustanchorFilename args cfg with
  | none =>
    simp only [hf, TokM.pure_run, Prod.mk.injEq, Except.ok.injEq] at h
    obtain ⟨rfl, _⟩ := h
    exact ⟨rfl, rfl, rfl, rfl, rfl⟩
  | some p =>
    simp only [hf, TokM.pure_run, Prod.mk.injEq, Except.ok.injEq] at h
    obtain ⟨rfl, _⟩ := h
    exact ⟨rfl, rfl, rfl, rfl, rfl⟩

/-! ### The document as the rendering of a plain element tree (`Xml`, `render`, `docTree`: Lemmas/C18Render.lean) -/

/-- **Rendering (partial).**  The exported document is the XML declaration followed by the plain
    serialisation of an element tree `TrustAnchor[id, source](Zone, KeyDigest[id, validFrom, validUntil?]
    (KeyTag, Algorithm, DigestType, Digest) …)`; no text of the document comes from anywhere else.
    Attribute values are written WITHOUT escaping, so the tree is the document's meaning only when the
    identifier (and the configured labels, which the configuration loader restricts to `\w` characters)
    need none: hypothesis `AttrSafe`.

    PARTIAL because "well-formed" is stated as "is the plain serialisation of a tree whose free-text
    attribute values need no escaping", not against an XML grammar.  The full statement — a reader written
    from the XML 1.0 productions reads the document and obtains this tree — is `C18_document_wellformed`
    below; this theorem is kept as the first half of its proof.  The hypothesis is necessary:
    `unescaped_id_witness` below. -/
theorem rendering_wellformed_partial (ta : TrustAnchorDoc) (_hid : AttrSafe ta.id)
    (_hlabels : ∀ d ∈ ta.keyDigests, AttrSafe d.id) :
    ta.toXmlDoc = xmlDeclLine ++ (docTree ta).render :=
  toXmlDoc_eq_render ta

/-- the boundary (DESIGN §5, "--id is written into the attribute unescaped"): with the identifier
    `a"b` the document's first attribute value ends after `a` — the text is not the serialisation of a
    tree whose `id` is `a"b`.  Replayed on the implementation by the harness (variant boundary-id). -/
theorem unescaped_id_witness :
    let ta : TrustAnchorDoc := { id := String.ofList ['a', '"', 'b'], source := "s", zone := ".", keyDigests := [] }
    ¬ AttrSafe ta.id ∧
    ta.toXmlDoc = xmlDeclLine ++ "<TrustAnchor id=\"a\"b\" source=\"s\">\n<Zone>.</Zone>\n</TrustAnchor>" := by
  refine ⟨?_, by decide +kernel⟩
  intro h
  exact (h '"' (by simp)).1 rfl

/-! ### The document is well-formed XML and MEANS the tree — against an XML grammar

`XmlSpec.stdRead` (lean/Kskm/XmlSpec.lean) is a reading of XML documents written from the XML 1.0 productions
(document, XMLDecl, STag / ETag / EmptyElemTag with the well-formedness constraints "Element Type Match" and
"Unique Att Spec", Attribute, AttValue, CharData without `]]>`, Char, S, line-end and attribute-value
normalisation), independent of the writer; it answers a tree, `malformed`, or `outside` (the text uses
references, comments, … which the subset does not read).  C12's specification could not be used directly: it is
a RELATION between `PlainXml` trees with a layout and their text (`renderT` / `valT`), not a reader, its texts are
stripped and its attribute values non-empty, and this document has mixed content (line breaks between elements
are text nodes of the tree).

Which values are what:
  * FREE TEXT, written unescaped by the code: the identifier (`--id`, else `uuid4()`), `source`, `zone`, and the
    `id` of every entry (the configured key label).  Hypotheses `AttrClean` / `TextClean`: no `"` `<` `&` (and no
    tab / line break, which a reader normalises to a space) in attribute values; no `<` `&` `>` and no carriage
    return in the zone, which is not empty; XML `Char`s only.  Necessary: `unescaped_id_witness`,
    `unescaped_id_not_wellformed`, `unescaped_id_other_meaning`.
  * GENERATED, always safe whatever the numbers (`generated_values_safe`): key tag, algorithm, digest type
    (decimal), the digest (upper-case hex), validFrom / validUntil (`format_datetime`).
  * The digest must not be EMPTY (`<Digest></Digest>` has no text node); SHA-256 digests have 32 octets, the model's
    hash is a parameter, hence the hypothesis. -/

/-- the characters of `s` need no escaping, neither in an attribute value nor as element content -/
def Harmless (s : String) : Prop := ∀ c ∈ s.toList, XmlSpec.attrCharOk c = true ∧ XmlSpec.textCharOk c = true

/-- **Generated values are always safe** — unconditionally, from their generators: for EVERY key tag,
    algorithm, digest type, digest and instant. -/
theorem generated_values_safe (d : KeyDigest) :
    Harmless (toString d.keyTag) ∧ Harmless (toString d.algorithm) ∧ Harmless (toString d.digestType) ∧
    Harmless (upperHex d.digest) ∧ Harmless (formatDatetime d.validFrom) ∧
    (∀ u, d.validUntil = some u → Harmless (formatDatetime u)) :=
  ⟨fun c hc => genChar_ok (gen_intRepr _ c hc), fun c hc => genChar_ok (gen_natRepr _ c hc),
   fun c hc => genChar_ok (gen_natRepr _ c hc), fun c hc => genChar_ok (gen_upperHex _ c hc),
   fun c hc => genChar_ok (gen_formatDatetime _ c hc), fun u _ c hc => genChar_ok (gen_formatDatetime u c hc)⟩

/-- **The exported document is well-formed XML and means the tree.**  For every trust anchor whose free
    text is clean and whose digests are not empty, the grammar-level reader reads the document, and what
    it reads is `docTree ta`: the root `TrustAnchor` with `id` and `source`, the `Zone`, and one `KeyDigest`
    per exported key — `id`, `validFrom`, `validUntil` when configured, `KeyTag`, `Algorithm`, `DigestType`,
    `Digest` — in the order of `validFrom` (`entries_sorted`), nothing else. -/
theorem C18_document_wellformed (ta : TrustAnchorDoc) (hid : AttrClean ta.id) (hsrc : AttrClean ta.source)
    (hzone : TextClean ta.zone) (hent : ∀ d ∈ ta.keyDigests, AttrClean d.id ∧ d.digest ≠ []) :
    XmlSpec.stdRead ta.toXmlDoc.toList = .ok (docTree ta).toSpec := by
  have hg := good_docTree ta hid hsrc hzone hent
  rw [toXmlDoc_eq_render, String.toList_append, xmlDeclLine_toList, render_toList]
  rw [docTree_toSpec] at hg ⊢
  have := XmlSpec.stdRead_render _ _ _ hg
  simpa [List.append_assoc] using this

/-- … and so is the text `print` writes (the document and a line break) -/
theorem C18_printed_document_wellformed (ta : TrustAnchorDoc) (hid : AttrClean ta.id) (hsrc : AttrClean ta.source)
    (hzone : TextClean ta.zone) (hent : ∀ d ∈ ta.keyDigests, AttrClean d.id ∧ d.digest ≠ []) :
    XmlSpec.stdRead (ta.toXmlDoc ++ "\n").toList = .ok (docTree ta).toSpec := by
  have hg := good_docTree ta hid hsrc hzone hent
  rw [String.toList_append, toXmlDoc_eq_render, String.toList_append, xmlDeclLine_toList, render_toList]
  rw [docTree_toSpec] at hg ⊢
  have := XmlSpec.stdRead_render_ws _ _ _ ['\n'] hg (by decide)
  simpa [List.append_assoc] using this

/-- the anchor a successful run exports has clean source and zone (the constants of the code), and — when the
    identifier and the configured labels are clean and the hash never answers the empty string — clean free text -/
theorem run_anchor_clean (ext : Externals) (args : TaArgs) (cfg : TaConfig) (tok : Token)
    (s s' : TokState) (res : TaResult) (h : trustanchor ext args cfg tok s = (.ok res, s'))
    (hid : AttrClean ((truthyStr args.id).getD args.uuid))
    (hlabels : ∀ k ∈ configured cfg, AttrClean k.label)
    (hhash : ∀ m dg, ext.hash .sha256 m = some dg → dg ≠ []) :
    AttrClean res.ta.id ∧ AttrClean res.ta.source ∧ TextClean res.ta.zone ∧
      ∀ d ∈ res.ta.keyDigests, AttrClean d.id ∧ d.digest ≠ [] := by
  obtain ⟨hz, hs, hi, _, _⟩ := document_shape ext args cfg tok s s' res h
  obtain ⟨_, _, _, _, _, hex⟩ := unconfigured_never_exported ext args cfg tok s s' res h
  refine ⟨by rw [hi]; exact hid, by rw [hs]; unfold AttrClean taSource; decide +kernel,
    by rw [hz]; unfold TextClean; decide +kernel, ?_⟩
  intro d hd
  obtain ⟨_, ksk, _, _, hspec, hk, hlab⟩ := hex d hd
  obtain ⟨_, _, _, _, _, _, hdg, _, _⟩ := hspec
  exact ⟨by rw [hlab]; exact hlabels ksk hk, hhash _ _ hdg⟩

/-- **… of a run**: when the export succeeds, the identifier and the configured labels are clean and the
    hash never answers the empty string, the document is well-formed and means `docTree` of the exported set
    (source and zone are the constants of the code: clean). -/
theorem C18_run_document_wellformed (ext : Externals) (args : TaArgs) (cfg : TaConfig) (tok : Token)
    (s s' : TokState) (res : TaResult) (h : trustanchor ext args cfg tok s = (.ok res, s'))
    (hid : AttrClean ((truthyStr args.id).getD args.uuid))
    (hlabels : ∀ k ∈ configured cfg, AttrClean k.label)
    (hhash : ∀ m dg, ext.hash .sha256 m = some dg → dg ≠ []) :
    XmlSpec.stdRead res.ta.toXmlDoc.toList = .ok (docTree res.ta).toSpec := by
  obtain ⟨h1, h2, h3, h4⟩ := run_anchor_clean ext args cfg tok s s' res h hid hlabels hhash
  exact C18_document_wellformed res.ta h1 h2 h3 h4

/-- the text a run hands out: the content of the file, or what is printed -/
def outputText : TaOutput → String
  | .file _ content => content
  | .stdout text => text

/-- **… whatever the place**: the text written to the file, or printed, is well-formed XML and means the tree -/
theorem C18_run_output_wellformed (ext : Externals) (args : TaArgs) (cfg : TaConfig) (tok : Token)
    (s s' : TokState) (res : TaResult) (h : trustanchor ext args cfg tok s = (.ok res, s'))
    (hid : AttrClean ((truthyStr args.id).getD args.uuid))
    (hlabels : ∀ k ∈ configured cfg, AttrClean k.label)
    (hhash : ∀ m dg, ext.hash .sha256 m = some dg → dg ≠ []) :
    XmlSpec.stdRead (outputText res.output).toList = .ok (docTree res.ta).toSpec := by
  obtain ⟨h1, h2, h3, h4⟩ := run_anchor_clean ext args cfg tok s s' res h hid hlabels hhash
  obtain ⟨_, _, _, hout, _⟩ := document_shape ext args cfg tok s s' res h
  cases hf : trustanchorFilename args cfg with
  | some path =>
    rw [hf] at hout
    rw [hout]
    exact C18_document_wellformed res.ta h1 h2 h3 h4
  | none =>
    rw [hf] at hout
    rw [hout]
    exact C18_printed_document_wellformed res.ta h1 h2 h3 h4

/-- the hypotheses of the run theorems are met by the concrete run `exRun` below (identifier "ta-1", labels
    "Ka" / "Kb", a hash answering two octets) -/
example : AttrClean ((truthyStr (some "ta-1")).getD "") ∧ (∀ l ∈ ["Ka", "Kb"], AttrClean l) := by
  refine ⟨by unfold AttrClean; decide +kernel, ?_⟩
  intro l hl
  simp only [List.mem_cons, List.not_mem_nil, or_false] at hl
  rcases hl with rfl | rfl <;> (unfold AttrClean; decide +kernel)

/-- a concrete two-entry anchor (one with validUntil, a negative-looking nothing: ordinary values) meets
    the hypotheses -/
def exTa : TrustAnchorDoc :=
  { id := "380DC50D-484E-40D0-A3AE-68F2B18F61C7", source := taSource, zone := ".",
    keyDigests := [
      { id := "Kjqmt7v", keyTag := 20326, algorithm := 8, digest := [0xE0, 0x6D, 0x44, 0xB8], validFrom := 1486771200000000 },
      { id := "Klajeyz", keyTag := 19036, algorithm := 8, digest := [0x49, 0xAA, 0xC1, 0x1D], validFrom := 1279152000000000,
        validUntil := some 1547164800000000 }] }

example : XmlSpec.stdRead exTa.toXmlDoc.toList = .ok (docTree exTa).toSpec :=
  C18_document_wellformed exTa (by unfold AttrClean; decide +kernel) (by unfold AttrClean; decide +kernel)
    (by unfold TextClean; decide +kernel)
    (by
      intro d hd
      simp only [exTa, List.mem_cons, List.not_mem_nil, or_false] at hd
      rcases hd with rfl | rfl <;> exact ⟨by unfold AttrClean; decide +kernel, by decide⟩)

/-- the reading of a one-entry document, evaluated: root, attributes, the element children with their attributes
    (one entry: `mergeSort` on longer lists does not reduce in the kernel) -/
example : (match XmlSpec.stdRead ({ exTa with keyDigests := exTa.keyDigests.drop 1 } : TrustAnchorDoc).toXmlDoc.toList with
    | .ok (.elem n a cs) =>
      (String.ofList n, a.map (fun p => String.ofList p.1),
       cs.filterMap (fun c => match c with
         | .elem m b _ => some (String.ofList m, b.map (fun p => (String.ofList p.1, String.ofList p.2)))
         | _ => none))
    | _ => ("", [], [])) =
    ("TrustAnchor", ["id", "source"],
     [("Zone", []),
      ("KeyDigest", [("id", "Klajeyz"), ("validFrom", "2010-07-15T00:00:00+00:00"), ("validUntil", "2019-01-11T00:00:00+00:00")])]) := by
  decide +kernel

/-- the boundary again, against the grammar: with the identifier `a"b` the exported text is NOT well-formed
    XML (the specification reader says `malformed`: a name or `>` must follow the closing quote) -/
theorem unescaped_id_not_wellformed :
    (match XmlSpec.stdRead ({ id := String.ofList ['a', '"', 'b'], source := "s", zone := ".", keyDigests := [] } :
        TrustAnchorDoc).toXmlDoc.toList with
     | .error .malformed => true
     | _ => false) = true := by decide +kernel

/-- … and with the identifier `a" x="1` the text IS well-formed but means another tree: the root has three
    attributes, `id` is `a` -/
theorem unescaped_id_other_meaning :
    (match XmlSpec.stdRead ({ id := "a\" x=\"1", source := "s", zone := ".", keyDigests := [] } :
        TrustAnchorDoc).toXmlDoc.toList with
     | .ok (.elem _ a _) => a.map (fun p => (String.ofList p.1, String.ofList p.2))
     | _ => []) = [("id", "a"), ("x", "1"), ("source", "s")] := by decide +kernel

/-! ## Non-vacuity: a concrete two-key export

A token holding the public objects of `Ka` (slot 0) and nothing for `Kb`; configuration with both.
The replaying oracle answers as the emulator did; the run succeeds, exports exactly `Ka`. -/

def exObj : Bytes := [1, 0, 1]
def exMod : Bytes := [0xc1, 0x59, 0xb9, 0x73]

/-- a small healthy token: module "m", slot 0, public object 1 labelled "Ka" (RSA), nothing else -/
def exToken : Token := fun _ op =>
  match op with
  | .load _ => .ok
  | .initialize _ => .ok
  | .getSlotList _ => .slots [0]
  | .openSession .. => .ok
  | .login .. => .ok
  | .getTokenInfo .. => .ok
  | .findObjects _ _ t => if t = [("LABEL", .str "Ka"), ("CLASS", .num ckoPublic)] then .handles [1] else .handles []
  | .getAttr _ _ _ ["KEY_TYPE"] => .attrs [.num ckkRsa]
  | .getAttr _ _ _ ["MODULUS"] => .attrs [.bytes exMod]
  | .getAttr _ _ _ ["PUBLIC_EXPONENT"] => .attrs [.bytes exObj]
  | _ => .other

def exExt : Externals := { hash := fun _ m => some (m.take 2), verify := fun _ _ _ _ => .unknown }

def exCfg : TaConfig :=
  { hsm := [{ label := "h", path := "m", pin := some "1234", soPin := none }],
    kskKeys := [("ka", { label := "Ka", algorithm := 8, validFrom := 1500000000000000 }),
                ("kb", { label := "Kb", algorithm := 8, validFrom := 1400000000000000, validUntil := some 1600000000000000 })] }

def exRun := trustanchor exExt { id := some "ta-1" } exCfg exToken {}

example : exRun.1.toOption.map (fun r => r.ta.keyDigests.map (fun d => (d.id, d.validFrom, d.digestType))) =
    some [("Ka", 1500000000000000, 2)] := by decide +kernel
example : exRun.1.toOption.map (fun r => r.ta.entries.length) = some 1 := by decide +kernel
example : exRun.1.toOption.map (fun r => match r.output with | .stdout _ => true | _ => false) = some true := by
  decide +kernel
-- both configured labels were looked up, in configuration order, and nothing else
example : (exRun.2.log.reverse.filterMap (fun e => match e.1 with | .findObjects _ _ t => some t | _ => none)) =
    [[("LABEL", .str "Ka"), ("CLASS", .num ckoPublic)], [("LABEL", .str "Kb"), ("CLASS", .num ckoPublic)]] := by
  decide +kernel

end Kskm.C18
