/-
  C08 — a KSR is processed only if it chains to the previous SKR and that SKR is ours.

  The clauses below are written from the property text.  `Kskm.Chain` mirrors /repo's
  `check_skr_and_ksr` step by step (same order, same comparison operators, token answers as a
  parameter `lookup`); `Kskm.SkrValidate` mirrors `validate_response`.  The theorems say, for every
  previous SKR and every KSR with at least one bundle each, every policy and every token:
  acceptance ⇔ the conjunction of the clauses, each under its own flag; a forged previous SKR is
  refused; an honest successor is accepted; and what the overlap rule does *not* say about gaps.
-/
import Kskm.Chain
import Kskm.SkrValidate
import KskmProofs.Lemmas.Res
import KskmProofs.Lemmas.C08Key
import KskmProofs.Lemmas.C08Sig
namespace Kskm.C08

/-! ## The documented region, clause by clause -/

/-- the KSR's id differs from the previous SKR's id -/
def IdClause (ksr : Request) (last : Response) : Prop := ksr.id ≠ last.id

/-- no bundle id of the KSR occurs in the previous SKR -/
def BundleIdClause (ksr : Request) (last : Response) : Prop :=
  ∀ kb ∈ ksr.bundles, ∀ sb ∈ last.bundles, kb.id ≠ sb.id

/-- every key in the KSR's first bundle is present in the previous SKR's last bundle — the same key
    *record* (identifier, tag, TTL, flags, protocol, algorithm, key text) -/
def ChainKeysClause (first prev : Bundle) : Prop := ∀ k ∈ first.keys, k ∈ prev.keys

/-- the previous last bundle's expiration minus the KSR's first inception lies within the KSR's
    declared [min, max] overlap, both ends included -/
def ChainOverlapClause (zp : SigPolicy) (first prev : Bundle) : Prop :=
  first.inception ≤ prev.expiration ∧
  zp.minValidityOverlap ≤ prev.expiration - first.inception ∧
  prev.expiration - first.inception ≤ zp.maxValidityOverlap

/-- the signer of `sig` is found on the token with identical public key: the token has a public
    object under the signature's identifier, with a non-empty key text `pk` from which a DNSKEY can
    be derived (`Derivable`: see `publicKeyToDnssecKey_ok_iff` for exactly when it cannot), and the
    key published under that identifier in the bundle carries the same text -/
def SignerOnToken (lookup : TokenLookup) (prev : Bundle) (sig : Signature) : Prop :=
  ∃ pk, lookup sig.keyIdentifier = .ok (some (some pk)) ∧ pk ≠ "" ∧ Derivable pk sig.algorithm ∧
    ∃ key ∈ prev.keys, key.keyIdentifier = sig.keyIdentifier ∧ key.publicKey = pk

/-- every key that signed the previous last bundle — at least one — is on the token -/
def TokenClause (lookup : TokenLookup) (prev : Bundle) : Prop :=
  prev.signatures ≠ [] ∧ ∀ sig ∈ prev.signatures, SignerOnToken lookup prev sig

/-- The documented chain region under a flag assignment and a token (`none` = no token attached). -/
def ChainRegion (ksr : Request) (last : Response) (pol : RequestPolicy) (tok : Option TokenLookup)
    (first prev : Bundle) : Prop :=
  IdClause ksr last ∧ BundleIdClause ksr last ∧
  (pol.checkChainKeys = true → ChainKeysClause first prev) ∧
  (pol.checkChainOverlap = true → ChainOverlapClause ksr.zskPolicy first prev) ∧
  (∀ lookup, tok = some lookup → pol.checkChainKeysInHsm = true → TokenClause lookup prev)

/-- In a bundle whose keys carry pairwise distinct identifiers (what `validate_signatures` insists
    on) "the key published under an identifier" is well defined.  Needed for one direction of the
    token clause only; without it the code's verdict depends on which of the homonymous keys the
    Python `set` yields first. -/
def IdsDeterminePk (b : Bundle) : Prop :=
  ∀ k₁ ∈ b.keys, ∀ k₂ ∈ b.keys, k₁.keyIdentifier = k₂.keyIdentifier → k₁.publicKey = k₂.publicKey

/-! ## Each rule accepts exactly its clause -/

theorem unique_request_iff (ksr : Request) (last : Response) :
    checkUniqueRequest ksr last = .ok () ↔ IdClause ksr last := by
  unfold checkUniqueRequest IdClause
  exact ite_viol_ok_iff _

theorem unique_bundle_ids_iff (ksr : Request) (last : Response) :
    checkUniqueBundleIds ksr last = .ok () ↔ BundleIdClause ksr last := by
  unfold checkUniqueBundleIds BundleIdClause
  simp only [forEach_ok_iff, ite_viol_ok_iff, ne_eq]

theorem chain_keys_iff (ksr : Request) (last : Response) (pol : RequestPolicy) (first prev : Bundle)
    (hf : ksr.bundles.head? = some first) (hl : last.bundles.getLast? = some prev) :
    checkChainKeys ksr last pol = .ok () ↔ (pol.checkChainKeys = true → ChainKeysClause first prev) := by
  unfold checkChainKeys ChainKeysClause
  cases hflag : pol.checkChainKeys
  · simp
  · simp only [Bool.not_true, Bool.false_eq_true, ↓reduceIte, hf, hl, forEach_ok_iff, ite_ok_viol_iff,
      List.contains_iff_mem, forall_const]

theorem chain_overlap_iff (ksr : Request) (last : Response) (pol : RequestPolicy) (first prev : Bundle)
    (hf : ksr.bundles.head? = some first) (hl : last.bundles.getLast? = some prev) :
    checkChainOverlap ksr last pol = .ok () ↔
      (pol.checkChainOverlap = true → ChainOverlapClause ksr.zskPolicy first prev) := by
  unfold checkChainOverlap ChainOverlapClause
  cases hflag : pol.checkChainOverlap
  · simp
  · simp only [Bool.not_true, Bool.false_eq_true, ↓reduceIte, hf, hl, forall_const]
    split
    · simp; omega
    · split
      · simp; omega
      · split
        · simp; omega
        · simp; omega

/-- **Exactly when `public_key_to_dnssec_key` can fail on the token's key text** (called with flags
    257, the signature's identifier, algorithm and TTL): it succeeds iff `Derivable pk alg` — the
    algorithm number fits one octet, the text is base64 the model decodes (anything else the model
    declines to judge: `unsupported`), and for ECDSA P-256 / P-384 the decoded point has the curve's
    size, bare or behind a `0x04` octet (otherwise: pydantic `ValidationError`; empty: `IndexError`).
    Identifier, TTL and flags never make it fail. -/
theorem token_key_derivable_iff (pk id : String) (alg : Nat) (ttl : Int) :
    (∃ k, publicKeyToDnssecKey pk id alg ttl 257 = .ok k) ↔
      alg < 256 ∧ ∃ b, Base64.decode pk = some b ∧ ((alg = 13 ∨ alg = 14) → EcPointOk alg b) :=
  publicKeyToDnssecKey_ok_iff pk id alg ttl

/-- the derived key carries the token's key text unchanged, so "the derived key's text equals the
    published key's text" is "the token's text equals the published text" -/
theorem derived_key_text (pk id : String) (alg : Nat) (ttl flags : Int) (k : Key)
    (h : publicKeyToDnssecKey pk id alg ttl flags = .ok k) : k.publicKey = pk :=
  (publicKeyToDnssecKey_fields h).1

/-- the token rule as the loop over `keyPresentStep` plus the "at least one signature" test -/
theorem key_present_unfold (last : Response) (pol : RequestPolicy) (lookup : TokenLookup) (prev : Bundle)
    (hl : last.bundles.getLast? = some prev) (hflag : pol.checkChainKeysInHsm = true) :
    checkLastSkrKeyPresent last pol (some lookup) =
      (do forEach prev.signatures (keyPresentStep lookup prev)
          if prev.signatures.isEmpty then violation .chainKeys else pure ()) := by
  unfold checkLastSkrKeyPresent
  simp only [hflag, Bool.not_true, Bool.false_eq_true, ↓reduceIte, hl]
  rfl

/-- one passing iteration, in the property's words (⇒ always; ⇐ when identifiers determine keys) -/
theorem stepPasses_sound (lookup : TokenLookup) (prev : Bundle) (sig : Signature)
    (h : StepPasses lookup prev sig) : SignerOnToken lookup prev sig := by
  obtain ⟨pk, hlk, hne, hder, key, hfind, hpk⟩ := h
  refine ⟨pk, hlk, hne, (publicKeyToDnssecKey_ok_iff _ _ _ _).mp hder, key,
    List.mem_of_find?_eq_some hfind, ?_, hpk⟩
  simpa using List.find?_some hfind

theorem stepPasses_complete (lookup : TokenLookup) (prev : Bundle) (sig : Signature)
    (hu : IdsDeterminePk prev) (h : SignerOnToken lookup prev sig) : StepPasses lookup prev sig := by
  obtain ⟨pk, hlk, hne, hder, key, hmem, hid, hpk⟩ := h
  refine ⟨pk, hlk, hne, (publicKeyToDnssecKey_ok_iff _ sig.keyIdentifier _ sig.ttl).mpr hder, ?_⟩
  cases hfind : prev.keys.find? (fun k => k.keyIdentifier = sig.keyIdentifier) with
  | none =>
    have := List.find?_eq_none.mp hfind key hmem
    simp [hid] at this
  | some key' =>
    have hmem' := List.mem_of_find?_eq_some hfind
    have hid' : key'.keyIdentifier = sig.keyIdentifier := by simpa using List.find?_some hfind
    exact ⟨key', rfl, (hu key' hmem' key hmem (by rw [hid', hid])).trans hpk⟩

/-- **Token rule, soundness** (no side condition): accepted with a token attached and the flag on ⇒
    at least one signer, and every signer is on the token with identical public key. -/
theorem key_present_sound (last : Response) (pol : RequestPolicy) (lookup : TokenLookup) (prev : Bundle)
    (hl : last.bundles.getLast? = some prev) (hflag : pol.checkChainKeysInHsm = true)
    (hok : checkLastSkrKeyPresent last pol (some lookup) = .ok ()) : TokenClause lookup prev := by
  rw [key_present_unfold last pol lookup prev hl hflag, seq_ok_iff, forEach_ok_iff] at hok
  obtain ⟨hall, hne⟩ := hok
  refine ⟨?_, fun sig hs => stepPasses_sound _ _ _ ((keyPresentStep_ok_iff _ _ _).mp (hall sig hs))⟩
  intro h0; simp [h0] at hne

/-- **Token rule accepts exactly its clause** (identifiers of the previous last bundle distinct). -/
theorem key_present_iff (last : Response) (pol : RequestPolicy) (lookup : TokenLookup) (prev : Bundle)
    (hl : last.bundles.getLast? = some prev) (hu : IdsDeterminePk prev) :
    checkLastSkrKeyPresent last pol (some lookup) = .ok () ↔
      (pol.checkChainKeysInHsm = true → TokenClause lookup prev) := by
  cases hflag : pol.checkChainKeysInHsm
  · simp [checkLastSkrKeyPresent, hflag]
  · simp only [forall_const]
    constructor
    · exact key_present_sound last pol lookup prev hl hflag
    · rintro ⟨hne, hall⟩
      rw [key_present_unfold last pol lookup prev hl hflag, seq_ok_iff, forEach_ok_iff]
      refine ⟨fun sig hs => (keyPresentStep_ok_iff _ _ _).mpr (stepPasses_complete _ _ _ hu (hall sig hs)), ?_⟩
      cases hs : prev.signatures with
      | nil => exact absurd hs hne
      | cons a r => simp

/-- without a token (`p11modules` is `None` or empty) the token rule is not applied -/
theorem key_present_no_token (last : Response) (pol : RequestPolicy) :
    checkLastSkrKeyPresent last pol none = .ok () := rfl

/-! ## The composite -/

/-- **Composite is the plain conjunction of the five rules** — no rule's verdict (in particular a
    disabled rule's `ok`) can hide another's rejection. -/
theorem composite_is_conjunction (ksr : Request) (last : Response) (pol : RequestPolicy)
    (tok : Option TokenLookup) :
    checkSkrAndKsr ksr last pol tok = .ok () ↔
      checkUniqueRequest ksr last = .ok () ∧ checkUniqueBundleIds ksr last = .ok () ∧
      checkChainKeys ksr last pol = .ok () ∧ checkChainOverlap ksr last pol = .ok () ∧
      checkLastSkrKeyPresent last pol tok = .ok () := by
  unfold checkSkrAndKsr
  simp only [seq_ok_iff]

/-- **C08, soundness** (no side condition): whatever is accepted lies in the documented region. -/
theorem C08_sound (ksr : Request) (last : Response) (pol : RequestPolicy) (tok : Option TokenLookup)
    (first prev : Bundle) (hf : ksr.bundles.head? = some first) (hl : last.bundles.getLast? = some prev)
    (hok : checkSkrAndKsr ksr last pol tok = .ok ()) : ChainRegion ksr last pol tok first prev := by
  rw [composite_is_conjunction, unique_request_iff, unique_bundle_ids_iff,
    chain_keys_iff ksr last pol first prev hf hl, chain_overlap_iff ksr last pol first prev hf hl] at hok
  obtain ⟨h1, h2, h3, h4, h5⟩ := hok
  refine ⟨h1, h2, h3, h4, ?_⟩
  intro lookup ht hflag
  subst ht
  exact key_present_sound last pol lookup prev hl hflag h5

/-- **C08.**  For every KSR and previous SKR with a bundle each, every flag assignment and every
    token: `check_skr_and_ksr` accepts iff the pair lies in the documented region — ids differ, no
    bundle id re-used, and under its own flag each of: first-bundle keys carried over, overlap
    within the KSR-declared window, and (token attached) every signer of the previous last bundle,
    at least one, on the token with identical key. -/
theorem C08_iff (ksr : Request) (last : Response) (pol : RequestPolicy) (tok : Option TokenLookup)
    (first prev : Bundle) (hf : ksr.bundles.head? = some first) (hl : last.bundles.getLast? = some prev)
    (hu : tok.isSome = true → IdsDeterminePk prev) :
    checkSkrAndKsr ksr last pol tok = .ok () ↔ ChainRegion ksr last pol tok first prev := by
  constructor
  · exact C08_sound ksr last pol tok first prev hf hl
  · rintro ⟨h1, h2, h3, h4, h5⟩
    rw [composite_is_conjunction, unique_request_iff, unique_bundle_ids_iff,
      chain_keys_iff ksr last pol first prev hf hl, chain_overlap_iff ksr last pol first prev hf hl]
    refine ⟨h1, h2, h3, h4, ?_⟩
    cases tok with
    | none => rfl
    | some lookup =>
      exact (key_present_iff last pol lookup prev hl (hu rfl)).mpr (h5 lookup rfl)

/-- **A switched-off rule never rejects**, and the token rule is not applied without a token. -/
theorem C08_flags_off (ksr : Request) (last : Response) (pol : RequestPolicy) (tok : Option TokenLookup) :
    (pol.checkChainKeys = false → checkChainKeys ksr last pol = .ok ()) ∧
    (pol.checkChainOverlap = false → checkChainOverlap ksr last pol = .ok ()) ∧
    (pol.checkChainKeysInHsm = false → checkLastSkrKeyPresent last pol tok = .ok ()) ∧
    checkLastSkrKeyPresent last pol none = .ok () := by
  refine ⟨?_, ?_, ?_, rfl⟩ <;> intro h
  · simp [checkChainKeys, h]
  · simp [checkChainOverlap, h]
  · cases tok <;> simp [checkLastSkrKeyPresent, h]

/-- the two id rules have no flag: they reject under every policy -/
theorem id_rules_unconditional (ksr : Request) (last : Response) (pol : RequestPolicy)
    (tok : Option TokenLookup) (h : ¬ IdClause ksr last ∨ ¬ BundleIdClause ksr last) :
    checkSkrAndKsr ksr last pol tok ≠ .ok () := by
  rw [Ne, composite_is_conjunction, unique_request_iff, unique_bundle_ids_iff]
  rintro ⟨h1, h2, _⟩
  rcases h with h | h
  · exact h h1
  · exact h h2

/-- an enabled chain rule on an SKR or KSR without bundles is an error (Python `IndexError`), never
    an acceptance -/
theorem empty_refused (ksr : Request) (last : Response) (pol : RequestPolicy)
    (he : last.bundles = [] ∨ ksr.bundles = []) :
    (pol.checkChainKeys = true → checkChainKeys ksr last pol = err .index) ∧
    (pol.checkChainOverlap = true → checkChainOverlap ksr last pol = err .index) := by
  refine ⟨?_, ?_⟩ <;> intro h
  · unfold checkChainKeys
    rcases he with he | he
    · simp [h, he]
    · cases hl : last.bundles.getLast? <;> simp [h, he]
  · unfold checkChainOverlap
    rcases he with he | he
    · simp [h, he]
    · cases hl : last.bundles.getLast? <;> simp [h, he]

/-- overlap boundaries are inclusive: exactly the declared minimum and exactly the declared maximum
    are accepted (when min ≤ max) -/
theorem overlap_boundaries_inclusive (ksr : Request) (last : Response) (pol : RequestPolicy)
    (first prev : Bundle) (hf : ksr.bundles.head? = some first) (hl : last.bundles.getLast? = some prev)
    (hmm : ksr.zskPolicy.minValidityOverlap ≤ ksr.zskPolicy.maxValidityOverlap)
    (hng : first.inception ≤ prev.expiration)
    (hb : prev.expiration - first.inception = ksr.zskPolicy.minValidityOverlap ∨
          prev.expiration - first.inception = ksr.zskPolicy.maxValidityOverlap) :
    checkChainOverlap ksr last pol = .ok () := by
  rw [chain_overlap_iff ksr last pol first prev hf hl]
  intro _; unfold ChainOverlapClause; omega

/-! ## The previous SKR must be self-consistent (`validate_response`, run by `load_skr`) -/

/-- **`validate_response` accepts iff** the bundle count is the configured one and, under the
    `validate_signatures` flag, `validate_signatures` accepts every bundle. -/
theorem validateResponse_ok_iff (verify : Verifier) (resp : Response) (pol : ResponsePolicy) :
    validateResponse verify resp pol = .ok () ↔
      (resp.bundles.length : Int) = pol.numBundles ∧
      (pol.validateSignatures = true → ∀ b ∈ resp.bundles, validateSignatures verify b = .ok ()) := by
  unfold validateResponse
  by_cases hc : (resp.bundles.length : Int) = pol.numBundles
  · simp only [hc, bne_self_eq_false, Bool.false_eq_true, ↓reduceIte, true_and, forEach_ok_iff]
    cases hflag : pol.validateSignatures
    · simp [checkValidSignatures, hflag]
    · simp only [forall_const]
      apply forall_congr'; intro b; apply imp_congr_right; intro _
      unfold checkValidSignatures
      simp only [hflag, Bool.not_true, Bool.false_eq_true, ↓reduceIte]
      split <;> simp_all [violation]
  · simp [hc, violation, bind, Except.bind]

/-- … and in full: every bundle has keys and signatures, no repeated key identifier, and the
    verifier answered `valid` for every signature over the bundle's whole key set. -/
theorem validateResponse_ok_verifies (verify : Verifier) (resp : Response) (pol : ResponsePolicy)
    (hflag : pol.validateSignatures = true) :
    validateResponse verify resp pol = .ok () ↔
      (resp.bundles.length : Int) = pol.numBundles ∧
      ∀ b ∈ resp.bundles, b.keys ≠ [] ∧ b.signatures ≠ [] ∧ hasDupIds b.keys = false ∧
        ∀ sig ∈ b.signatures, VerifierSays verify b sig .valid := by
  rw [validateResponse_ok_iff]
  simp only [hflag, forall_const, validateSignatures_ok_iff]

/-- **Forged previous SKR, wrong bundle count:** refused with the bare policy violation, whatever
    the flag and the signatures. -/
theorem forged_prev_refused_count (verify : Verifier) (resp : Response) (pol : ResponsePolicy)
    (h : (resp.bundles.length : Int) ≠ pol.numBundles) :
    validateResponse verify resp pol = violation .skrPolicy := by
  unfold validateResponse
  simp [h, violation, bind, Except.bind]

/-- **Forged previous SKR, a signature that does not verify:** with the right count and the flag on,
    if the bundles before `b` validate, and in `b` (which has keys with distinct identifiers) the
    signatures before `sig` verify while the verifier calls `sig` `invalid`, the outcome is exactly
    the invalid-signature violation. -/
theorem forged_prev_refused (verify : Verifier) (resp : Response) (pol : ResponsePolicy)
    (pre post : List Bundle) (b : Bundle) (spre spost : List Signature) (sig : Signature)
    (hcount : (resp.bundles.length : Int) = pol.numBundles) (hflag : pol.validateSignatures = true)
    (hb : resp.bundles = pre ++ b :: post) (hpre : ∀ p ∈ pre, validateSignatures verify p = .ok ())
    (hkeys : b.keys ≠ []) (hdup : hasDupIds b.keys = false)
    (hs : b.signatures = spre ++ sig :: spost)
    (hspre : ∀ s ∈ spre, VerifierSays verify b s .valid)
    (hinv : VerifierSays verify b sig .invalid) :
    validateResponse verify resp pol = violation .skrInvalidSignature := by
  have hbv : validateSignatures verify b = err .invalidSignature := by
    rw [validateSignatures_eq]
    have h1 : b.keys.isEmpty = false := by cases hk : b.keys <;> simp_all
    have h2 : b.signatures.isEmpty = false := by rw [hs]; cases spre <;> simp
    simp only [h1, h2, hdup, Bool.false_eq_true, ↓reduceIte]
    rw [hs]
    exact forEach_first_fail spre spost sig _ _ (fun s h => (sigStep_ok_iff _ _ _).mpr (hspre s h))
      (sigStep_invalid _ _ _ hinv)
  have hc : ((resp.bundles.length : Int) != pol.numBundles) = false := by simp [hcount]
  unfold validateResponse
  simp only [hc, Bool.false_eq_true, ↓reduceIte]
  rw [hb]
  apply forEach_first_fail pre post b
  · intro p hp
    simp [checkValidSignatures, hflag, hpre p hp]
  · simp [checkValidSignatures, hflag, hbv, err, violation]

/-- any bundle that `validate_signatures` does not accept makes the whole previous SKR unacceptable
    (under the flag): nothing later can compensate -/
theorem forged_prev_never_accepted (verify : Verifier) (resp : Response) (pol : ResponsePolicy)
    (hflag : pol.validateSignatures = true) (b : Bundle) (hb : b ∈ resp.bundles)
    (hbad : validateSignatures verify b ≠ .ok ()) :
    validateResponse verify resp pol ≠ .ok () := by
  rw [Ne, validateResponse_ok_iff]
  rintro ⟨_, h⟩
  exact hbad (h hflag b hb)

/-- `load_skr` turns any policy violation of `validate_response` into a `RuntimeError`: it returns a
    response only if `validate_response` accepted it -/
theorem loadSkrGate_ok_iff (verify : Verifier) (resp : Response) (pol : ResponsePolicy) :
    loadSkrGate verify resp pol = .ok () ↔ validateResponse verify resp pol = .ok () := by
  unfold loadSkrGate
  split
  · rename_i h; simp [h, err]
  · rfl

/-- a previous SKR accepted under the flag has pairwise distinct key identifiers in every bundle, so
    the side condition of `C08_iff` holds for SKRs that came through `load_skr` -/
theorem hasDupIds_false_iff (keys : List Key) :
    hasDupIds keys = false ↔ keys.Pairwise (fun a b => a.keyIdentifier ≠ b.keyIdentifier) := by
  induction keys with
  | nil => simp [hasDupIds]
  | cons k r ih =>
    simp only [hasDupIds, Bool.or_eq_false_iff, List.any_eq_false, decide_eq_true_eq,
      List.pairwise_cons, ih]
    constructor
    · rintro ⟨h1, h2⟩; exact ⟨fun a ha heq => h1 a ha heq.symm, h2⟩
    · rintro ⟨h1, h2⟩; exact ⟨fun a ha heq => h1 a ha heq.symm, h2⟩

theorem pairwise_ids_unique (keys : List Key)
    (h : keys.Pairwise (fun a b => a.keyIdentifier ≠ b.keyIdentifier)) :
    ∀ k₁ ∈ keys, ∀ k₂ ∈ keys, k₁.keyIdentifier = k₂.keyIdentifier → k₁ = k₂ := by
  induction keys with
  | nil => simp
  | cons k r ih =>
    rw [List.pairwise_cons] at h
    intro k1 h1 k2 h2 hid
    rcases List.mem_cons.mp h1 with rfl | h1' <;> rcases List.mem_cons.mp h2 with rfl | h2'
    · rfl
    · exact absurd hid (h.1 k2 h2')
    · exact absurd hid.symm (h.1 k1 h1')
    · exact ih h.2 k1 h1' k2 h2' hid

theorem validated_ids_determine_pk (verify : Verifier) (resp : Response) (pol : ResponsePolicy)
    (hflag : pol.validateSignatures = true) (hok : validateResponse verify resp pol = .ok ())
    (prev : Bundle) (hl : resp.bundles.getLast? = some prev) : IdsDeterminePk prev := by
  have hmem : prev ∈ resp.bundles := List.mem_of_getLast? hl
  have hd := (((validateResponse_ok_verifies verify resp pol hflag).mp hok).2 prev hmem).2.2.1
  rw [hasDupIds_false_iff] at hd
  intro k₁ h₁ k₂ h₂ hid
  rw [pairwise_ids_unique prev.keys hd k₁ h₁ k₂ h₂ hid]

/-! ## An honest successor is always accepted -/

/-- A KSR that honestly continues the previous SKR: fresh request and bundle ids; every key of its
    first bundle carried over from the previous last bundle; the overlap it leaves within the window
    it declares; and — if a token is attached — the previous last bundle signed (at least once) only
    by keys the token holds with identical public key, identifiers being unambiguous there. -/
structure HonestSuccessor (last : Response) (ksr : Request) (tok : Option TokenLookup)
    (first prev : Bundle) : Prop where
  first_is : ksr.bundles.head? = some first
  prev_is : last.bundles.getLast? = some prev
  freshId : ksr.id ≠ last.id
  freshBundleIds : ∀ kb ∈ ksr.bundles, ∀ sb ∈ last.bundles, kb.id ≠ sb.id
  keysCarried : ∀ k ∈ first.keys, k ∈ prev.keys
  /-- an honest successor continues the timeline: it leaves no gap … -/
  noGap : first.inception ≤ prev.expiration
  /-- … and overlaps by an amount inside the window it declares -/
  overlapDeclared : ksr.zskPolicy.minValidityOverlap ≤ prev.expiration - first.inception ∧
    prev.expiration - first.inception ≤ ksr.zskPolicy.maxValidityOverlap
  signersOnToken : ∀ lookup, tok = some lookup →
    IdsDeterminePk prev ∧ prev.signatures ≠ [] ∧ ∀ sig ∈ prev.signatures, SignerOnToken lookup prev sig

/-- **An honest successor is accepted under every flag assignment.** -/
theorem honest_successor_accepted (ksr : Request) (last : Response) (pol : RequestPolicy)
    (tok : Option TokenLookup) (first prev : Bundle) (h : HonestSuccessor last ksr tok first prev) :
    checkSkrAndKsr ksr last pol tok = .ok () := by
  apply (C08_iff ksr last pol tok first prev h.first_is h.prev_is ?_).mpr
  · exact ⟨h.freshId, h.freshBundleIds, fun _ => h.keysCarried, fun _ => ⟨h.noGap, h.overlapDeclared⟩,
      fun lookup ht _ => (h.signersOnToken lookup ht).2⟩
  · intro hs
    cases tok with
    | none => simp at hs
    | some lookup => exact (h.signersOnToken lookup rfl).1

/-! ## Gaps (DESIGN §5 F10, repaired in /repo)

  On the pinned tree the chain-overlap rule had no gap test of its own and compared only against the
  KSR's *declared* minimum, which may be negative (`P0D-86400` parses to −1 day): a 12 h gap between
  SKR(n−1) and KSR(n) was accepted.  /repo now applies the same explicit test as the intra-KSR rule;
  the model follows, and the no-gap statement holds unconditionally. -/

theorem chain_no_gap (ksr : Request) (last : Response) (pol : RequestPolicy)
    (tok : Option TokenLookup) (first prev : Bundle)
    (hf : ksr.bundles.head? = some first) (hl : last.bundles.getLast? = some prev)
    (hok : checkSkrAndKsr ksr last pol tok = .ok ()) (hflag : pol.checkChainOverlap = true) :
    first.inception ≤ prev.expiration := by
  have := (C08_sound ksr last pol tok first prev hf hl hok).2.2.2.1 hflag
  exact this.1

/-- the former witness — previous last bundle expires at day 21, the KSR's first bundle starts half a
    day later, the KSR declares a minimum overlap of −1 day — is now refused -/
def gapLast : Response :=
  { id := "skr0", serial := 1, domain := ".", zskPolicy := {}, kskPolicy := {},
    bundles := [{ id := "a1", inception := 0, expiration := 21 * usPerDay, keys := [], signatures := [] }] }
def gapKsr : Request :=
  { id := "ksr1", serial := 2, domain := ".",
    zskPolicy := { minValidityOverlap := -usPerDay, maxValidityOverlap := 12 * usPerDay },
    bundles := [{ id := "b1", inception := 21 * usPerDay + usPerDay / 2, expiration := 43 * usPerDay,
                  keys := [], signatures := [] }] }

theorem gap_witness_refused :
    checkSkrAndKsr gapKsr gapLast {} none = violation .chainOverlap := by decide +kernel

/-! ## Non-vacuity: a quarter-to-quarter hand-over shaped like the archived pairs
    (previous last bundle: ZSKs `Z1`,`Z2` and KSK `K`, signed by `K`, expiring day 101; the KSR's
    first bundle: `Z1`,`Z2`, starting day 90 — 11 days of overlap, declared window 9–12 days; the
    token holds `K` with the published key text). -/

def exKey (id : String) (flags : Int) (pk : String) : Key :=
  { keyIdentifier := id, keyTag := 1, ttl := 172800, flags, protocol := 3, algorithm := 8, publicKey := pk }
def exSig (id : String) : Signature :=
  { keyIdentifier := id, ttl := 172800, algorithm := 8, labels := 0, originalTtl := 172800,
    expiration := 0, inception := 0, keyTag := 1, signersName := ".", signatureData := "AA==" }
def exPrev : Bundle :=
  { id := "q1-9", inception := 80 * usPerDay, expiration := 101 * usPerDay,
    keys := [exKey "Z1" 256 "AQAB", exKey "Z2" 256 "AQAC", exKey "K" 257 "AQAD"], signatures := [exSig "K"] }
def exLast : Response :=
  { id := "q1", serial := 1, domain := ".", zskPolicy := {}, kskPolicy := {},
    bundles := [{ exPrev with id := "q1-8", inception := 70 * usPerDay, expiration := 91 * usPerDay }, exPrev] }
def exFirst : Bundle :=
  { id := "q2-1", inception := 90 * usPerDay, expiration := 111 * usPerDay,
    keys := [exKey "Z1" 256 "AQAB", exKey "Z2" 256 "AQAC"], signatures := [] }
def exKsr : Request :=
  { id := "q2", serial := 2, domain := ".",
    zskPolicy := { minValidityOverlap := 9 * usPerDay, maxValidityOverlap := 12 * usPerDay },
    bundles := [exFirst, { exFirst with id := "q2-2", inception := 100 * usPerDay, expiration := 121 * usPerDay }] }
def exToken : TokenLookup := fun label => if label = "K" then pure (some (some "AQAD")) else pure none

example : checkSkrAndKsr exKsr exLast {} (some exToken) = .ok () := by decide +kernel
/-- the same KSR is refused when the token holds another key under the label `K` -/
example : checkSkrAndKsr exKsr exLast {}
    (some fun label => if label = "K" then pure (some (some "AQAE")) else pure none)
    = violation .chainKeys := by decide +kernel
/-- hence (by `C08_sound`) the example lies in the documented region with all flags on -/
example : ChainRegion exKsr exLast {} (some exToken) exFirst exPrev :=
  C08_sound exKsr exLast {} (some exToken) exFirst exPrev rfl rfl (by decide +kernel)

end Kskm.C08
