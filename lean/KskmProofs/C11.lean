/-
  C11 — an emitted SKR reads back identically, fits the schema; no truncation loads.

  Model: `Kskm.Duration` / `Kskm.Time` (the two codecs, reader and writer side), `Kskm.SkrXml`
  (`skr_to_xml` as text, `_indent` exactly), `Kskm.Xml` / `Kskm.XmlGlue` (the repository's reader and
  its dict → data-class glue).  Helper lemmas: KskmProofs/Lemmas/C11*.lean; for the composition with
  C12's reader theorem (section "Round trip"): KskmProofs/Lemmas/Skr{Layout,Ink,Plain,Tree,Glue,GlueDoc,
  ReadBack}.lean.
-/
import KskmProofs.Lemmas.C11Duration
import KskmProofs.Lemmas.C11Datetime
import KskmProofs.Lemmas.C11Extract
import KskmProofs.Lemmas.C11Reader
import KskmProofs.Lemmas.SkrReadBack
import KskmProofs.Lemmas.C11Week
namespace Kskm.C11

/-! ## Durations -/

/-- Every whole-second, non-negative duration that a `timedelta` can hold (|days| ≤ 999 999 999)
    is read back exactly from the text the writer prints for it. -/
theorem duration_roundtrip (d : Int) (h0 : 0 ≤ d) (hs : d % 1000000 = 0) (hmax : d / usPerDay ≤ 999999999) :
    parseDuration (formatDuration d) = .ok d := by
  simp only [parseDuration, formatDuration, String.toList_ofList]
  exact duration_roundtrip_chars d h0 hs hmax

/-- What is lost outside that domain (both replayed on the implementation by harness/corr_C11.py):
    the microseconds field is not written — a sub-second duration prints as "P" and reads back as 0,
    1.000001 s reads back as 1 s; a negative duration prints with a signed day count ("P-1DT23H59M59S"),
    which the reader refuses. -/
theorem duration_fraction_lost :
    formatDuration 500000 = "P" ∧ parseDuration (formatDuration 500000) = .ok 0 ∧
    parseDuration (formatDuration 1000001) = .ok 1000000 := by decide

theorem duration_negative_not_read :
    formatDuration (-1000000) = "P-1DT23H59M59S" ∧ parseDuration (formatDuration (-1000000)) = .error (.error .value) := by
  decide

/-- the strict `>` comparisons of the writer: exactly one hour prints as sixty minutes, exactly one
    minute as sixty seconds — and both read back exactly (instances of `duration_roundtrip`) -/
example : formatDuration 3600000000 = "PT60M" ∧ formatDuration 60000000 = "PT60S" ∧
    formatDuration 3601000000 = "PT1H1S" ∧ formatDuration 86400000000 = "P1D" := by decide

/-- the reader's quirks that the round trip does not exercise, pinned: an integer tail is seconds -/
example : parseDuration "P1D5" = .ok 86405000000 ∧ parseDuration "P0D-86400" = .ok (-86400000000) ∧
    parseDuration "P1M" = .error (.error .notImplemented) ∧ parseDuration "PT1M" = .ok 60000000 := by decide

/-- the reader's loop never runs out of fuel (its termination argument) -/
theorem parseDuration_total (s : List Char) (ts : Bool) (acc : Int) (extra : Nat) :
    parseDurationLoop (s.length + extra) s ts acc = parseDurationLoop s.length s ts acc :=
  (parseDurationLoop_fuel_add extra s ts acc).symm

/-! ## Calendar and timestamps -/

/-- day number ↔ civil date: both directions, for every day number and every real calendar date -/
theorem civil_roundtrip :
    (∀ z : Int, daysOfCivil (civilOfDays z) = z ∧ (civilOfDays z).valid = true) ∧
    (∀ c : Civil, c.valid = true → civilOfDays (daysOfCivil c) = c) :=
  ⟨fun z => ⟨daysOfCivil_civilOfDays z, civilOfDays_valid z⟩, civilOfDays_daysOfCivil⟩

/-- Every whole-second instant of the years 1000 … 9999 is read back exactly from the text the writer
    prints for it. -/
theorem datetime_roundtrip (t : Int) (hs : t % 1000000 = 0) (hy1 : 1000 ≤ yearOf t) (hy2 : yearOf t ≤ 9999) :
    parseDatetime (formatDatetime t) = .ok t := by
  simp only [parseDatetime, formatDatetime, String.toList_ofList]
  exact datetime_roundtrip_chars t hs hy1 hy2

example : yearOf 1500000000000000 = 2017 ∧ formatDatetime 1500000000000000 = "2017-07-14T02:40:00+00:00" := by
  decide

/-- F7: below year 1000 glibc's `%Y` is not zero-padded and `fromisoformat` refuses the text:
    999-12-31T23:59:59Z is a concrete instant that does not round-trip. -/
theorem datetime_year_below_1000_counterexample :
    yearOf (-30610224001000000) = 999 ∧
    formatDatetime (-30610224001000000) = "999-12-31T23:59:59+00:00" ∧
    parseDatetime (formatDatetime (-30610224001000000)) = .error (.error .value) := by decide

/-- microseconds are dropped by the writer -/
example : parseDatetime (formatDatetime 1500000000999999) = .ok 1500000000000000 := by decide


/-! ## `_indent` -/

/-- `_indent` of a text given by its (single-line) lines: the EMPTY lines are dropped — a
    whitespace-only line is a line like any other —, every remaining line gets four blanks, and the
    result is `lstrip()`ped. -/
theorem indent_lines_spec (ls : List (List Char)) (h : ∀ l ∈ ls, '\n' ∉ l) :
    indent (joinNl ls) = lstrip (joinNl ((ls.filter (fun l => !l.isEmpty)).map (fun l => sp4 ++ l))) :=
  indent_joinNl ls h

/-- a whitespace-only line survives `_indent` (it is only "not empty" that counts) -/
example : indent "<a>\n  \n\n<b/>".toList = "<a>\n      \n    <b/>".toList := by decide

/-- The layout lemma behind the writer: `_indent` of a concatenation of element templates, put back
    behind the four blanks of the enclosing template line, is the elements' lines indented by four
    blanks each, joined by newlines — multi-line FIELD TEXT would be re-indented too, which is why the
    domain asks for single-line text (F6). -/
theorem indent_templates {α} (f : α → XTree) (l : List α) (hne : l ≠ []) (hs : ∀ x ∈ l, (f x).safe) :
    sp4 ++ indent ((l.map (fun x => block (renderLines (f x)))).flatten)
      = joinNl ((renderLinesList (l.map f)).map ind) :=
  indent_elements f l hne hs

/-- F6 as a fact about `_indent`: a two-line text does not come back unchanged -/
example : indent "AAAA\nBBBB".toList = "AAAA\n    BBBB".toList := by decide

/-! ## The writer -/

/-- On the writer's domain `skr_to_xml` succeeds and its text is the rendering of the element tree
    `treeOf r` (XML declaration, one line per tag / leaf element, four blanks per nesting level, final
    newline). -/
theorem skrToXml_is_render (r : Response) (h : WriterDomain r) :
    skrToXml r = .ok (String.ofList (renderDoc (treeOf r))) := by
  simp [skrToXml, skrToXmlChars_of_domain r h, bind, Except.bind, pure, Except.pure]

/-- outside the domain the writer refuses what output.py refuses -/
theorem skrToXml_refusals (r : Response) :
    (r.timestamp.isSome = true → skrToXml r = .error (.error .notImplemented)) ∧
    (∀ a : AlgPolicy, a.kind ≠ .rsa → algXml a = .error (.error .notImplemented)) := by
  refine ⟨fun h => ?_, fun a ha => ?_⟩
  rotate_left
  · unfold algXml
    cases hk : a.kind <;> first | exact absurd hk ha | (cases a.exponent <;> rfl)
  simp [skrToXml, skrToXmlChars, h, bind, Except.bind, err]

/-- the text ends with the closing tag of the root element and the final newline -/
theorem skrToXml_ends_with (r : Response) (h : WriterDomain r) :
    ∃ body, skrToXml r = .ok (String.ofList (body ++ "</KSR>\n".toList)) := by
  refine ⟨docBody r, ?_⟩
  rw [skrToXml_is_render r h, renderDoc_treeOf]
  have : "</KSR>\n".toList = endPat ++ ['\n'] := by decide
  rw [this, List.append_assoc]

/-- `</KSR>` occurs exactly once in the text: wherever it occurs, only the final newline follows -/
theorem skrToXml_end_tag_once (r : Response) (h : WriterDomain r) (text pre post : List Char)
    (ht : skrToXml r = .ok (String.ofList text)) (hocc : text = pre ++ "</KSR>".toList ++ post) :
    post = ['\n'] := by
  rw [skrToXml_is_render r h] at ht
  have e : text = renderDoc (treeOf r) := by
    have := Except.ok.inj ht
    exact (String.ofList_injective this).symm
  have hp : "</KSR>".toList = endPat := by decide
  rw [e, renderDoc_treeOf, hp] at hocc
  exact (end_occurs_once (docBody r) (docBody_no_end r h) pre post hocc).2

/-- **C11, truncation clause, text level.**  Every proper prefix of an emitted file other than
    "everything but the final newline" does not contain the closing tag `</KSR>` of the root element. -/
theorem C11_prefix (r : Response) (h : WriterDomain r) (text p : List Char)
    (ht : skrToXml r = .ok (String.ofList text))
    (hp : p <+: text) (hne : p ≠ text) (hne2 : p ≠ text.dropLast) :
    ¬ "</KSR>".toList <:+: p := by
  rw [skrToXml_is_render r h] at ht
  have e : text = renderDoc (treeOf r) := by
    have := Except.ok.inj ht
    exact (String.ofList_injective this).symm
  have hpat : "</KSR>".toList = endPat := by decide
  rw [hpat]
  rw [e, renderDoc_treeOf] at hp hne hne2
  exact prefix_lacks_end (docBody r) (docBody_no_end r h) p hp hne hne2

/-- The repository's reader (package D's model of `_find_end_of_element`) raises when the end tag of
    the element it is reading does not occur in the text — the reader-side half of the truncation
    clause, here for the root element and a prefix as in `C11_prefix`. -/
theorem C11_prefix_reader_raises (r : Response) (h : WriterDomain r) (text p : List Char)
    (ht : skrToXml r = .ok (String.ofList text))
    (hp : p <+: text) (hne : p ≠ text) (hne2 : p ≠ text.dropLast) (start : Nat) (sub : List Char)
    (hsub : sub <:+: p) :
    Kskm.Xml.findEndOfElement sub start "KSR".toList = none := by
  apply Kskm.Xml.findEndOfElement_none
  intro hocc
  have hpat : Kskm.Xml.endTag "KSR".toList = "</KSR>".toList := by decide
  rw [hpat] at hocc
  exact C11_prefix r h text p ht hp hne hne2 (List.IsInfix.trans hocc hsub)

/-- The truncation clause for ANY reader that insists on the root's closing tag and ignores a missing
    final newline: every proper prefix fails to load or loads to the identical response.  The two
    hypotheses are what package D's reader theorems (C12 / C13) have to supply for `responseFromXml`;
    the first is `C11_prefix_reader_raises` above once the reader is known to look for `</KSR>`
    in a slice of its input. -/
theorem C11_prefix_any_reader (read : List Char → Res Response)
    (insists : ∀ s, ¬ "</KSR>".toList <:+: s → ∀ x, read s ≠ .ok x)
    (r : Response) (h : WriterDomain r) (text : List Char) (ht : skrToXml r = .ok (String.ofList text))
    (newline : read text.dropLast = read text) (p : List Char) (hp : p <+: text) (hne : p ≠ text) :
    (∀ x, read p ≠ .ok x) ∨ read p = read text := by
  by_cases h2 : p = text.dropLast
  · right; rw [h2, newline]
  · left; exact insists p (C11_prefix r h text p ht hp hne h2)

/-! ## Schema -/

/-- **C11, schema clause.**  The tree the writer renders conforms to the Response side of
    schema/ksr.rnc (`Rnc.start`: element names, order, cardinalities, attribute sets, the integer
    datatypes with their facets), for every interpretation of `xsd:dateTime` / `xsd:duration` /
    `xsd:base64Binary` that accepts what the writer's two codecs print and canonical base64. -/
theorem C11_schema (dt : Rnc.Datatypes) (acc : Rnc.Accepts dt) (r : Response) (h : WriterDomain r) :
    Rnc.start dt (treeOf r) :=
  Rnc.treeOf_conforms dt acc r h

/-! ## Round trip -/

/-
  THE STATEMENT (DESIGN §4-C11), now proved below as `C11_roundtrip`:

      for every response r of the writer's domain, `skr_to_xml(r)` succeeds and the repository's
      reader applied to that text — `response_from_xml`: the hand-written tag matcher,
      `_find_end_of_element`, `_store_element`, the dict → data-class glue — returns r.

  It is the composition of
    (1) `skrToXml_is_render`:  the text is `renderDoc (treeOf r)`;
    (2) `C11_text_is_plain_xml`:  that text is, character for character,
          XML declaration ++ "\n" ++ `Xml.renderT t'` ++ "\n"
        for a PlainXml tree t' = `toP [] (treeOf r)` whose layout is the writer's (no blank inside a
        start tag, one blank before each attribute, explicit end tags, `<RSA …/>` for the empty element,
        "\n" + four blanks per level between elements) and whose nesting depth is 5 — the domain of
        package D's reader theorem;
    (3) `C12.C12_reader_ksr`:  hence `parse_ksr` returns `dictOf t'` (`C11_reader_on_writer`);
    (4) the glue on that dict, element by element, with C12's repetition theorems for Key / Signature /
        SignatureAlgorithm / ResponseBundle (one occurrence is stored as the value, several as a list).

  HYPOTHESES, and why each is there:
    * `WriterDomain r` — as before (no timestamp, RSA policies, whole-second durations, years
      1000…9999, …).  Its conditions on STRINGS are exactly `ReadBack.TextSafe r`
      (`C11_textSafe`): attribute values (KSR id, domain, bundle ids, key identifiers) not empty
      and free of `"` `<` `>` `&` and control characters; element text (signer's name, the two base64
      texts) free of those and `strip()`-stable.  Step (2)/(3) need nothing else of r.  Everything
      the signer prints itself is safe for EVERY value (`C11_own_output_is_safe`: decimal integers,
      timestamps, durations, base64); only the copied strings remain a genuine hypothesis
      (`ReadBack.textSafe_of_ids`).  The excluded points are genuine: F6 (a line break in element text is
      re-indented by the writer), and the reader does not decode entities.
    * `Constructible r` — the invariants pydantic enforces on every `Key` / `Signature` OBJECT: the
      algorithm number is a member of `AlgorithmDNSSEC`, `Key.validate` accepts (flags ∈ {256, 257, 385};
      ECDSA key length).  The model's `Response` is wider than Python's (a `Nat` for the enum), and the
      reader builds the objects anew, re-running the validators; a Python `Response` always satisfies it.
    * `KskmGen.wrapsSingleResponseBundle = true ∨ 2 ≤ r.bundles.length` — finding F12: on the pinned tree a
      one-bundle SKR does not load (`C11_roundtrip_one_bundle_pinned` proves that side, for the writer's
      own text); the switch is tabulated from the code and `C11_roundtrip_current_tree` names its
      value now.
  WHAT COMES BACK: `normalise r` — the same response with `set` fields as the reader builds them
  (duplicate-free, keys in the writer's key-tag order) — which is the same Python object as r
  (`ReadBack.SameResponse`: equal field by field, set fields equal as sets), and IDENTICAL to r, as a
  list-carrying record, when r is already in that representation (`ReadBack.Canonical`).  Bundles: the
  reader sorts them by (expiration, inception, id); `WriterDomain` includes `bundlesSorted`, so the order
  is unchanged, for either value of `sortsResponseBundles`.
  Nothing is missing from the statement; `C11_roundtrip_partial` (the earlier, reader-free part) is kept.
-/

/-- **C11, round trip — the part that does not need the reader's tag matcher.** -/
theorem C11_roundtrip_partial (r : Response) (h : WriterDomain r) :
    skrToXml r = .ok (String.ofList (renderDoc (treeOf r))) ∧
    extractResponse (treeOf r) = .ok (canonical r) ∧
    (canonical r).bundles.length = r.bundles.length ∧
    (∀ (i : Nat) (b b' : Bundle), r.bundles[i]? = some b → (canonical r).bundles[i]? = some b' →
      b'.keys.Perm b.keys ∧ b'.id = b.id ∧ b'.inception = b.inception ∧ b'.expiration = b.expiration ∧
        b'.signatures = b.signatures) ∧
    (canonical r).id = r.id ∧ (canonical r).serial = r.serial ∧ (canonical r).domain = r.domain ∧
    (canonical r).kskPolicy = r.kskPolicy ∧ (canonical r).zskPolicy = r.zskPolicy := by
  refine ⟨skrToXml_is_render r h, extract_treeOf r h, by simp [canonical], ?_, rfl, rfl, rfl, rfl, rfl⟩
  intro i b b' hb hb'
  simp only [canonical, List.getElem?_map, hb, Option.map_some, Option.some.injEq] at hb'
  subst hb'
  exact ⟨List.mergeSort_perm _ _, rfl, rfl, rfl, rfl⟩

/-- single field round trips used above, stated on their own: `int(str(i)) = i` -/
theorem int_roundtrip (i : Int) (h0 : 0 ≤ i) (hp : printable i = true) : pyInt (pyIntStr i) = .ok (some i) :=
  pyInt_pyIntStr i h0 hp

/-- one key element / one signature element / one policy block read back exactly -/
theorem element_roundtrips :
    (∀ k, keyOk k = true → extractKey (keyTree k) = .ok k) ∧
    (∀ s, sigOk s = true → extractSig (sigTree s) = .ok s) ∧
    (∀ name p, policyOk p = true → extractPolicy (policyTree name p) = .ok p) :=
  ⟨extractKey_keyTree, extractSig_sigTree, extractPolicy_policyTree⟩

/-! ## Round trip through the repository's reader -/

section RoundTrip
open Kskm.ReadBack

/-- the invariants pydantic enforces on the `Key` and `Signature` objects of a response -/
def Constructible (r : Response) : Prop := constructible r = true

instance (r : Response) : Decidable (Constructible r) := by unfold Constructible; infer_instance

/-- what the repository's reader (current tree) makes of a response -/
def normalise (r : Response) : Response := readBackWith Xml.pyGlueSwitches r

/-- the string conditions inside `WriterDomain` are exactly `TextSafe` -/
theorem C11_textSafe (r : Response) (h : WriterDomain r) : TextSafe r := textSafe_of_domain r h

/-- **What the signer prints itself is safe, for every value**: decimal integers, timestamps, durations
    and base64 text consist of visible, markup-free characters only (`Ink`), hence satisfy the domain's
    condition on element text — no hypothesis on the numbers, instants, durations or octets. -/
theorem C11_own_output_is_safe :
    (∀ i : Int, Ink (pyIntStr i)) ∧ (∀ n : Nat, Ink (natStr n)) ∧
    (∀ t : Int, Ink (formatDatetime t).toList) ∧ (∀ d : Int, Ink (formatDuration d).toList) ∧
    (∀ b : Bytes, Ink (Base64.encode b).toList) ∧
    (∀ s : String, (Base64.decode s).isSome = true → Ink s.toList) ∧
    (∀ s : String, Ink s.toList → elemTextOk s = true) :=
  ⟨ink_pyIntStr, ink_natStr, ink_formatDatetime, ink_formatDuration, ink_encode, ink_of_base64, elemTextOk_of_ink⟩

/-- **Step 1 of the composition: the writer's text is a PlainXml rendering** in the domain of C12's
    reader theorem — needs `TextSafe r` only. -/
theorem C11_text_is_plain_xml (r : Response) (h : TextSafe r) :
    renderDoc (treeOf r) = (xmlDecl ++ ['\n']) ++ Xml.renderT (toP [] (treeOf r)) ++ ['\n'] ∧
    Xml.PlainT Xml.pyClasses (toP [] (treeOf r)) ∧ Xml.heightT (toP [] (treeOf r)) ≤ 5 ∧
    Xml.Ws Xml.pyClasses ['\n'] :=
  ⟨renderDoc_eq_renderT _, plainT_toP _ _ Blank.nil (treeOf_plain r h),
    Nat.le_trans (heightT_toP _ _) (heightX_treeOf r),
    by intro c hc; simp only [List.mem_singleton] at hc; subst hc; exact strip_blank.2⟩

/-- **Step 2: the repository's reader on the writer's text** returns the dict of the standard reading of
    that text (`C12.C12_reader_ksr` at the writer's layout), for either behaviour of the attribute loop. -/
theorem C11_reader_on_writer (sw : Xml.Switches) (r : Response) (h : WriterDomain r) :
    ∃ text, skrToXml r = .ok text ∧
      Xml.parseKsr Xml.pyClasses sw text.toList = .ok (Xml.dictOf (toP [] (treeOf r))) := by
  refine ⟨_, skrToXml_is_render r h, ?_⟩
  rw [String.toList_ofList, dictOf_treeOf]
  exact parseKsr_renderDoc sw r (textSafe_of_domain r h)

/-- **C11, round trip, for every value of the behaviour switches** (attribute loop; glue). -/
theorem C11_roundtrip_switches (sw : Xml.Switches) (gs : Xml.GlueSwitches) (r : Response) (h : WriterDomain r)
    (hc : Constructible r) (hsw : gs.wrapsSingleResponseBundle = true ∨ 2 ≤ r.bundles.length) :
    ∃ text, skrToXml r = .ok text ∧
      Xml.responseFromXmlL Xml.pyClasses sw gs text.toList = .done (.ok (readBackWith gs r)) ∧
      SameResponse (readBackWith gs r) r ∧ (Canonical r → readBackWith gs r = r) := by
  refine ⟨_, skrToXml_is_render r h, ?_, readBack_same gs r h, readBack_eq_self gs r h⟩
  rw [String.toList_ofList]
  exact responseFromXmlL_renderDoc sw gs r h hc hsw

/-- **C11, round trip.**  Every response of the writer's domain, written by `skr_to_xml` and read back
    by the repository's `response_from_xml`, yields the same response: `normalise r`, which is r up to
    the list representation of its `set` fields, and r itself when r is in canonical representation. -/
theorem C11_roundtrip (r : Response) (h : WriterDomain r) (hc : Constructible r)
    (hsw : KskmGen.wrapsSingleResponseBundle = true ∨ 2 ≤ r.bundles.length) :
    ∃ text, skrToXml r = .ok text ∧ Xml.responseFromXml text = .ok (normalise r) ∧
      SameResponse (normalise r) r ∧ (Canonical r → normalise r = r) := by
  obtain ⟨text, h1, h2, h3, h4⟩ := C11_roundtrip_switches Xml.pySwitches Xml.pyGlueSwitches r h hc hsw
  refine ⟨text, h1, ?_, h3, h4⟩
  unfold Xml.responseFromXml
  rw [h2]
  rfl

/-- the tree in /repo now: one bundle is enough (F12 repaired) -/
theorem C11_roundtrip_current_tree (r : Response) (h : WriterDomain r) (hc : Constructible r) :
    ∃ text, skrToXml r = .ok text ∧ Xml.responseFromXml text = .ok (normalise r) ∧
      SameResponse (normalise r) r ∧ (Canonical r → normalise r = r) :=
  C11_roundtrip r h hc (Or.inl (by decide))

/-- … read back IDENTICALLY when the response is in the reader's representation -/
theorem C11_roundtrip_identical (r : Response) (h : WriterDomain r) (hc : Constructible r) (hcan : Canonical r) :
    ∃ text, skrToXml r = .ok text ∧ Xml.responseFromXml text = .ok r := by
  obtain ⟨text, h1, h2, _, h4⟩ := C11_roundtrip_current_tree r h hc
  exact ⟨text, h1, by rw [h2, h4 hcan]⟩

/-- **F12, the other value of the switch**: with the pinned glue the writer's own text of a ONE-bundle
    response makes `response_from_xml` raise TypeError. -/
theorem C11_roundtrip_one_bundle_pinned (sw : Xml.Switches) (gs : Xml.GlueSwitches)
    (hgs : gs.wrapsSingleResponseBundle = false) (r : Response) (h : WriterDomain r) (b : Bundle)
    (hb : r.bundles = [b]) :
    ∃ text, skrToXml r = .ok text ∧ Xml.responseFromXmlL Xml.pyClasses sw gs text.toList = .done (err .type) := by
  refine ⟨_, skrToXml_is_render r h, ?_⟩
  rw [String.toList_ofList]
  exact responseFromXmlL_renderDoc_pinned sw gs hgs r (textSafe_of_domain r h) b hb

/-- reading is idempotent: what comes back is in the reader's representation of sets -/
theorem normalise_sets (r : Response) (h : WriterDomain r) :
    (normalise r).kskPolicy.algorithms.Nodup ∧ (normalise r).zskPolicy.algorithms.Nodup ∧
    ∀ b ∈ (normalise r).bundles, b.keys.Nodup ∧ b.signatures.Nodup := by
  refine ⟨nodup_dedup _, nodup_dedup _, ?_⟩
  intro b hb
  have hbs := readBack_bundles Xml.pyGlueSwitches r (domain_parts r h).sorted
  unfold normalise at hb
  rw [hbs] at hb
  obtain ⟨b0, _, rfl⟩ := List.mem_map.mp hb
  exact ⟨nodup_dedup _, nodup_dedup _⟩

end RoundTrip

/-! ## Non-vacuity: a concrete response of the domain -/

def exKey (id : String) (tag : Int) (flags : Int) : Key :=
  { keyIdentifier := id, keyTag := tag, ttl := 172800, flags := flags, protocol := 3, algorithm := 8,
    publicKey := "AwEAAag=" }

def exSig : Signature :=
  { keyIdentifier := "KSK-1", ttl := 172800, algorithm := 8, labels := 0, originalTtl := 172800,
    expiration := 1516579200000000, inception := 1514764800000000, keyTag := 20326, signersName := ".",
    signatureData := "AAAA" }

def exPolicy : SigPolicy :=
  { publishSafety := 0, retireSafety := 2419200000000, maxSignatureValidity := 1814400000000,
    minSignatureValidity := 1814400000000, maxValidityOverlap := 3600000000, minValidityOverlap := 61000000,
    algorithms := [{ kind := .rsa, bits := 2048, algorithm := 8, exponent := some 65537 }] }

def exBundle (id : String) : Bundle :=
  { id := id, inception := 1514764800000000, expiration := 1516579200000000,
    keys := [exKey "KSK-1" 20326 257, exKey "ZSK-1" 1024 256, exKey "KSK-0" 19164 385], signatures := [exSig] }

def exResponse : Response :=
  { id := "4fe9bb10-6f6b", serial := 7, domain := ".", zskPolicy := exPolicy, kskPolicy := exPolicy,
    bundles := [exBundle "b-1", exBundle "b-2"] }

/-- the example is in the domain (a revoked key, three keys out of tag order, boundary durations) -/
example : WriterDomain exResponse := by decide +kernel

/-- … its strings are safe, its objects constructible: it meets every hypothesis of `C11_roundtrip` -/
example : ReadBack.TextSafe exResponse ∧ Constructible exResponse := by
  constructor <;> decide +kernel

/-- … so it reads back as the same Python object; its keys stand out of key-tag order, so the list
    representation differs (`normalise` sorts them) -/
example : ∃ text, skrToXml exResponse = .ok text ∧ Xml.responseFromXml text = .ok (normalise exResponse) ∧
    ReadBack.SameResponse (normalise exResponse) exResponse :=
  let ⟨t, h1, h2, h3, _⟩ := C11_roundtrip_current_tree exResponse (by decide +kernel) (by decide +kernel)
  ⟨t, h1, h2, h3⟩

example : ¬ ReadBack.Canonical exResponse := by
  unfold ReadBack.Canonical exResponse exBundle exKey
  decide

/-- the same response with the keys of each bundle in key-tag order, and ONE bundle (F12's shape) -/
def exCanonical : Response :=
  { exResponse with bundles := [{ exBundle "b-1" with keys := [exKey "ZSK-1" 1024 256, exKey "KSK-0" 19164 385,
      exKey "KSK-1" 20326 257] }] }

theorem exCanonical_ok : WriterDomain exCanonical ∧ Constructible exCanonical ∧ ReadBack.Canonical exCanonical := by
  refine ⟨by decide +kernel, by decide +kernel, ?_⟩
  unfold ReadBack.Canonical exCanonical exResponse exBundle exKey exPolicy
  decide

/-- … is read back identically -/
example : ∃ text, skrToXml exCanonical = .ok text ∧ Xml.responseFromXml text = .ok exCanonical :=
  C11_roundtrip_identical exCanonical exCanonical_ok.1 exCanonical_ok.2.1 exCanonical_ok.2.2

/-! ## ISO week dates (work package B2)

  `parse_datetime` is `datetime.fromisoformat`, which since Python 3.11 also reads ISO 8601 week dates.  The model's
  week branch (`Kskm.isoToCivil`, Kskm/TimeWeek.lean + Kskm/Time.lean) is specified here against the standard's
  own definition (week 1 = the week with 4 January; long years) and against `date.isocalendar` (`Kskm.isoCalendar`,
  Kskm/TimeIsoCal.lean), for ALL years — the `datetime` range 1 … 9999 is checked by the caller. -/
section IsoWeek
open Kskm.C11Week


/-- what `isoToCivil` answers: the civil date of a day number produced by `isoWeekDayNumber` -/
theorem isoToCivil_some (y : Int) (w d : Nat) (c : Civil) (h : isoToCivil y w d = some c) :
    ∃ z, isoWeekDayNumber (jan1Of y) (isLeap y) w d = some z ∧ c = civilOfDays z := by
  unfold isoToCivil at h
  cases hz : isoWeekDayNumber (daysOfCivil { year := y, month := 1, day := 1 }) (isLeap y) w d with
  | none => simp [hz] at h
  | some z =>
    simp only [hz, Option.map_some, Option.some.injEq] at h
    exact ⟨z, hz, h.symm⟩

/-- (1) The week-date branch of `fromisoformat` yields a real calendar date or an error, for every year,
    week and day. -/
theorem isoToCivil_valid (y : Int) (w d : Nat) (c : Civil) (h : isoToCivil y w d = some c) : c.valid = true :=
  C11Week.isoToCivil_valid y w d c h

/-- (2) ISO 8601's definition of week 1: `YYYY-W01-1` is a Monday, and its week (that Monday … the Sunday six
    days later) contains 4 January of the year — stated with the civil-date functions of `Kskm.Time`. -/
theorem isoWeek1_contains_jan4 (y : Int) :
    ∃ c, isoToCivil y 1 1 = some c ∧ weekdayOfDays (daysOfCivil c) = 0 ∧
      daysOfCivil c ≤ daysOfCivil { year := y, month := 1, day := 4 } ∧
      daysOfCivil { year := y, month := 1, day := 4 } < daysOfCivil c + 7 := by
  refine ⟨civilOfDays (isoWeek1Monday (jan1Of y)), ?_, ?_⟩
  · simp [isoToCivil, isoWeekDayNumber, jan1Of]
  · rw [daysOfCivil_civilOfDays, jan4_eq]
    exact week1Monday_spec (jan1Of y)

/-- (3) every accepted (week, day) is day `d` of week `w`: `7·(w−1) + (d−1)` days after the Monday of week 1,
    so its weekday is `d` (1 = Monday … 7 = Sunday). -/
theorem isoToCivil_offset (y : Int) (w d : Nat) (c : Civil) (h : isoToCivil y w d = some c) :
    ∃ c1, isoToCivil y 1 1 = some c1 ∧ daysOfCivil c = daysOfCivil c1 + 7 * ((w : Int) - 1) + ((d : Int) - 1) ∧
      weekdayOfDays (daysOfCivil c) = (d : Int) - 1 := by
  obtain ⟨z, hz, rfl⟩ := isoToCivil_some y w d c h
  obtain ⟨c1, h1, -⟩ := isoWeek1_contains_jan4 y
  obtain ⟨z1, hz1, rfl⟩ := isoToCivil_some y 1 1 c1 h1
  refine ⟨_, h1, ?_, ?_⟩
  · rw [daysOfCivil_civilOfDays, daysOfCivil_civilOfDays]
    have a := (isoWeekDayNumber_some _ _ _ _ _ hz).2.2.2.2
    have b := (isoWeekDayNumber_some _ _ _ _ _ hz1).2.2.2.2
    omega
  · rw [daysOfCivil_civilOfDays]
    exact isoWeekDayNumber_weekday _ _ _ _ _ hz

/-- (4) which weeks exist: 1 … 52 always, 53 exactly in the long years — those in which 31 December falls in
    week 53, i.e. 1 January is a Thursday, or a Wednesday of a leap year. -/
theorem isoToCivil_isSome_iff (y : Int) (w d : Nat) :
    (isoToCivil y w d).isSome = true ↔
      1 ≤ d ∧ d ≤ 7 ∧ 1 ≤ w ∧ (w ≤ 52 ∨ (w = 53 ∧ (weekdayOfDays (jan1Of y) = 3 ∨ (weekdayOfDays (jan1Of y) = 2 ∧ isLeap y = true)))) := by
  unfold isoToCivil isoWeekDayNumber hasWeek53
  rw [show daysOfCivil { year := y, month := 1, day := 1 } = jan1Of y from rfl]
  generalize weekdayOfDays (jan1Of y) = k
  cases isLeap y <;> simp
  all_goals (repeat' split) <;> simp <;> omega

/-- (5) ROUND TRIP: `date.isocalendar()` of the date that `fromisoformat` reads from `YYYY-Www-d` is
    (YYYY, ww, d) again — for every year (no range bound), every existing week and day. -/
theorem isoWeek_roundtrip (y : Int) (w d : Nat) (c : Civil) (h : isoToCivil y w d = some c) :
    isoCalendar (daysOfCivil c) = (y, (w : Int), (d : Int)) := by
  obtain ⟨z, hz, rfl⟩ := isoToCivil_some y w d c h
  rw [daysOfCivil_civilOfDays]
  have hv := civilOfDays_valid z
  have hb := year_bounds (civilOfDays z) hv
  rw [daysOfCivil_civilOfDays] at hb
  have hnear := isoWeekDayNumber_near_year _ _ _ _ _ hz
  have hrt := isoCalendarRel_roundtrip (jan1Of y) (isLeap y) (isLeap (y - 1)) (isLeap (y + 1)) w d z hz
  have hs := jan1Of_succ y
  have hp := jan1Of_pred y
  have hss := jan1Of_succ (y + 1)
  have hpp := jan1Of_pred (y - 1)
  have hl : ∀ b, yearLen b = 365 ∨ yearLen b = 366 := by intro b; cases b <;> simp [yearLen]
  unfold isoCalendar
  simp only []
  by_cases c1 : z < jan1Of y
  · have hy : (civilOfDays z).year = y - 1 := by
      refine year_unique _ _ z hb.1 hb.2 ?_ ?_
      · have := hl (isLeap (y - 1)); omega
      · rw [show y - 1 + 1 = y by omega]; exact c1
    rw [hy, show y - 1 + 1 = y by omega, hp]
    have := hrt.2.1 c1 (jan1Of (y - 1 - 1))
    rw [this]
    simp <;> omega
  · by_cases c2 : z < jan1Of y + yearLen (isLeap y)
    · have hy : (civilOfDays z).year = y := by
        refine year_unique _ _ z hb.1 hb.2 (by omega) ?_
        rw [hs]; exact c2
      rw [hy, hp, hs, hrt.1 (by omega) c2]
      simp
    · have hy : (civilOfDays z).year = y + 1 := by
        refine year_unique _ _ z hb.1 hb.2 (by rw [hs]; omega) ?_
        rw [hss, hs]
        have := hl (isLeap (y + 1)); omega
      rw [hy, show y + 1 - 1 = y by omega, hss, hs, hrt.2.2 (by omega)]
      simp <;> omega

/-- (6) THE TEXT: `parse_datetime("YYYY-Www-d")` is the ISO 8601 day — midnight UTC of the date `isoToCivil` names —
    whenever that date exists and lies in `datetime`'s years 1 … 9999, and a `ValueError` otherwise; for every
    four-digit year, two-digit week and one-digit day (so also `W00`, `W54`, day 0, 8, 9: all refused by (4)). -/
theorem week_text_reads (Y w d : Nat) (hY : Y ≤ 9999) (hw : w ≤ 99) (hd : d ≤ 9) :
    parseDatetimeChars [Nat.digitChar (Y / 1000), Nat.digitChar (Y / 100 % 10), Nat.digitChar (Y / 10 % 10),
        Nat.digitChar (Y % 10), '-', 'W', Nat.digitChar (w / 10), Nat.digitChar (w % 10), '-', Nat.digitChar d]
      = (match isoToCivil (Y : Int) w d with
         | none => err .value
         | some c => if !(decide (1 ≤ c.year) && decide (c.year ≤ 9999)) then err .value
                     else pure (daysOfCivil c * usPerDay)) := by
  have b1 : Y / 1000 < 10 := by omega
  have b2 : Y / 100 % 10 < 10 := by omega
  have b3 : Y / 10 % 10 < 10 := by omega
  have b4 : Y % 10 < 10 := by omega
  have b5 : w / 10 < 10 := by omega
  have b6 : w % 10 < 10 := by omega
  have b7 : d < 10 := by omega
  have hstrip : stripTrailingZ ([Nat.digitChar (Y / 1000), Nat.digitChar (Y / 100 % 10), Nat.digitChar (Y / 10 % 10),
      Nat.digitChar (Y % 10), '-', 'W', Nat.digitChar (w / 10), Nat.digitChar (w % 10), '-'] ++ [Nat.digitChar d])
      = _ := stripTrailingZ_snoc _ _ (by
        intro e
        have := isDigit_digitChar_lt b7
        rw [e] at this
        revert this; decide)
  unfold parseDatetimeChars
  rw [show [Nat.digitChar (Y / 1000), Nat.digitChar (Y / 100 % 10), Nat.digitChar (Y / 10 % 10),
      Nat.digitChar (Y % 10), '-', 'W', Nat.digitChar (w / 10), Nat.digitChar (w % 10), '-', Nat.digitChar d]
      = [Nat.digitChar (Y / 1000), Nat.digitChar (Y / 100 % 10), Nat.digitChar (Y / 10 % 10),
      Nat.digitChar (Y % 10), '-', 'W', Nat.digitChar (w / 10), Nat.digitChar (w % 10), '-'] ++ [Nat.digitChar d] from rfl,
    hstrip]
  simp only [List.cons_append, List.nil_append]
  rw [fromIso_week_chars _ _ _ _ _ _ _ (isDigit_digitChar_lt b1) (isDigit_digitChar_lt b2) (isDigit_digitChar_lt b3)
    (isDigit_digitChar_lt b4) (isDigit_digitChar_lt b5) (isDigit_digitChar_lt b6) (isDigit_digitChar_lt b7)]
  simp only [sub48 _ b1, sub48 _ b2, sub48 _ b3, sub48 _ b4, sub48 _ b5, sub48 _ b6, sub48 _ b7]
  have e1 : (((0 * 10 + Y / 1000) * 10 + Y / 100 % 10) * 10 + Y / 10 % 10) * 10 + Y % 10 = Y := by omega
  have e2 : (0 * 10 + w / 10) * 10 + w % 10 = w := by omega
  have e3 : 0 * 10 + d = d := by omega
  rw [e1, e2, e3]
  cases isoToCivil (Y : Int) w d <;> rfl

/-- e.g. "2020-W53-7" is 3 January 2021, "2021-W53-1" and "9999-W52-6" are refused -/
example : parseDatetime "2020-W53-7" = .ok 1609632000000000 ∧ parseDatetime "2021-W53-1" = err .value ∧
    parseDatetime "9999-W52-6" = err .value ∧ parseDatetime "2020W537T2359Z" = .ok 1609718340000000 ∧
    parseDuration "P٣DT１٢M" = .ok 259920000000 ∧ pyInt " ٣　".toList = .ok (some 3) := by decide +kernel

/-- the hypotheses are met by concrete non-trivial inputs: 2020 is a long year (leap, starts on a Wednesday):
    2020-W53-7 is 3 January 2021 and reads back; 2021 has no week 53; 9999-W52-6 leaves the range of `datetime`
    (year 10000, still a real date — the caller's range check refuses it). -/
example : isoToCivil 2020 53 7 = some { year := 2021, month := 1, day := 3 } ∧
    isoCalendar (daysOfCivil { year := 2021, month := 1, day := 3 }) = (2020, 53, 7) ∧
    isoToCivil 2021 53 1 = none ∧ isoToCivil 2024 1 1 = some { year := 2024, month := 1, day := 1 } ∧
    isoToCivil 2021 1 1 = some { year := 2021, month := 1, day := 4 } ∧
    isoToCivil 9999 52 6 = some { year := 10000, month := 1, day := 1 } ∧
    isoToCivil 1 1 1 = some { year := 1, month := 1, day := 1 } := by decide +kernel

end IsoWeek

/-! ### (7) nothing is declined

  Since work package B2 the three text readers of the model answer EVERY text — a value or a Python exception —
  never `unsupported` (ISO week dates, non-ASCII octets, Unicode decimal digits and white space are modelled):
  `parseDatetime_answers`, `parseDuration_answers`, `pyInt_answers`; the correspondence harness accordingly
  counts an `unsupported` answer of these operations as a disagreement. -/

theorem pyInt_answers (s : List Char) : pyInt s ≠ unsupported := by
  unfold pyInt unsupported
  repeat' split
  all_goals simp [pure, Except.pure]

theorem fromIsoGeneral_answers (cs : List Char) : fromIsoGeneral cs ≠ unsupported := by
  unfold fromIsoGeneral unsupported
  simp only []
  repeat' split
  all_goals simp [pure, Except.pure, err]

theorem parseDatetime_answers (s : String) : parseDatetime s ≠ unsupported := by
  unfold parseDatetime parseDatetimeChars fromIsoChars
  simp only []
  repeat' split
  all_goals first
    | exact fromIsoGeneral_answers _
    | simp [pure, Except.pure, err, unsupported]

theorem tdCheck_answers (us : Int) : tdCheck us ≠ unsupported := by
  unfold tdCheck unsupported; split <;> simp [pure, Except.pure, err]

theorem durationStepUni_answers (s : List Char) (ts : Bool) (acc : Int) : durationStepUni s ts acc ≠ unsupported := by
  intro h
  unfold durationStepUni at h
  simp only [bind, Except.bind, pure, Except.pure] at h
  repeat' split at h
  all_goals first
    | (simp [err, unsupported] at h; done)
    | (rename_i heq
       simp only [unsupported, Except.error.injEq] at h
       subst h
       first | exact absurd heq (tdCheck_answers _) | exact absurd heq (pyInt_answers _)
             | (simp [err] at heq; done))

theorem durationStep_answers (s : List Char) (ts : Bool) (acc : Int) : durationStep s ts acc ≠ unsupported := by
  intro h
  unfold durationStep at h
  simp only [bind, Except.bind, pure, Except.pure] at h
  repeat' split at h
  all_goals first
    | exact absurd h (durationStepUni_answers _ _ _)
    | (first
      | (simp [err, unsupported] at h; done)
      | (rename_i heq
         simp only [unsupported, Except.error.injEq] at h
         subst h
         first | exact absurd heq (tdCheck_answers _) | exact absurd heq (pyInt_answers _)
               | (simp [err] at heq; done)))

theorem parseDurationLoop_answers (fuel : Nat) (s : List Char) (ts : Bool) (acc : Int) :
    parseDurationLoop fuel s ts acc ≠ unsupported := by
  induction fuel generalizing s ts acc with
  | zero => unfold parseDurationLoop; split <;> simp [pure, Except.pure, err, unsupported]
  | succ n ih =>
    unfold parseDurationLoop
    split
    · simp [pure, Except.pure, unsupported]
    · split
      · rename_i e heq
        intro h
        simp only [unsupported, Except.error.injEq] at h
        subst h
        exact durationStep_answers _ _ _ heq
      · simp [pure, Except.pure, unsupported]
      · exact ih _ _ _

theorem parseDuration_answers (s : String) : parseDuration s ≠ unsupported := by
  unfold parseDuration parseDurationChars
  split
  · simp [pure, Except.pure, unsupported]
  · exact parseDurationLoop_answers _ _ _ _
  · simp [err, unsupported]

example : parseDatetime "2024-W05\u00e9" = err .value ∧ parseDuration "P1\u00b2D" = err .value ∧ pyInt "\u00bd".toList = .ok none := by
  decide +kernel

end Kskm.C11
