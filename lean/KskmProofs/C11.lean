/-
  C11 — an emitted SKR reads back identically, fits the schema; no truncation loads.

  Model: `Kskm.Duration` / `Kskm.Time` (the two codecs, reader and writer side), `Kskm.SkrXml`
  (`skr_to_xml` as text, `_indent` exactly).  Helper lemmas: KskmProofs/Lemmas/C11*.lean.
-/
import KskmProofs.Lemmas.C11Duration
import KskmProofs.Lemmas.C11Datetime
namespace Kskm.C11

/-! ## Durations -/

/-- Every whole-second, non-negative duration that a `timedelta` can hold (|days| ≤ 999 999 999)
    is read back exactly from the text the writer prints for it. -/
theorem duration_roundtrip (d : Int) (h0 : 0 ≤ d) (hs : d % 1000000 = 0) (hmax : d / usPerDay ≤ 999999999) :
    parseDuration (formatDuration d) = .ok d := by
  simp only [parseDuration, formatDuration, String.toList_ofList]
  exact duration_roundtrip_chars d h0 hs hmax

/-- What is lost outside that domain (both replayed on the implementation by harness/corr_C11.py):
    the microseconds field is not written — a sub-second duration prints as "P" and reads back as 0,
    1.000001 s reads back as 1 s; a negative duration prints with a signed day count ("P-1DT23H59M59S"),
    which the reader refuses. -/
theorem duration_fraction_lost :
    formatDuration 500000 = "P" ∧ parseDuration (formatDuration 500000) = .ok 0 ∧
    parseDuration (formatDuration 1000001) = .ok 1000000 := by decide

theorem duration_negative_not_read :
    formatDuration (-1000000) = "P-1DT23H59M59S" ∧ parseDuration (formatDuration (-1000000)) = .error (.error .value) := by
  decide

/-- the strict `>` comparisons of the writer: exactly one hour prints as sixty minutes, exactly one
    minute as sixty seconds — and both read back exactly (instances of `duration_roundtrip`) -/
example : formatDuration 3600000000 = "PT60M" ∧ formatDuration 60000000 = "PT60S" ∧
    formatDuration 3601000000 = "PT1H1S" ∧ formatDuration 86400000000 = "P1D" := by decide

/-- the reader's quirks that the round trip does not exercise, pinned: an integer tail is seconds -/
example : parseDuration "P1D5" = .ok 86405000000 ∧ parseDuration "P0D-86400" = .ok (-86400000000) ∧
    parseDuration "P1M" = .error (.error .notImplemented) ∧ parseDuration "PT1M" = .ok 60000000 := by decide

/-- the reader's loop never runs out of fuel (its termination argument) -/
theorem parseDuration_total (s : List Char) (ts : Bool) (acc : Int) (extra : Nat) :
    parseDurationLoop (s.length + extra) s ts acc = parseDurationLoop s.length s ts acc :=
  (parseDurationLoop_fuel_add extra s ts acc).symm

/-! ## Calendar and timestamps -/

/-- day number ↔ civil date: both directions, for every day number and every real calendar date -/
theorem civil_roundtrip :
    (∀ z : Int, daysOfCivil (civilOfDays z) = z ∧ (civilOfDays z).valid = true) ∧
    (∀ c : Civil, c.valid = true → civilOfDays (daysOfCivil c) = c) :=
  ⟨fun z => ⟨daysOfCivil_civilOfDays z, civilOfDays_valid z⟩, civilOfDays_daysOfCivil⟩

/-- the civil year of an instant (µs since the epoch) -/
def yearOf (t : Int) : Int := (civilOfDays (epochSeconds t / 86400)).year

/-- Every whole-second instant of the years 1000 … 9999 is read back exactly from the text the writer
    prints for it. -/
theorem datetime_roundtrip (t : Int) (hs : t % 1000000 = 0) (hy1 : 1000 ≤ yearOf t) (hy2 : yearOf t ≤ 9999) :
    parseDatetime (formatDatetime t) = .ok t := by
  simp only [parseDatetime, formatDatetime, String.toList_ofList]
  exact datetime_roundtrip_chars t hs hy1 hy2

example : yearOf 1500000000000000 = 2017 ∧ formatDatetime 1500000000000000 = "2017-07-14T02:40:00+00:00" := by
  decide

/-- F7: below year 1000 glibc's `%Y` is not zero-padded and `fromisoformat` refuses the text:
    999-12-31T23:59:59Z is a concrete instant that does not round-trip. -/
theorem datetime_year_below_1000_counterexample :
    yearOf (-30610224001000000) = 999 ∧
    formatDatetime (-30610224001000000) = "999-12-31T23:59:59+00:00" ∧
    parseDatetime (formatDatetime (-30610224001000000)) = .error (.error .value) := by decide

/-- microseconds are dropped by the writer -/
example : parseDatetime (formatDatetime 1500000000999999) = .ok 1500000000000000 := by decide

end Kskm.C11
