/-
  C12 — the KSR/SKR reader agrees with a standard XML parser, in any sibling order.

  What "a standards-conforming XML parser extracts" is fixed here by a specification written
  independently of the reader: `PlainXml` trees (KskmProofs/Lemmas/XmlRender.lean) with their rendering
  as text and the dict a standard reading of that text yields (`dictOf`: the element structure, with
  repeated siblings collected in document order).  That `t` IS the standard reading of `render t` is
  what harness/corr_C12.py checks against `xml.etree.ElementTree` on every generated document.

  Theorems in this file:

  * `storeElement_repetition` — n occurrences of a sibling name are stored as the value itself for
    n = 1 and as the list of the n values in document order for n ≥ 2, other names untouched.  This
    is the shape the glue has to cope with.
  * `C12_glue_*` — for Key / Signature / SignatureAlgorithm / RequestBundle the glue treats the single
    shape and the list shape alike (every repetition count ≥ 1 the grammar allows); for Signer and
    ResponseBundle it does so exactly when the behaviour switch tabulated from the code says the single
    value is wrapped (`wrapsSingleSigner`, `wrapsSingleResponseBundle`); with the switch off the
    counterexamples of findings F11 / F12 are proved (`…_counterexample`), and
    `C12_glue_current_tree` states whichever applies to the tree in /repo now.
  * `timestamp_placement_counterexample` — F13: the optional `timestamp` where the schema puts it (on
    `Request`) makes the glue fail with KeyError; on `KSR` (where the schema does not allow it) it is read.
  * `C12_order_key` — sorting bundles by `(expiration, inception, id)` (the repaired glue, requests AND
    responses) gives the same list for every permutation of the input whenever bundle ids are pairwise
    distinct; `C12_order` — the pinned request glue (stable sort by expiration only) does so only when
    expirations are pairwise distinct; `C12_order_bundles` / `C12_order_response_bundles` lift both
    through the glue, for either value of the switches tabulated from the code;
    `C12_order_tie_counterexample` — F8: with the pinned glue and equal expirations document order shows
    through; `C12_order_key_tie` — what remains with the repaired glue: only bundles that agree in
    expiration, inception AND id can still swap.
  * `C12_reader_partial` — reader correctness against `PlainXml`: for every plain tree of any size and
    at most five levels of nesting, `parse (render t) = dictOf t`, where the rendering may use ANY white
    space between elements (none, spaces, tabs, newlines, CR LF, indentation), any white space before
    the closing `>` / `/>` of a start tag that has attributes, the self-closing or the empty-pair form for
    empty elements, and any white space around the document; `C12_reader_ksr` adds what precedes `<KSR`.
    Fixed by THAT rendering: one space before each attribute, the attributes in the order given, the
    prolog condition stated semantically.  The next three items lift these restrictions.
  * `C12_reader_layout` (and `_depth` / `_ksr` / `_py`) — the same with ANY non-empty one-line white space
    in front of every attribute (between the element name and the first attribute, between two attributes):
    `WTree` / `renderW` of KskmProofs/Lemmas/XmlRenderW.lean; `renderT` is the instance "one space"
    (`C12_reader_partial_of_layout`).  `attr_ws_boundaries`: where the reader stops agreeing — a line feed
    between two attributes or before `>`, white space around `=`.
  * `C12_attr_order_reader` — permuting the attributes of any elements of the document (distinct names within
    a start tag) changes the reader's result only up to `DictEq`, Python's `==` on dicts
    (KskmProofs/Lemmas/XmlDictEq.lean); `C12_attr_order` — and `request_from_xml` / `response_from_xml` return
    the SAME object (or raise the same error): the glue cannot tell `DictEq` values apart
    (`requestFromDict_congr` / `responseFromDict_congr`, KskmProofs/Lemmas/XmlGlueEq.lean).
  * `C12_sibling_order` (section 8) — permuting the CHILD ELEMENTS of any elements of the document (keys,
    signatures, signers, signature algorithms, bundles, and children with distinct names such as `Inception` /
    `Expiration` or `RequestPolicy` / `RequestBundle`): the reader's results are `DictPerm` (equal up to the
    order of the lists that collect same-named siblings: `C12_child_order_reader`), `request_from_xml` /
    `response_from_xml` both raise or both return the same object up to the representation of `set` fields —
    the bundle list position by position when ids are pairwise distinct (`SameRequest`) —, and
    `validate_request` / `validate_response` / `load_ksr` / `load_skr` accept both or neither
    (`C12_sibling_order_verdict`, `C12_sibling_order_load_ksr`, `C12_sibling_order_load_skr`).  When only
    differently named siblings change places the loaders return the SAME object or the same error
    (`C12_child_order_distinct_names`).  Not invariant, with witnesses: the exception CLASS when several
    siblings are faulty (`sibling_order_error_class_witness`), the model's list order of a `set`
    (`sibling_order_set_witness`).
  * `C12_reader_prolog` — "anything preceding the KSR element is ignored" for a GRAMMAR of prologs (XML
    declaration, processing instructions, comments, DOCTYPE, white space — none containing the four
    characters `<KSR`); `ksr_in_comment_counterexample`: a comment that does contain `<KSR` is not ignored.
-/
import Kskm.XmlGlue
import KskmProofs.Lemmas.XmlStore
import KskmProofs.Lemmas.XmlReader
import KskmProofs.Lemmas.XmlReaderW
import KskmProofs.Lemmas.XmlGlueEq
import KskmProofs.Lemmas.XmlProlog
import KskmProofs.Lemmas.XmlValidateSame
import KskmProofs.Lemmas.XmlChildPermExample
namespace Kskm.C12
open Kskm.Xml

/-! ## 1. Repeated siblings -/

/-- the dict value `_store_element` leaves for the values `vs` of one name, in document order -/
def repeated : List XVal → XVal
  | [v] => v
  | vs => .list vs

/-- **Repetition.** Storing the values of `n` same-named siblings (none of which is itself a list —
    element values are strings or dicts) under a name not yet present yields: nothing for n = 0, the
    value itself for n = 1, the list of all n values in document order for n ≥ 2; and no other name
    is affected. -/
theorem storeElement_repetition (res : Dict) (name : List Char) (hfresh : res.lookup name = none)
    (vs : List XVal) (hnl : ∀ v ∈ vs, v.isList = false) :
    (storeAll res name vs).lookup name = (if vs = [] then none else some (repeated vs)) ∧
    ∀ k, k ≠ name → (storeAll res name vs).lookup k = res.lookup k := by
  refine ⟨?_, fun k hk => storeAll_other name k hk vs res⟩
  match vs, hnl with
  | [], _ => simpa [storeAll] using hfresh
  | [v], _ =>
    simp only [storeAll, List.foldl, repeated, List.cons_ne_nil, ↓reduceIte]
    exact storeElement_fresh _ _ _ hfresh
  | v₁ :: v₂ :: r, hnl =>
    have h1 := storeElement_fresh res name v₁ hfresh
    have h2 := storeElement_second _ name v₁ v₂ h1 (hnl v₁ (by simp))
    have := storeAll_list name r _ _ h2
    simpa [storeAll, repeated] using this

/-- what the glue's idiom `x if isinstance(x, list) else [x]` makes of a repeated element: the list of
    its occurrences, for every repetition count ≥ 1 -/
theorem asList_repeated (vs : List XVal) (hne : vs ≠ []) (hnl : ∀ v ∈ vs, v.isList = false) :
    (repeated vs).asList = vs := by
  match vs, hne, hnl with
  | [v], _, hnl =>
    have := hnl v (by simp)
    cases v <;> simp_all [repeated, XVal.asList, XVal.isList]
  | _ :: _ :: _, _, _ => simp [repeated, XVal.asList]

/-! ## 2. The glue copes with both shapes — where it does -/

/-- **Key, Signature, SignatureAlgorithm**: every repetition count ≥ 1, single or list shape, yields
    the set of the parsed occurrences. -/
theorem C12_glue_keys (vs : List XVal) (hne : vs ≠ []) (hnl : ∀ v ∈ vs, v.isList = false) :
    keysOf (repeated vs) = (do let l ← vs.mapM keyOf; pure (dedup l)) := by
  unfold keysOf; rw [asList_repeated vs hne hnl]

theorem C12_glue_signatures (vs : List XVal) (hne : vs ≠ []) (hnl : ∀ v ∈ vs, v.isList = false) :
    signaturesOf (repeated vs) = (do let l ← vs.mapM signatureOf; pure (dedup l)) := by
  unfold signaturesOf; rw [asList_repeated vs hne hnl]

theorem C12_glue_algorithms (vs : List XVal) (hne : vs ≠ []) (hnl : ∀ v ∈ vs, v.isList = false) :
    signatureAlgorithmsOf (repeated vs) = (do let l ← vs.mapM algPolicyOf; pure (dedup l)) := by
  unfold signatureAlgorithmsOf; rw [asList_repeated vs hne hnl]

/-- **RequestBundle**: `request_from_xml` hands `request_bundles_from_list_of_dicts` the list of the
    occurrences whatever their number (0 when the element is absent). -/
theorem C12_glue_request_bundles (gs : GlueSwitches) (vs : List XVal) (hne : vs ≠ [])
    (hnl : ∀ v ∈ vs, v.isList = false) :
    requestBundlesOf gs (repeated vs).asList = requestBundlesOf gs vs := by
  rw [asList_repeated vs hne hnl]

/-- one `Signer(…)` -/
def signerOf (this : XVal) : Res (Option String) := do
  let s ← strictStr (← (← this.getItem "attrs").getItem "keyIdentifier")
  pure (some s)

/-- **Signer**, repaired glue: every repetition count ≥ 1. -/
theorem C12_glue_signers (gs : GlueSwitches) (hgs : gs.wrapsSingleSigner = true) (vs : List XVal)
    (hne : vs ≠ []) (hnl : ∀ v ∈ vs, v.isList = false) (htr : ∀ v ∈ vs, v.truthy = true) :
    signersOf gs (repeated vs) = (do let l ← vs.mapM signerOf; pure (some (dedup l))) := by
  have ht : (repeated vs).truthy = true := by
    match vs, hne, htr with
    | [v], _, htr => simpa [repeated] using htr v (by simp)
    | _ :: _ :: _, _, _ => simp [repeated, XVal.truthy]
  unfold signersOf
  simp only [ht, Bool.not_true, Bool.false_eq_true, ↓reduceIte, hgs, asList_repeated vs hne hnl]
  rfl

/-- a `<Signer keyIdentifier="KC1"/>` as the reader stores it -/
def signerDict (kid : String) : XVal :=
  .dict [(kAttrs, .dict [("keyIdentifier".toList, .str kid.toList)]), (kValue, .str [])]

/-- **F11.** With the pinned glue exactly one Signer is a TypeError (the loop runs over the KEYS of the
    single dict), while 0 and 2 signers load. -/
theorem C12_glue_signers_counterexample (gs : GlueSwitches) (hgs : gs.wrapsSingleSigner = false) :
    signersOf gs (repeated [signerDict "KC1"]) = err .type ∧
    signersOf gs (.list []) = .ok none ∧
    signersOf gs (repeated [signerDict "KC1", signerDict "KC2"]) = .ok (some [some "KC1", some "KC2"]) ∧
    signersOf { gs with wrapsSingleSigner := true } (repeated [signerDict "KC1"]) = .ok (some [some "KC1"]) := by
  obtain ⟨a, b, c, d⟩ := gs
  simp only at hgs
  subst hgs
  cases b <;> cases c <;> cases d <;> decide

/-- **ResponseBundle**, repaired glue: every repetition count ≥ 1. -/
theorem C12_glue_response_bundles (gs : GlueSwitches) (hgs : gs.wrapsSingleResponseBundle = true)
    (vs : List XVal) (hne : vs ≠ []) (hnl : ∀ v ∈ vs, v.isList = false) :
    responseBundlesOf gs (repeated vs) =
      (do let l ← vs.mapM responseBundleOf; pure (if gs.sortsResponseBundles then sortByKey l else l)) := by
  unfold responseBundlesOf
  simp only [hgs, ↓reduceIte, asList_repeated vs hne hnl]

/-- **F12.** With the pinned glue exactly one ResponseBundle is a TypeError, whatever it contains. -/
theorem C12_glue_response_bundles_counterexample (gs : GlueSwitches)
    (hgs : gs.wrapsSingleResponseBundle = false) (attrs value : XVal) :
    responseBundlesOf gs (repeated [.dict [(kAttrs, attrs), (kValue, value)]]) = err .type := by
  simp [responseBundlesOf, hgs, repeated, XVal.iter, List.mapM_cons, responseBundleOf, XVal.getItem, bind,
    Except.bind, err]

/-- The tree in /repo now: for each of the two switches tabulated from the code, the statement that
    applies. -/
theorem C12_glue_current_tree :
    (if KskmGen.wrapsSingleSigner = true then
        ∀ vs, vs ≠ [] → (∀ v ∈ vs, v.isList = false) → (∀ v ∈ vs, v.truthy = true) →
          signersOf pyGlueSwitches (repeated vs) = (do let l ← vs.mapM signerOf; pure (some (dedup l)))
      else signersOf pyGlueSwitches (repeated [signerDict "KC1"]) = err .type) ∧
    (if KskmGen.wrapsSingleResponseBundle = true then
        ∀ vs, vs ≠ [] → (∀ v ∈ vs, v.isList = false) →
          responseBundlesOf pyGlueSwitches (repeated vs) =
            (do let l ← vs.mapM responseBundleOf
                pure (if pyGlueSwitches.sortsResponseBundles then sortByKey l else l))
      else ∀ attrs value,
        responseBundlesOf pyGlueSwitches (repeated [.dict [(kAttrs, attrs), (kValue, value)]]) = err .type) := by
  constructor
  · cases h : KskmGen.wrapsSingleSigner with
    | true =>
      simp only [↓reduceIte]
      exact fun vs h1 h2 h3 => C12_glue_signers pyGlueSwitches h vs h1 h2 h3
    | false =>
      simp only [Bool.false_eq_true, ↓reduceIte]
      exact (C12_glue_signers_counterexample pyGlueSwitches h).1
  · cases h : KskmGen.wrapsSingleResponseBundle with
    | true =>
      simp only [↓reduceIte]
      exact fun vs h1 h2 => C12_glue_response_bundles pyGlueSwitches h vs h1 h2
    | false =>
      simp only [Bool.false_eq_true, ↓reduceIte]
      exact fun attrs value => C12_glue_response_bundles_counterexample pyGlueSwitches h attrs value

/-! ### F13: where the optional `timestamp` is looked for -/

def s (x : String) : XVal := .str x.toList
def d (kvs : List (String × XVal)) : XVal := .dict (kvs.map fun p => (p.1.toList, p.2))

/-- a minimal request body: policy with one RSA algorithm, no bundles -/
def minimalRequestBody : XVal :=
  d [("RequestPolicy", d [("ZSK", d [
      ("PublishSafety", s "P10D"), ("RetireSafety", s "P10D"), ("MaxSignatureValidity", s "P21D"),
      ("MinSignatureValidity", s "P21D"), ("MaxValidityOverlap", s "P12D"), ("MinValidityOverlap", s "P9D"),
      ("SignatureAlgorithm", d [("attrs", d [("algorithm", s "8")]),
        ("value", d [("RSA", d [("attrs", d [("size", s "2048"), ("exponent", s "65537")]), ("value", s "")])])])])])]

/-- `<KSR id domain serial [timestamp]><Request [timestamp]>…` as the reader stores it -/
def ksrDict (ksrTimestamp requestTimestamp : Option String) : XVal :=
  let ksrAttrs := [("id", s "4fe9bb10"), ("serial", s "99"), ("domain", s ".")]
    ++ (match ksrTimestamp with | some t => [("timestamp", s t)] | none => [])
  let request := match requestTimestamp with
    | some t => d [("attrs", d [("timestamp", s t)]), ("value", minimalRequestBody)]
    | none => minimalRequestBody
  d [("KSR", d [("attrs", d ksrAttrs), ("value", d [("Request", request)])])]

/-- **F13.** The schema puts the optional timestamp on `Request`; there it makes the glue fail
    (`KeyError: 'RequestPolicy'`, because an element with attributes is stored as `{attrs, value}`);
    the glue reads it from `KSR`, where the schema has no such attribute.  Without a timestamp the
    document loads. -/
theorem timestamp_placement_counterexample (gs : GlueSwitches) :
    requestFromDict gs (ksrDict none (some "2018-01-01T00:00:00Z")) = err .key ∧
    (requestFromDict gs (ksrDict (some "2018-01-01T00:00:00Z") none)).map (·.timestamp) =
      .ok (some 1514764800000000) ∧
    (requestFromDict gs (ksrDict none none)).map (·.timestamp) = .ok none := by
  obtain ⟨a, b, c, d⟩ := gs
  cases a <;> cases b <;> cases c <;> cases d <;>
    exact ⟨by decide +kernel, by decide +kernel, by decide +kernel⟩

/-! ## 3. Order of bundles -/

theorem eq_of_mem_pairwise_ne {l : List Bundle}
    (hd : l.Pairwise (fun a b => a.expiration ≠ b.expiration)) :
    ∀ a ∈ l, ∀ b ∈ l, a.expiration = b.expiration → a = b := by
  induction l with
  | nil => intro a ha; simp at ha
  | cons x r ih =>
    rw [List.pairwise_cons] at hd
    intro a ha b hb he
    rcases List.mem_cons.mp ha with rfl | ha' <;> rcases List.mem_cons.mp hb with rfl | hb'
    · rfl
    · exact absurd he (hd.1 b hb')
    · exact absurd he.symm (hd.1 a ha')
    · exact ih hd.2 a ha' b hb' he

/-- **C12_order.** Sorting by expiration yields the same list for every permutation of the input when
    expirations are pairwise distinct. -/
theorem C12_order (l₁ l₂ : List Bundle) (hp : l₁.Perm l₂)
    (hd : l₁.Pairwise (fun a b => a.expiration ≠ b.expiration)) :
    sortByExpiration l₁ = sortByExpiration l₂ := by
  unfold sortByExpiration
  have htrans : ∀ a b c : Bundle, decide (a.expiration ≤ b.expiration) = true →
      decide (b.expiration ≤ c.expiration) = true → decide (a.expiration ≤ c.expiration) = true := by
    intro a b c h1 h2; simp only [decide_eq_true_eq] at *; omega
  have htotal : ∀ a b : Bundle,
      (decide (a.expiration ≤ b.expiration) || decide (b.expiration ≤ a.expiration)) = true := by
    intro a b; simp only [Bool.or_eq_true, decide_eq_true_eq]; omega
  apply List.Perm.eq_of_pairwise (le := fun a b => decide (a.expiration ≤ b.expiration) = true)
  · intro a b ha _ h1 h2
    simp only [decide_eq_true_eq] at h1 h2
    have ha' : a ∈ l₁ := (List.mergeSort_perm l₁ _).mem_iff.mp ha
    have hb' : b ∈ l₁ := by
      rename_i hb
      exact hp.mem_iff.mpr ((List.mergeSort_perm l₂ _).mem_iff.mp hb)
    exact eq_of_mem_pairwise_ne hd a ha' b hb' (by omega)
  · exact List.pairwise_mergeSort htrans htotal l₁
  · exact List.pairwise_mergeSort htrans htotal l₂
  · exact (List.mergeSort_perm l₁ _).trans (hp.trans (List.mergeSort_perm l₂ _).symm)

/-- the result is in chronological order and contains exactly the bundles it was given -/
theorem sortByExpiration_sorted (l : List Bundle) :
    (sortByExpiration l).Pairwise (fun a b => a.expiration ≤ b.expiration) ∧ (sortByExpiration l).Perm l := by
  refine ⟨?_, List.mergeSort_perm l _⟩
  have := List.pairwise_mergeSort (le := fun a b : Bundle => decide (a.expiration ≤ b.expiration))
    (by intro a b c h1 h2; simp only [decide_eq_true_eq] at *; omega)
    (by intro a b; simp only [Bool.or_eq_true, decide_eq_true_eq]; omega) l
  exact this.imp (by intro a b h; simpa using h)

/-- a monadic map over a permuted list succeeds iff it did, with permuted results -/
theorem mapM_perm {α β} (f : α → Res β) {l₁ l₂ : List α} (hp : l₁.Perm l₂) :
    ∀ r₁, l₁.mapM f = .ok r₁ → ∃ r₂, l₂.mapM f = .ok r₂ ∧ r₁.Perm r₂ := by
  induction hp with
  | nil => intro r₁ h; exact ⟨r₁, h, List.Perm.refl _⟩
  | cons x _ ih =>
    intro r₁ h
    rw [List.mapM_cons] at h ⊢
    cases hx : f x with
    | error e => simp [hx, bind, Except.bind] at h
    | ok y =>
      simp only [hx, bind, Except.bind] at h ⊢
      rename_i la lb _
      cases hl : la.mapM f with
      | error e => simp [hl] at h
      | ok ys =>
        simp only [hl, pure, Except.pure, Except.ok.injEq] at h
        obtain ⟨r₂, h2, hp2⟩ := ih ys hl
        subst h
        exact ⟨y :: r₂, by simp [h2, pure, Except.pure], hp2.cons y⟩
  | swap x y l =>
    intro r₁ h
    simp only [List.mapM_cons, bind, Except.bind] at h ⊢
    cases hy : f y with
    | error e => simp [hy] at h
    | ok y' =>
      cases hx : f x with
      | error e => simp [hy, hx] at h
      | ok x' =>
        cases hl : l.mapM f with
        | error e => simp [hy, hx, hl] at h
        | ok ys =>
          simp only [hy, hx, hl, pure, Except.pure, Except.ok.injEq] at h
          subst h
          exact ⟨x' :: y' :: ys, rfl, List.Perm.swap _ _ _⟩
  | trans _ _ ih1 ih2 =>
    intro r₁ h
    obtain ⟨r₂, h2, hp2⟩ := ih1 r₁ h
    obtain ⟨r₃, h3, hp3⟩ := ih2 r₂ h2
    exact ⟨r₃, h3, hp2.trans hp3⟩

/-! ### the repaired glue: sort key (expiration, inception, id) -/

theorem bundleKeyLe_iff (a b : Bundle) : bundleKeyLe a b = true ↔
    a.expiration < b.expiration ∨ (a.expiration = b.expiration ∧
      (a.inception < b.inception ∨ (a.inception = b.inception ∧ a.id ≤ b.id))) := by
  simp [bundleKeyLe]

theorem bundleKeyLe_total (a b : Bundle) : (bundleKeyLe a b || bundleKeyLe b a) = true := by
  simp only [Bool.or_eq_true, bundleKeyLe_iff]
  rcases Int.lt_trichotomy a.expiration b.expiration with h | h | h
  · exact Or.inl (Or.inl h)
  · rcases Int.lt_trichotomy a.inception b.inception with h' | h' | h'
    · exact Or.inl (Or.inr ⟨h, Or.inl h'⟩)
    · rcases String.le_total a.id b.id with hi | hi
      · exact Or.inl (Or.inr ⟨h, Or.inr ⟨h', hi⟩⟩)
      · exact Or.inr (Or.inr ⟨h.symm, Or.inr ⟨h'.symm, hi⟩⟩)
    · exact Or.inr (Or.inr ⟨h.symm, Or.inl h'⟩)
  · exact Or.inr (Or.inl h)

theorem bundleKeyLe_trans (a b c : Bundle) (h1 : bundleKeyLe a b = true) (h2 : bundleKeyLe b c = true) :
    bundleKeyLe a c = true := by
  rw [bundleKeyLe_iff] at *
  rcases h1 with h1 | ⟨e1, h1⟩
  · rcases h2 with h2 | ⟨e2, _⟩
    · exact Or.inl (by omega)
    · exact Or.inl (by omega)
  · rcases h2 with h2 | ⟨e2, h2⟩
    · exact Or.inl (by omega)
    · refine Or.inr ⟨by omega, ?_⟩
      rcases h1 with h1 | ⟨i1, h1⟩
      · rcases h2 with h2 | ⟨i2, _⟩
        · exact Or.inl (by omega)
        · exact Or.inl (by omega)
      · rcases h2 with h2 | ⟨i2, h2⟩
        · exact Or.inl (by omega)
        · exact Or.inr ⟨by omega, String.le_trans h1 h2⟩

/-- the order is antisymmetric on the key: both ways round means equal (expiration, inception, id) -/
theorem bundleKeyLe_antisymm (a b : Bundle) (h1 : bundleKeyLe a b = true) (h2 : bundleKeyLe b a = true) :
    a.expiration = b.expiration ∧ a.inception = b.inception ∧ a.id = b.id := by
  rw [bundleKeyLe_iff] at *
  rcases h1 with h1 | ⟨e1, h1⟩
  · rcases h2 with h2 | ⟨e2, _⟩ <;> omega
  · rcases h2 with h2 | ⟨_, h2⟩
    · omega
    · rcases h1 with h1 | ⟨i1, h1⟩
      · rcases h2 with h2 | ⟨i2, _⟩ <;> omega
      · rcases h2 with h2 | ⟨_, h2⟩
        · omega
        · exact ⟨e1, i1, String.le_antisymm h1 h2⟩

theorem eq_of_mem_pairwise_id {l : List Bundle} (hd : l.Pairwise (fun a b => a.id ≠ b.id)) :
    ∀ a ∈ l, ∀ b ∈ l, a.id = b.id → a = b := by
  induction l with
  | nil => intro a ha; simp at ha
  | cons x r ih =>
    rw [List.pairwise_cons] at hd
    intro a ha b hb he
    rcases List.mem_cons.mp ha with rfl | ha' <;> rcases List.mem_cons.mp hb with rfl | hb'
    · rfl
    · exact absurd he (hd.1 b hb')
    · exact absurd he.symm (hd.1 a ha')
    · exact ih hd.2 a ha' b hb' he

/-- **C12_order, repaired glue.** Sorting by (expiration, inception, id) yields the same list for
    every permutation of the input whenever the bundle ids are pairwise distinct — equal expirations,
    equal inceptions included. -/
theorem C12_order_key (l₁ l₂ : List Bundle) (hp : l₁.Perm l₂)
    (hd : l₁.Pairwise (fun a b => a.id ≠ b.id)) : sortByKey l₁ = sortByKey l₂ := by
  unfold sortByKey
  apply List.Perm.eq_of_pairwise (le := fun a b => bundleKeyLe a b = true)
  · intro a b ha hb h1 h2
    have ha' : a ∈ l₁ := (List.mergeSort_perm l₁ _).mem_iff.mp ha
    have hb' : b ∈ l₁ := hp.mem_iff.mpr ((List.mergeSort_perm l₂ _).mem_iff.mp hb)
    exact eq_of_mem_pairwise_id hd a ha' b hb' (bundleKeyLe_antisymm a b h1 h2).2.2
  · exact List.pairwise_mergeSort bundleKeyLe_trans bundleKeyLe_total l₁
  · exact List.pairwise_mergeSort bundleKeyLe_trans bundleKeyLe_total l₂
  · exact (List.mergeSort_perm l₁ _).trans (hp.trans (List.mergeSort_perm l₂ _).symm)

/-- the result is ascending in the key — in particular chronological — and a permutation of the input -/
theorem sortByKey_sorted (l : List Bundle) :
    (sortByKey l).Pairwise (fun a b => bundleKeyLe a b = true) ∧
    (sortByKey l).Pairwise (fun a b => a.expiration ≤ b.expiration) ∧ (sortByKey l).Perm l := by
  have h := List.pairwise_mergeSort bundleKeyLe_trans bundleKeyLe_total l
  refine ⟨h, h.imp ?_, List.mergeSort_perm l _⟩
  intro a b hab
  rw [bundleKeyLe_iff] at hab
  omega

/-- **Order independence through the request glue**, for either value of the switch: if a list of
    bundle dicts loads, every permutation of it loads too, to a permutation of the same bundles, and to
    the very same list when — repaired glue — the bundle ids are pairwise distinct, or — pinned glue —
    the expirations are. -/
theorem C12_order_bundles (gs : GlueSwitches) (bs₁ bs₂ : List XVal) (hp : bs₁.Perm bs₂) (r₁ : List Bundle)
    (h : requestBundlesOf gs bs₁ = .ok r₁) :
    ∃ r₂, requestBundlesOf gs bs₂ = .ok r₂ ∧ r₁.Perm r₂ ∧
      ((if gs.sortsRequestBundlesByTriple then r₁.Pairwise (fun a b => a.id ≠ b.id)
        else r₁.Pairwise (fun a b => a.expiration ≠ b.expiration)) → r₂ = r₁) := by
  unfold requestBundlesOf at h ⊢
  cases hm : bs₁.mapM (requestBundleOf gs) with
  | error e => simp [hm, bind, Except.bind] at h
  | ok l₁ =>
    simp only [hm, bind, Except.bind, pure, Except.pure, Except.ok.injEq] at h
    obtain ⟨l₂, h2, hp2⟩ := mapM_perm (requestBundleOf gs) hp l₁ hm
    cases hsw : gs.sortsRequestBundlesByTriple with
    | true =>
      simp only [hsw, ↓reduceIte] at h ⊢
      refine ⟨sortByKey l₂, by simp [h2, bind, Except.bind, pure, Except.pure], ?_, ?_⟩
      · rw [← h]
        exact (sortByKey_sorted l₁).2.2.trans (hp2.trans (sortByKey_sorted l₂).2.2.symm)
      · intro hd
        rw [← h] at hd ⊢
        have hd1 : l₁.Pairwise (fun a b => a.id ≠ b.id) :=
          ((sortByKey_sorted l₁).2.2.pairwise_iff (fun h => fun h' => h h'.symm)).mp hd
        exact (C12_order_key l₁ l₂ hp2 hd1).symm
    | false =>
      simp only [hsw, Bool.false_eq_true, ↓reduceIte] at h ⊢
      refine ⟨sortByExpiration l₂, by simp [h2, bind, Except.bind, pure, Except.pure], ?_, ?_⟩
      · rw [← h]
        exact (sortByExpiration_sorted l₁).2.trans (hp2.trans (sortByExpiration_sorted l₂).2.symm)
      · intro hd
        rw [← h] at hd ⊢
        have hd1 : l₁.Pairwise (fun a b => a.expiration ≠ b.expiration) :=
          ((sortByExpiration_sorted l₁).2.pairwise_iff (fun h => fun h' => h h'.symm)).mp hd
        exact (C12_order l₁ l₂ hp2 hd1).symm

/-- **Order independence through the response glue** (repaired: sorted like requests): every
    permutation of the `ResponseBundle` occurrences loads to the same list when ids are pairwise distinct.
    With the pinned glue (`sortsResponseBundles = false`) the result is just the permuted list. -/
theorem C12_order_response_bundles (gs : GlueSwitches) (hw : gs.wrapsSingleResponseBundle = true)
    (vs₁ vs₂ : List XVal) (hp : vs₁.Perm vs₂) (r₁ : List Bundle)
    (h : responseBundlesOf gs (.list vs₁) = .ok r₁) :
    ∃ r₂, responseBundlesOf gs (.list vs₂) = .ok r₂ ∧ r₁.Perm r₂ ∧
      (gs.sortsResponseBundles = true → r₁.Pairwise (fun a b => a.id ≠ b.id) → r₂ = r₁) := by
  unfold responseBundlesOf at h ⊢
  simp only [hw, ↓reduceIte, XVal.asList] at h ⊢
  cases hm : vs₁.mapM responseBundleOf with
  | error e => simp [hm, bind, Except.bind] at h
  | ok l₁ =>
    simp only [hm, bind, Except.bind, pure, Except.pure, Except.ok.injEq] at h
    obtain ⟨l₂, h2, hp2⟩ := mapM_perm responseBundleOf hp l₁ hm
    cases hsw : gs.sortsResponseBundles with
    | true =>
      simp only [hsw, ↓reduceIte] at h ⊢
      refine ⟨sortByKey l₂, by simp [h2, bind, Except.bind, pure, Except.pure], ?_, ?_⟩
      · rw [← h]
        exact (sortByKey_sorted l₁).2.2.trans (hp2.trans (sortByKey_sorted l₂).2.2.symm)
      · intro _ hd
        rw [← h] at hd ⊢
        have hd1 : l₁.Pairwise (fun a b => a.id ≠ b.id) :=
          ((sortByKey_sorted l₁).2.2.pairwise_iff (fun h => fun h' => h h'.symm)).mp hd
        exact (C12_order_key l₁ l₂ hp2 hd1).symm
    | false =>
      simp only [hsw, Bool.false_eq_true, ↓reduceIte] at h ⊢
      refine ⟨l₂, by simp [h2, bind, Except.bind, pure, Except.pure], ?_, ?_⟩
      · rw [← h]; exact hp2
      · intro hc; cases hc

/-- two bundles that differ only in their id -/
def tieA : Bundle := { id := "a", inception := 0, expiration := 10, keys := [], signatures := [] }
def tieB : Bundle := { id := "b", inception := 0, expiration := 10, keys := [], signatures := [] }

/-- **F8.** With the pinned glue and equal expirations the sort is stable: document order shows
    through, so the result does depend on the order of the bundles in the file — while the repaired
    key sorts the same two bundles the same way whichever comes first. -/
theorem C12_order_tie_counterexample :
    sortByExpiration [tieA, tieB] = [tieA, tieB] ∧ sortByExpiration [tieB, tieA] = [tieB, tieA] ∧
    sortByExpiration [tieA, tieB] ≠ sortByExpiration [tieB, tieA] := by
  have h1 : sortByExpiration [tieA, tieB] = [tieA, tieB] :=
    List.mergeSort_of_pairwise (by decide)
  have h2 : sortByExpiration [tieB, tieA] = [tieB, tieA] :=
    List.mergeSort_of_pairwise (by decide)
  refine ⟨h1, h2, ?_⟩
  rw [h1, h2]
  decide

theorem C12_order_tie_repaired : sortByKey [tieA, tieB] = sortByKey [tieB, tieA] :=
  C12_order_key _ _ (List.Perm.swap _ _ _) (by decide)

/-- two bundles that agree in expiration, inception and id but not in content -/
def dupA : Bundle := { id := "a", inception := 0, expiration := 10, keys := [], signatures := [] }
def dupB : Bundle := { id := "a", inception := 0, expiration := 10, keys := [], signatures := [], signers := some [] }

/-- What remains with the repaired glue: bundles with equal (expiration, inception, id) — which
    `check_unique_ids` refuses afterwards — still come out in document order. -/
theorem C12_order_key_tie :
    sortByKey [dupA, dupB] = [dupA, dupB] ∧ sortByKey [dupB, dupA] = [dupB, dupA] ∧ dupA ≠ dupB :=
  ⟨List.mergeSort_of_pairwise (by decide), List.mergeSort_of_pairwise (by decide), by decide⟩

/-- the tree in /repo now, per switch tabulated from the code -/
theorem C12_order_current_tree (l₁ l₂ : List Bundle) (hp : l₁.Perm l₂) :
    (if KskmGen.sortsRequestBundlesByTriple = true then
        l₁.Pairwise (fun a b => a.id ≠ b.id) → sortByKey l₁ = sortByKey l₂
      else l₁.Pairwise (fun a b => a.expiration ≠ b.expiration) → sortByExpiration l₁ = sortByExpiration l₂) := by
  cases KskmGen.sortsRequestBundlesByTriple with
  | true => simp only [↓reduceIte]; exact C12_order_key l₁ l₂ hp
  | false => simp only [Bool.false_eq_true, ↓reduceIte]; exact C12_order l₁ l₂ hp

/-! ## 4. The reader against PlainXml -/

/-- the character classes of the running Python meet every requirement of the reader theorems -/
theorem pyClasses_sane : Sane pyClasses where
  word_not_space := by
    intro c hw
    cases hsp : pyClasses.isSpace c with
    | false => rfl
    | true => exact absurd ⟨hw, hsp⟩ (inRanges_disjoint _ _ (by decide +kernel) c)
  word_not_strip := by
    intro c hw
    cases hsp : pyClasses.isStrip c with
    | false => rfl
    | true => exact absurd ⟨hw, hsp⟩ (inRanges_disjoint _ _ (by decide +kernel) c)
  space_sp := by decide +kernel
  space_gt := by decide +kernel
  strip_nl := by decide +kernel
  strip_lt := by decide +kernel
  strip_gt := by decide +kernel
  strip_quote := by decide +kernel
  strip_slash := by decide +kernel
  word_lt := by decide +kernel
  word_gt := by decide +kernel
  word_eq := by decide +kernel
  word_slash := by decide +kernel
  word_quote := by decide +kernel

/-- **C12_reader (partial: layouts as described above).**  For ANY character classes with the sanity
    properties, either behaviour of the attribute loop, every plain tree `t` of at most five levels of
    element nesting and every white space `lead`, `trail` around it:
    the reader's result on the text of `t` is exactly the dict of the standard reading of that text. -/
theorem C12_reader_partial (cls : Classes) (hs : Sane cls) (sw : Switches) (t : PTree) (hp : PlainT cls t)
    (hh : heightT t ≤ 5) (lead trail : List Char) (hl : Ws cls lead) (ht : Ws cls trail) :
    parse cls sw (lead ++ renderT t ++ trail) = .ok (dictOf t) := by
  have := parseRec_level hs sw 5 t .nil lead trail hp trivial hl ht hh (by simp [heightF])
  simp only [levelText, renderF, List.append_nil, storeF] at this
  unfold parse
  rw [this]
  simp [dictOf, storeElement, List.lookup]

/-- the recursion bound is the only size limit: a plain tree of any size and `d` levels loads with
    `recurse = d` -/
theorem C12_reader_partial_depth (cls : Classes) (hs : Sane cls) (sw : Switches) (d : Nat) (t : PTree)
    (hp : PlainT cls t) (hh : heightT t ≤ d) :
    parse cls sw (renderT t) d = .ok (dictOf t) := by
  have := parseRec_level hs sw d t .nil [] [] hp trivial (by intro c hc; simp at hc) (by intro c hc; simp at hc)
    hh (by simp [heightF])
  simp only [levelText, renderF, List.append_nil, List.nil_append, storeF] at this
  unfold parse
  rw [this]
  simp [dictOf, storeElement, List.lookup]

/-- **Anything preceding the KSR element is ignored**, provided the first `<KSR` of the file is the
    root element (a prolog or comment that itself contains `<KSR` is outside the property's domain). -/
theorem C12_reader_ksr (cls : Classes) (hs : Sane cls) (sw : Switches) (t : PTree) (hp : PlainT cls t)
    (hh : heightT t ≤ 5) (prolog trail : List Char) (ht : Ws cls trail)
    (hfirst : indexFrom kKSRopen (prolog ++ renderT t ++ trail) 0 = some prolog.length) :
    parseKsr cls sw (prolog ++ renderT t ++ trail) = .ok (dictOf t) := by
  unfold parseKsr
  rw [hfirst]
  simp only
  have : (prolog ++ renderT t ++ trail).drop prolog.length = [] ++ renderT t ++ trail := by
    rw [List.append_assoc, List.drop_left']
    · simp
    · rfl
  rw [this]
  exact C12_reader_partial cls hs sw t hp hh [] trail (by intro c hc; simp at hc) ht

/-- under the classes of the running Python, for the code in /repo whatever its switch values -/
theorem C12_reader_py (t : PTree) (hp : PlainT pyClasses t) (hh : heightT t ≤ 5) (lead trail : List Char)
    (hl : Ws pyClasses lead) (ht : Ws pyClasses trail) :
    parse pyClasses pySwitches (lead ++ renderT t ++ trail) = .ok (dictOf t) :=
  C12_reader_partial pyClasses pyClasses_sane pySwitches t hp hh lead trail hl ht

/-
  The full statement of DESIGN §4 C12, kept visible:

      theorem C12_reader : ∀ (t : PlainXml) (ℓ : Layout), parse (render ℓ t) = dictOf t

  with `ℓ` ranging over: white space between elements, spaces/tabs inside start tags, attribute order,
  self-closing vs empty-pair form, prolog/comments before `<KSR`.  `C12_reader_partial` / `C12_reader_ksr`
  above prove it for every such layout EXCEPT
    (1) the white space in front of each attribute is exactly one space;
    (2) attribute ORDER: `dictOf` lists the attributes in document order; a Python dict compares
        without order, so the statement for permuted attributes needs `dictOf` up to permutation of the
        `attrs` entries;
    (3) the prolog condition is stated semantically (the first `<KSR` is the root element) rather than
        as a grammar of XML declarations and comments.
  Sections 5–7 below close the three gaps:
    (1) `C12_reader_layout`: any non-empty one-line white space in front of every attribute;
    (2) `C12_attr_order_reader` / `C12_attr_order`: attribute order, up to Python's dict equality at the
        reader and up to `=` at `request_from_xml` / `response_from_xml`;
    (3) `C12_reader_prolog`: a grammar of prologs.
  so that the statement reads: for every plain tree, every layout of it and every order of the attributes
  within each start tag, the reader returns a dict that is `==` to the standard reading, and the loaders
  return the same object.  (The equality is `=` for a fixed attribute order and `DictEq` across orders —
  Python's own notion; `dictOf` of a `PTree` fixes one order, the document's.)
  Excluded by `PlainT` because the reader really differs there (findings, replayed by the harness):
  white space before `>` in a start tag WITHOUT attributes (F17: `Gap` demands none), `>` inside an
  attribute value (F18: `PlainAttr`), an attribute-less self-closing tag `<n/>` (not in the schema); and, in
  a start tag WITH attributes, a line feed anywhere but directly after the element name, or white space
  around `=` (`attr_ws_boundaries`; the property is about start tags on one line).
  An element may not contain a descendant of its own name (`occursT`): `_find_end_of_element` supports
  exactly one level of same-name nesting and only when the outer start tag has the other form (with /
  without attributes) than the inner one — `nested_same_name_witness` below shows both sides.
-/

/-- the one level of same-name nesting the reader supports (the repo's `test_nested_tags`), and the
    shape it does not: outer and inner start tag of the same form -/
theorem nested_same_name_witness (sw : Switches) :
    parse pyClasses sw "<Signature keyIdentifier=\"Z\"><KeyTag>1</KeyTag><Signature>WL7</Signature></Signature>".toList =
      .ok [("Signature".toList, .dict [(kAttrs, .dict [("keyIdentifier".toList, .str "Z".toList)]),
        (kValue, .dict [("KeyTag".toList, .str "1".toList), ("Signature".toList, .str "WL7".toList)])])] ∧
    parse pyClasses sw "<Signature><Signature>WL7</Signature></Signature>".toList = .err .value := by
  obtain ⟨a, b⟩ := sw
  cases a <;> cases b <;> exact ⟨by decide +kernel, by decide +kernel⟩

/-! ## 5. Any white space in front of the attributes -/

/-- under the classes of the running Python `\s` and `str.strip()` agree, so the white space admitted in
    front of an attribute is simply: non-empty, every character white space, no line feed -/
theorem attrWs_py (w : List Char) :
    AttrWs pyClasses w ↔ w ≠ [] ∧ ∀ c ∈ w, pyClasses.isSpace c = true ∧ c ≠ '\n' := by
  have he : pyClasses.isStrip = pyClasses.isSpace := by
    simp only [pyClasses]
    rw [show KskmGen.stripRanges = KskmGen.spaceRanges from by decide +kernel]
  unfold AttrWs
  rw [he]
  constructor
  · exact fun h => ⟨h.1, fun c hc => ⟨(h.2 c hc).1, (h.2 c hc).2.2⟩⟩
  · exact fun h => ⟨h.1, fun c hc => ⟨(h.2 c hc).1, (h.2 c hc).1, (h.2 c hc).2⟩⟩

/-- **C12_reader, any layout of the start tags.**  For ANY character classes with the sanity properties,
    either behaviour of the attribute loop, every plain tree `w` of at most five levels of element nesting —
    with ANY non-empty one-line white space in front of every attribute, any white space before `>` / `/>`,
    any white space between elements, either form of empty elements — and every white space around it:
    the reader's result is exactly the dict of the standard reading, in which none of that white space
    appears (`eraseT` forgets it). -/
theorem C12_reader_layout (cls : Classes) (hs : Sane cls) (sw : Switches) (w : WTree) (hp : PlainW cls w)
    (hh : heightW w ≤ 5) (lead trail : List Char) (hl : Ws cls lead) (ht : Ws cls trail) :
    parse cls sw (lead ++ renderW w ++ trail) = .ok (dictOf (eraseT w)) := by
  have := parseRec_levelW hs sw 5 w .nil lead trail hp trivial hl ht hh (by simp [heightWF])
  simp only [levelTextW, renderWF, List.append_nil, eraseF, storeF] at this
  unfold parse
  rw [this]
  simp [dictOf, storeElement, List.lookup, eraseT_name]

/-- the recursion bound is the only size limit -/
theorem C12_reader_layout_depth (cls : Classes) (hs : Sane cls) (sw : Switches) (d : Nat) (w : WTree)
    (hp : PlainW cls w) (hh : heightW w ≤ d) :
    parse cls sw (renderW w) d = .ok (dictOf (eraseT w)) := by
  have := parseRec_levelW hs sw d w .nil [] [] hp trivial (by intro c hc; simp at hc) (by intro c hc; simp at hc)
    hh (by simp [heightWF])
  simp only [levelTextW, renderWF, List.append_nil, List.nil_append, eraseF, storeF] at this
  unfold parse
  rw [this]
  simp [dictOf, storeElement, List.lookup, eraseT_name]

/-- anything preceding the KSR element is ignored (semantic condition; `C12_reader_prolog` has a grammar) -/
theorem C12_reader_layout_ksr (cls : Classes) (hs : Sane cls) (sw : Switches) (w : WTree) (hp : PlainW cls w)
    (hh : heightW w ≤ 5) (prolog trail : List Char) (ht : Ws cls trail)
    (hfirst : indexFrom kKSRopen (prolog ++ renderW w ++ trail) 0 = some prolog.length) :
    parseKsr cls sw (prolog ++ renderW w ++ trail) = .ok (dictOf (eraseT w)) := by
  unfold parseKsr
  rw [hfirst]
  simp only
  have : (prolog ++ renderW w ++ trail).drop prolog.length = [] ++ renderW w ++ trail := by
    rw [List.append_assoc, List.drop_left']
    · simp
    · rfl
  rw [this]
  exact C12_reader_layout cls hs sw w hp hh [] trail (by intro c hc; simp at hc) ht

/-- under the classes of the running Python, for the code in /repo whatever its switch values -/
theorem C12_reader_layout_py (w : WTree) (hp : PlainW pyClasses w) (hh : heightW w ≤ 5) (lead trail : List Char)
    (hl : Ws pyClasses lead) (ht : Ws pyClasses trail) :
    parse pyClasses pySwitches (lead ++ renderW w ++ trail) = .ok (dictOf (eraseT w)) :=
  C12_reader_layout pyClasses pyClasses_sane pySwitches w hp hh lead trail hl ht

/-- `C12_reader_partial` is the instance "exactly one space in front of each attribute" of
    `C12_reader_layout` (for classes whose `strip()` removes the space) -/
theorem C12_reader_partial_of_layout (cls : Classes) (hs : Sane cls) (hsp : cls.isStrip ' ' = true) (sw : Switches)
    (t : PTree) (hp : PlainT cls t) (hh : heightT t ≤ 5) (lead trail : List Char) (hl : Ws cls lead)
    (ht : Ws cls trail) : parse cls sw (lead ++ renderT t ++ trail) = .ok (dictOf t) := by
  have := C12_reader_layout cls hs sw (ofP t) (plainW_ofP hs hsp t hp) (by rw [heightW_ofP]; exact hh) lead trail hl ht
  rwa [renderW_ofP, eraseT_ofP] at this

/-- **Where the reader stops agreeing with XML inside a start tag that has attributes** (all replayed on
    the real code): a line feed between two attributes, or between the last attribute and `>`, is a
    ValueError (the start-tag expression does not cross a line); white space around `=` is never read
    (ValueError on the repaired tree, no termination on the pinned one — F1).  The reader is more lenient
    than XML in two places: it reads a line feed directly after the element name, and NO white space at
    all between two attributes. -/
theorem attr_ws_boundaries (sw : Switches) :
    parse pyClasses sw "<a x=\"1\"\ny=\"2\">v</a>".toList = .err .value ∧
    parse pyClasses sw "<a x=\"1\" y=\"2\"\n>v</a>".toList = .err .value ∧
    parse pyClasses sw "<a x =\"1\">v</a>".toList =
      (if sw.attrsLoopFailsOnNoMatch then .err .value else .outOfFuel) ∧
    parse pyClasses sw "<a x= \"1\">v</a>".toList =
      (if sw.attrsLoopFailsOnNoMatch then .err .value else .outOfFuel) ∧
    parse pyClasses sw "<a\nx=\"1\" y=\"2\">v</a>".toList =
      .ok [("a".toList, d [("attrs", d [("x", s "1"), ("y", s "2")]), ("value", s "v")])] ∧
    parse pyClasses sw "<a x=\"1\"y=\"2\">v</a>".toList =
      .ok [("a".toList, d [("attrs", d [("x", s "1"), ("y", s "2")]), ("value", s "v")])] := by
  obtain ⟨a, b⟩ := sw
  cases a <;> cases b <;>
    exact ⟨by decide +kernel, by decide +kernel, by decide +kernel, by decide +kernel, by decide +kernel,
      by decide +kernel⟩

/-! ## 6. Attribute order -/

/-- **Attribute order, at the reader.**  Two plain documents that differ in the ORDER of the attributes
    within their start tags (and in any insignificant white space: `AttrPermT` compares the standard
    readings), attribute names distinct within each start tag: the reader returns two dicts that are equal
    as Python values (`DictEq`: `==` on dicts, which ignores insertion order, recursively). -/
theorem C12_attr_order_reader (cls : Classes) (hs : Sane cls) (sw : Switches) (w w' : WTree)
    (hp : PlainW cls w) (hp' : PlainW cls w') (hh : heightW w ≤ 5) (hh' : heightW w' ≤ 5)
    (hperm : AttrPermT (eraseT w) (eraseT w')) (hu : UniqueAttrsT (eraseT w))
    (lead trail lead' trail' : List Char) (hl : Ws cls lead) (ht : Ws cls trail) (hl' : Ws cls lead')
    (ht' : Ws cls trail') :
    ∃ r r', parse cls sw (lead ++ renderW w ++ trail) = .ok r ∧ parse cls sw (lead' ++ renderW w' ++ trail') = .ok r' ∧
      DictEq (.dict r) (.dict r') :=
  ⟨_, _, C12_reader_layout cls hs sw w hp hh lead trail hl ht, C12_reader_layout cls hs sw w' hp' hh' lead' trail' hl' ht',
    dictOf_attrPerm _ _ hperm hu⟩

/-- a loader built from `parse_ksr` and a glue function that cannot tell `DictEq` values apart gives the
    same outcome on two texts that the reader reads to `DictEq` dicts -/
theorem fromXmlWith_congr {α} (cls : Classes) (sw : Switches) (glue : XVal → Res α)
    (hglue : ∀ a b, DictEq a b → glue a = glue b) (x x' : List Char) (r r' : Dict)
    (h : parseKsr cls sw x = .ok r) (h' : parseKsr cls sw x' = .ok r') (he : DictEq (.dict r) (.dict r')) :
    fromXmlWith cls sw glue x = fromXmlWith cls sw glue x' := by
  unfold fromXmlWith
  rw [h, h']
  simp only
  rw [hglue _ _ he]

/-- **Attribute order, through the loaders.**  Two plain KSR/SKR documents, each behind a prolog of the
    grammar, that differ in the order of attributes within start tags (and in layout): `request_from_xml`
    returns the SAME `Request` — or raises the same error —, and so does `response_from_xml`; for either
    value of every behaviour switch. -/
theorem C12_attr_order (cls : Classes) (hs : Sane cls) (sw : Switches) (gs : GlueSwitches) (w w' : WTree)
    (hn : w.name = "KSR".toList) (hn' : w'.name = "KSR".toList)
    (hp : PlainW cls w) (hp' : PlainW cls w') (hh : heightW w ≤ 5) (hh' : heightW w' ≤ 5)
    (hperm : AttrPermT (eraseT w) (eraseT w')) (hu : UniqueAttrsT (eraseT w))
    (items items' : List PrologItem) (hi : ∀ it ∈ items, it.Ok) (hi' : ∀ it ∈ items', it.Ok)
    (trail trail' : List Char) (ht : Ws cls trail) (ht' : Ws cls trail') :
    requestFromXmlL cls sw gs (renderProlog items ++ renderW w ++ trail) =
      requestFromXmlL cls sw gs (renderProlog items' ++ renderW w' ++ trail') ∧
    responseFromXmlL cls sw gs (renderProlog items ++ renderW w ++ trail) =
      responseFromXmlL cls sw gs (renderProlog items' ++ renderW w' ++ trail') := by
  have h1 := C12_reader_layout_ksr cls hs sw w hp hh (renderProlog items) trail ht
    (index_after_skip _ _ _ (skip_prolog items hi) (ksr_prefix_renderW w hn))
  have h2 := C12_reader_layout_ksr cls hs sw w' hp' hh' (renderProlog items') trail' ht'
    (index_after_skip _ _ _ (skip_prolog items' hi') (ksr_prefix_renderW w' hn'))
  have he := dictOf_attrPerm _ _ hperm hu
  exact ⟨fromXmlWith_congr cls sw _ (fun _ _ => requestFromDict_congr gs) _ _ _ _ h1 h2 he,
    fromXmlWith_congr cls sw _ (fun _ _ => responseFromDict_congr gs) _ _ _ _ h1 h2 he⟩

/-- … in particular for `request_from_xml` / `response_from_xml` of the tree in /repo under the running
    Python's character classes: the two files load to the same object or fail alike -/
theorem C12_attr_order_py (w w' : WTree) (hn : w.name = "KSR".toList) (hn' : w'.name = "KSR".toList)
    (hp : PlainW pyClasses w) (hp' : PlainW pyClasses w') (hh : heightW w ≤ 5) (hh' : heightW w' ≤ 5)
    (hperm : AttrPermT (eraseT w) (eraseT w')) (hu : UniqueAttrsT (eraseT w))
    (items items' : List PrologItem) (hi : ∀ it ∈ items, it.Ok) (hi' : ∀ it ∈ items', it.Ok)
    (trail trail' : List Char) (ht : Ws pyClasses trail) (ht' : Ws pyClasses trail') (x x' : String)
    (hx : x.toList = renderProlog items ++ renderW w ++ trail)
    (hx' : x'.toList = renderProlog items' ++ renderW w' ++ trail') :
    requestFromXml x = requestFromXml x' ∧ responseFromXml x = responseFromXml x' := by
  obtain ⟨h1, h2⟩ := C12_attr_order pyClasses pyClasses_sane pySwitches pyGlueSwitches w w' hn hn' hp hp' hh hh' hperm hu
    items items' hi hi' trail trail' ht ht'
  unfold requestFromXml responseFromXml
  rw [hx, hx', h1, h2]
  exact ⟨rfl, rfl⟩

/-! ## 7. What may precede the KSR element -/

/-- **Anything preceding the KSR element is ignored**, for every prolog of the grammar of
    KskmProofs/Lemmas/XmlProlog.lean: XML declaration / processing instructions `<?…?>`, comments `<!--…-->`,
    `<!DOCTYPE…>`, `<`-free text between them — in any number and order, provided the four characters `<KSR` do
    not occur inside any of them. -/
theorem C12_reader_prolog (cls : Classes) (hs : Sane cls) (sw : Switches) (items : List PrologItem)
    (hi : ∀ it ∈ items, it.Ok) (w : WTree) (hn : w.name = "KSR".toList) (hp : PlainW cls w) (hh : heightW w ≤ 5)
    (trail : List Char) (ht : Ws cls trail) :
    parseKsr cls sw (renderProlog items ++ renderW w ++ trail) = .ok (dictOf (eraseT w)) :=
  C12_reader_layout_ksr cls hs sw w hp hh (renderProlog items) trail ht
    (index_after_skip _ _ _ (skip_prolog items hi) (ksr_prefix_renderW w hn))

/-- the same for the one-space rendering `renderT` of a `PTree` (the form `C12_reader_ksr` has, with the
    grammar in place of its semantic hypothesis) -/
theorem C12_reader_prolog_T (cls : Classes) (hs : Sane cls) (sw : Switches) (items : List PrologItem)
    (hi : ∀ it ∈ items, it.Ok) (t : PTree) (hn : t.name = "KSR".toList) (hp : PlainT cls t) (hh : heightT t ≤ 5)
    (trail : List Char) (ht : Ws cls trail) :
    parseKsr cls sw (renderProlog items ++ renderT t ++ trail) = .ok (dictOf t) := by
  apply C12_reader_ksr cls hs sw t hp hh (renderProlog items) trail ht
  have hpre : kKSRopen <+: renderT t := by
    have := ksr_prefix_renderW (ofP t) (by cases t <;> simpa [ofP, WTree.name, PTree.name] using hn)
    rwa [renderW_ofP] at this
  exact index_after_skip _ _ _ (skip_prolog items hi) hpre

/-- **The restriction is necessary**: a comment that contains `<KSR` is not ignored — `parse_ksr` starts
    reading inside the comment.  Here the reader returns a dict whose `KSR` is a STRING (the rest of the
    comment and the real start tag), where the standard reading has the element with its attribute; the
    glue then raises TypeError.  (Replayed on the real code: `{'KSR': '--><KSR id="1">v'}`.) -/
theorem ksr_in_comment_counterexample (sw : Switches) :
    parseKsr pyClasses sw "<!-- <KSR> --><KSR id=\"1\">v</KSR>".toList =
      .ok [("KSR".toList, s "--><KSR id=\"1\">v")] ∧
    parseKsr pyClasses sw "<!-- no such text --><KSR id=\"1\">v</KSR>".toList =
      .ok [("KSR".toList, d [("attrs", d [("id", s "1")]), ("value", s "v")])] ∧
    ∀ gs, requestFromDict gs (.dict [("KSR".toList, s "--><KSR id=\"1\">v")]) = err .type := by
  obtain ⟨a, b⟩ := sw
  cases a <;> cases b <;>
    exact ⟨by decide +kernel, by decide +kernel,
      fun ⟨g1, g2, g3, g4⟩ => by cases g1 <;> cases g2 <;> cases g3 <;> cases g4 <;> decide +kernel⟩

/-! ## Non-vacuity -/

/-- a small document in the reference clients' layout (indentation, self-closing `RSA`, a repeated
    element), as a PlainXml tree -/
def exampleTree : PTree :=
  .node "KSR".toList [("id".toList, "4fe9bb10".toList), ("domain".toList, ".".toList)] [] "\n  ".toList
    (.node "Request".toList [] [] "\n    ".toList
      (.leaf "TTL".toList [] [] "172800".toList)
      (.cons "\n    ".toList (.empty "RSA".toList [("size".toList, "2048".toList), ("exponent".toList, "65537".toList)] [])
        (.cons "\n    ".toList (.leaf "Signer".toList [("keyIdentifier".toList, "KC1".toList)] " ".toList [])
          (.cons "\t".toList (.empty "Signer".toList [("keyIdentifier".toList, "KC2".toList)] " ".toList) .nil)))
      "\n  ".toList)
    .nil "\n".toList

example : renderT exampleTree =
    ("<KSR id=\"4fe9bb10\" domain=\".\">\n  <Request>\n    <TTL>172800</TTL>\n    <RSA size=\"2048\" exponent=\"65537\"/>" ++
     "\n    <Signer keyIdentifier=\"KC1\" ></Signer>\t<Signer keyIdentifier=\"KC2\" />\n  </Request>\n</KSR>").toList := by
  decide +kernel

set_option synthInstance.maxSize 4096 in
set_option synthInstance.maxHeartbeats 400000 in
theorem exampleTree_plain : PlainT pyClasses exampleTree ∧ heightT exampleTree ≤ 5 := by
  simp only [exampleTree, PlainT, PlainF, occursT, occursF, PlainName, PlainAttr, PlainText, Gap, Ws, heightT, heightF]
  decide +kernel

/-- … which the reader therefore reads as its standard reading: `Signer` collected into a list -/
example : parse pyClasses pySwitches (renderT exampleTree ++ "\n".toList) = .ok (dictOf exampleTree) := by
  have := C12_reader_py exampleTree exampleTree_plain.1 exampleTree_plain.2 [] "\n".toList
    (by intro c hc; simp at hc) (by unfold Ws; decide +kernel)
  simpa using this

example : storeAll [] "Key".toList [s "1", s "2", s "3"] = [("Key".toList, .list [s "1", s "2", s "3"])] := by
  decide
example : storeAll [] "Key".toList [s "1"] = [("Key".toList, s "1")] := by decide
/-- distinct expirations: either document order sorts to the same list -/
example : sortByExpiration [tieA, { tieB with expiration := 5 }] = sortByExpiration [{ tieB with expiration := 5 }, tieA] :=
  C12_order _ _ (List.Perm.swap _ _ _) (by decide)

/-! ### non-vacuity of sections 5–7 -/

/-- `exampleTree` with tabs, several blanks and a form feed in front of the attributes, and the attributes
    of `KSR` and `RSA` in the other order -/
def exampleW : WTree :=
  .node "KSR".toList [("  ".toList, ("domain".toList, ".".toList)), ("\t ".toList, ("id".toList, "4fe9bb10".toList))] []
    "\n  ".toList
    (.node "Request".toList [] [] "\n    ".toList
      (.leaf "TTL".toList [] [] "172800".toList)
      (.cons "\n    ".toList (.empty "RSA".toList [("\t".toList, ("exponent".toList, "65537".toList)),
          (" \x0c ".toList, ("size".toList, "2048".toList))] [])
        (.cons "\n    ".toList (.leaf "Signer".toList [(" ".toList, ("keyIdentifier".toList, "KC1".toList))] " ".toList [])
          (.cons "\t".toList (.empty "Signer".toList [("   ".toList, ("keyIdentifier".toList, "KC2".toList))] " ".toList) .nil)))
      "\n  ".toList)
    .nil "\n".toList

example : renderW exampleW =
    ("<KSR  domain=\".\"\t id=\"4fe9bb10\">\n  <Request>\n    <TTL>172800</TTL>\n    <RSA\texponent=\"65537\" \x0c size=\"2048\"/>" ++
     "\n    <Signer keyIdentifier=\"KC1\" ></Signer>\t<Signer   keyIdentifier=\"KC2\" />\n  </Request>\n</KSR>").toList := by
  decide +kernel

set_option synthInstance.maxSize 4096 in
set_option synthInstance.maxHeartbeats 400000 in
theorem exampleW_plain : PlainW pyClasses exampleW ∧ heightW exampleW ≤ 5 := by
  simp only [exampleW, PlainW, PlainWF, PlainWAttrs, AttrWs, occursW, occursWF, PlainName, PlainAttr, PlainText, Gap, Ws,
    heightW, heightWF, wplain]
  decide +kernel

/-- `exampleW` is `exampleTree` up to layout and attribute order, and no start tag repeats an attribute -/
theorem exampleW_perm : AttrPermT (eraseT exampleW) exampleTree ∧ UniqueAttrsT (eraseT exampleW) := by
  simp only [exampleW, exampleTree, eraseT, eraseF, wplain, AttrPermT, AttrPermF, UniqueAttrsT, UniqueAttrsF, List.map]
  refine ⟨⟨trivial, List.Perm.swap _ _ _, ⟨trivial, List.Perm.refl _, ⟨trivial, List.Perm.refl _, trivial⟩,
    ⟨trivial, List.Perm.swap _ _ _⟩, ⟨trivial, List.Perm.refl _, trivial⟩, ⟨trivial, List.Perm.refl _⟩, trivial⟩,
    trivial⟩, ?_⟩
  decide

/-- a prolog of the grammar: declaration, line break, a comment with markup in it, line break -/
def examplePrologItems : List PrologItem :=
  [.pi "xml version=\"1.0\" encoding=\"UTF-8\"".toList, .space "\n".toList,
   .comment " generated by <b>KSRSigner</b>; KSR follows ".toList, .space "\n".toList]

example : renderProlog examplePrologItems =
    "<?xml version=\"1.0\" encoding=\"UTF-8\"?>\n<!-- generated by <b>KSRSigner</b>; KSR follows -->\n".toList := by
  decide +kernel

theorem examplePrologItems_ok : ∀ it ∈ examplePrologItems, it.Ok := by
  simp only [examplePrologItems, List.mem_cons, List.mem_nil_iff, or_false]
  rintro it (rfl | rfl | rfl | rfl) <;> simp only [PrologItem.Ok, NoKsr] <;> decide +kernel

/-- the reader reads the differently laid out, differently ordered document behind that prolog, to a dict
    that is `==` to the one it reads from `exampleTree` -/
example : ∃ r r', parseKsr pyClasses pySwitches (renderProlog examplePrologItems ++ renderW exampleW ++ "\n".toList) = .ok r ∧
    parse pyClasses pySwitches (renderT exampleTree ++ "\n".toList) = .ok r' ∧ DictEq (.dict r) (.dict r') := by
  refine ⟨_, _, C12_reader_prolog pyClasses pyClasses_sane pySwitches _ examplePrologItems_ok exampleW rfl exampleW_plain.1
    exampleW_plain.2 "\n".toList (by unfold Ws; decide +kernel), ?_, dictOf_attrPerm _ _ exampleW_perm.1 exampleW_perm.2⟩
  have := C12_reader_py exampleTree exampleTree_plain.1 exampleTree_plain.2 [] "\n".toList
    (by intro c hc; simp at hc) (by unfold Ws; decide +kernel)
  simpa using this

/-- the two dicts differ as lists (document order of the attributes) — `DictEq` is not `=` -/
example : dictOf (eraseT exampleW) ≠ dictOf exampleTree := by decide +kernel

/-! ## 8. Sibling order below the bundle level

"The result, and the verdict of validation, do not depend on the document order of bundles, keys, signatures
or child elements."  Sections 3 and 6 cover bundles (as a list handed to the glue) and attributes.  Here: ANY
permutation of the child elements of ANY elements of the document (`ChildPermT`,
KskmProofs/Lemmas/XmlChildPerm.lean) — `Key`, `Signature`, `Signer` siblings of a bundle, the
`SignatureAlgorithm` siblings of a policy, the bundles themselves, and children with distinct names
(`Inception` before or after `Expiration`, `RequestPolicy` before or after the `RequestBundle`s, …).

  1. reader: `_store_element` keeps same-named siblings as a list IN DOCUMENT ORDER, so the two dicts are not
     `==`; they are `DictPerm`: equal up to the order of the entries of those lists (`C12_child_order_reader`);
  2. glue: every such list ends in a Python `set` or in the sorted bundle list.  Both loaders raise or both
     return; the objects are the same up to the list representation of the `set` fields
     (`RequestSame` / `ResponseSame`, KskmProofs/Lemmas/XmlGlueSame.lean); with the sort by
     (expiration, inception, id) and pairwise distinct bundle ids — the hypothesis of `C12_order_key` — the
     bundle LISTS agree position by position (`SameRequest` / `SameResponsePerm`).  WHICH exception is raised
     when several siblings are faulty is the first one's in document order — only "both raise" is invariant
     (`sibling_order_error_class_witness`);
  3. verdict: `validate_request` accepts both or neither (rule by rule from C05 / C06 / C07,
     KskmProofs/Lemmas/XmlValidateSame.lean), likewise `validate_response`; hence `load_ksr` / `load_skr` return
     an object for both files or for neither.  An accepted KSR has pairwise distinct bundle ids, so no such
     hypothesis is left in `C12_sibling_order_load_ksr`. -/

/-- outcomes of a loader on two documents: both return, with `R`-related objects, or both raise; "still
    running" is not among the outcomes on plain documents -/
def LoadSame {α : Type} (R : α → α → Prop) : Load α → Load α → Prop
  | .done x, .done y => ResSame R x y
  | _, _ => False

/-- **Child order, at the reader.**  Two plain documents that differ in the ORDER of the child elements of
    their elements (and in any insignificant white space: `ChildPermT` compares the standard readings): the
    reader returns two dicts that are equal up to the order of the entries of the lists in which it collects
    same-named siblings (`DictPerm`). -/
theorem C12_child_order_reader (cls : Classes) (hs : Sane cls) (sw : Switches) (w w' : WTree)
    (hp : PlainW cls w) (hp' : PlainW cls w') (hh : heightW w ≤ 5) (hh' : heightW w' ≤ 5)
    (hperm : ChildPermT (eraseT w) (eraseT w'))
    (lead trail lead' trail' : List Char) (hl : Ws cls lead) (ht : Ws cls trail) (hl' : Ws cls lead')
    (ht' : Ws cls trail') :
    ∃ r r', parse cls sw (lead ++ renderW w ++ trail) = .ok r ∧ parse cls sw (lead' ++ renderW w' ++ trail') = .ok r' ∧
      DictPerm (.dict r) (.dict r') :=
  ⟨_, _, C12_reader_layout cls hs sw w hp hh lead trail hl ht, C12_reader_layout cls hs sw w' hp' hh' lead' trail' hl' ht',
    dictOf_childPerm _ _ hperm⟩

/-- a loader built from `parse_ksr` and a glue function that maps `DictPerm` dicts to `R`-related outcomes -/
theorem fromXmlWith_same {α} (cls : Classes) (sw : Switches) (glue : XVal → Res α) (R : α → α → Prop)
    (hglue : ∀ a b, DictPerm a b → ResSame R (glue a) (glue b)) (x x' : List Char) (r r' : Dict)
    (h : parseKsr cls sw x = .ok r) (h' : parseKsr cls sw x' = .ok r') (he : DictPerm (.dict r) (.dict r')) :
    LoadSame R (fromXmlWith cls sw glue x) (fromXmlWith cls sw glue x') := by
  unfold fromXmlWith
  rw [h, h']
  exact hglue _ _ he

/-- **C12_sibling_order.**  Two plain KSR/SKR documents, each behind a prolog of the grammar, that differ in the
    order of the child elements of any of their elements (and in layout): `request_from_xml` raises on both or
    returns on both — `Request`s that are the same up to the representation of the `set` fields (keys,
    signatures, signers, algorithms: permutations of the same duplicate-free lists), with the same bundles,
    position by position when the sort is by (expiration, inception, id) and the ids are pairwise distinct
    (`RequestSame`, `BundlesSame`) —, and so does `response_from_xml`; for either value of every behaviour
    switch. -/
theorem C12_sibling_order (cls : Classes) (hs : Sane cls) (sw : Switches) (gs : GlueSwitches) (w w' : WTree)
    (hn : w.name = "KSR".toList) (hn' : w'.name = "KSR".toList)
    (hp : PlainW cls w) (hp' : PlainW cls w') (hh : heightW w ≤ 5) (hh' : heightW w' ≤ 5)
    (hperm : ChildPermT (eraseT w) (eraseT w'))
    (items items' : List PrologItem) (hi : ∀ it ∈ items, it.Ok) (hi' : ∀ it ∈ items', it.Ok)
    (trail trail' : List Char) (ht : Ws cls trail) (ht' : Ws cls trail') :
    LoadSame (RequestSame gs.sortsRequestBundlesByTriple)
      (requestFromXmlL cls sw gs (renderProlog items ++ renderW w ++ trail))
      (requestFromXmlL cls sw gs (renderProlog items' ++ renderW w' ++ trail')) ∧
    LoadSame (ResponseSame gs.sortsResponseBundles)
      (responseFromXmlL cls sw gs (renderProlog items ++ renderW w ++ trail))
      (responseFromXmlL cls sw gs (renderProlog items' ++ renderW w' ++ trail')) := by
  have h1 := C12_reader_prolog cls hs sw items hi w hn hp hh trail ht
  have h2 := C12_reader_prolog cls hs sw items' hi' w' hn' hp' hh' trail' ht'
  have he := dictOf_childPerm _ _ hperm
  exact ⟨fromXmlWith_same cls sw _ _ (fun _ _ => requestFromDict_same gs) _ _ _ _ h1 h2 he,
    fromXmlWith_same cls sw _ _ (fun _ _ => responseFromDict_same gs) _ _ _ _ h1 h2 he⟩

/-- **… in the property's words, for requests.**  If the first document loads, to `r`, the permuted document
    loads too, to some `r'` with the same header, a declared policy with the same SET of algorithms and the
    same bundles up to the `set` fields; under the sort by (expiration, inception, id) and pairwise distinct
    bundle ids `r'` is `r` bundle by bundle: `SameRequest r r'` — Python's `r == r'`. -/
theorem C12_sibling_order_request (cls : Classes) (hs : Sane cls) (sw : Switches) (gs : GlueSwitches) (w w' : WTree)
    (hn : w.name = "KSR".toList) (hn' : w'.name = "KSR".toList)
    (hp : PlainW cls w) (hp' : PlainW cls w') (hh : heightW w ≤ 5) (hh' : heightW w' ≤ 5)
    (hperm : ChildPermT (eraseT w) (eraseT w'))
    (items items' : List PrologItem) (hi : ∀ it ∈ items, it.Ok) (hi' : ∀ it ∈ items', it.Ok)
    (trail trail' : List Char) (ht : Ws cls trail) (ht' : Ws cls trail') (r : Request)
    (hr : requestFromXmlL cls sw gs (renderProlog items ++ renderW w ++ trail) = .done (.ok r)) :
    ∃ r', requestFromXmlL cls sw gs (renderProlog items' ++ renderW w' ++ trail') = .done (.ok r') ∧
      RequestSame gs.sortsRequestBundlesByTriple r r' ∧ C06.DeclaredWellFormed r ∧
      (gs.sortsRequestBundlesByTriple = true →
        (r.bundles.Pairwise (fun a b => a.id ≠ b.id) ∨ r'.bundles.Pairwise (fun a b => a.id ≠ b.id)) →
        SameRequest r r') := by
  have h := (C12_sibling_order cls hs sw gs w w' hn hn' hp hp' hh hh' hperm items items' hi hi' trail trail' ht ht').1
  have hwf : C06.DeclaredWellFormed r := by
    have h1 := C12_reader_prolog cls hs sw items hi w hn hp hh trail ht
    unfold requestFromXmlL fromXmlWith at hr
    rw [h1] at hr
    simp only [Load.done.injEq] at hr
    exact requestFromDict_wellFormed gs _ r hr
  rw [hr] at h
  cases hx : requestFromXmlL cls sw gs (renderProlog items' ++ renderW w' ++ trail') with
  | hang => rw [hx] at h; exact h.elim
  | done y =>
    rw [hx] at h
    cases y with
    | error e => exact (h : False).elim
    | ok r' =>
      refine ⟨r', rfl, h, hwf, fun hgs hd => ?_⟩
      have h' : RequestSame true r r' := hgs ▸ h
      exact h'.same hd

/-- **The verdict of validation does not depend on the order of child elements** (requests; the sort by
    (expiration, inception, id) of the repaired glue).  If both documents load, `validate_request` accepts both
    or neither — for every verifier, clock value and policy — and an accepted pair is `SameRequest`.  No
    hypothesis on the bundle ids is left: a request with a repeated id is refused in either order. -/
theorem C12_sibling_order_verdict (cls : Classes) (hs : Sane cls) (sw : Switches) (gs : GlueSwitches)
    (hgs : gs.sortsRequestBundlesByTriple = true) (w w' : WTree)
    (hn : w.name = "KSR".toList) (hn' : w'.name = "KSR".toList)
    (hp : PlainW cls w) (hp' : PlainW cls w') (hh : heightW w ≤ 5) (hh' : heightW w' ≤ 5)
    (hperm : ChildPermT (eraseT w) (eraseT w'))
    (items items' : List PrologItem) (hi : ∀ it ∈ items, it.Ok) (hi' : ∀ it ∈ items', it.Ok)
    (trail trail' : List Char) (ht : Ws cls trail) (ht' : Ws cls trail') (r r' : Request)
    (hr : requestFromXmlL cls sw gs (renderProlog items ++ renderW w ++ trail) = .done (.ok r))
    (hr' : requestFromXmlL cls sw gs (renderProlog items' ++ renderW w' ++ trail') = .done (.ok r'))
    (verify : Verifier) (now : Int) (pol : RequestPolicy) :
    (validateRequest verify now r pol = .ok () ↔ validateRequest verify now r' pol = .ok ()) ∧
    (validateRequest verify now r pol = .ok () → SameRequest r r') := by
  obtain ⟨r'', hr'', _, hwf, hsame⟩ := C12_sibling_order_request cls hs sw gs w w' hn hn' hp hp' hh hh' hperm
    items items' hi hi' trail trail' ht ht' r hr
  rw [hr'] at hr''
  simp only [Load.done.injEq, Except.ok.injEq] at hr''
  subst hr''
  have hwf' : C06.DeclaredWellFormed r' := by
    have h2 := C12_reader_prolog cls hs sw items' hi' w' hn' hp' hh' trail' ht'
    unfold requestFromXmlL fromXmlWith at hr'
    rw [h2] at hr'
    simp only [Load.done.injEq] at hr'
    exact requestFromDict_wellFormed gs _ r' hr'
  refine ⟨⟨fun hv => ?_, fun hv => ?_⟩, fun hv => hsame hgs (Or.inl (validateRequest_ids verify now r pol hv))⟩
  · exact (validateRequest_same verify now pol (hsame hgs (Or.inl (validateRequest_ids verify now r pol hv))) hwf).mp hv
  · exact (validateRequest_same verify now pol (hsame hgs (Or.inr (validateRequest_ids verify now r' pol hv))) hwf).mpr hv

/-- **… for responses**, with no hypothesis at all: if the first document loads, so does the permuted one — to
    the same response up to `set` fields and bundle order (`ResponseSame`; bundle by bundle under the sort and
    distinct ids) — and `validate_response` and the gate of `load_skr` accept both or neither. -/
theorem C12_sibling_order_response (cls : Classes) (hs : Sane cls) (sw : Switches) (gs : GlueSwitches) (w w' : WTree)
    (hn : w.name = "KSR".toList) (hn' : w'.name = "KSR".toList)
    (hp : PlainW cls w) (hp' : PlainW cls w') (hh : heightW w ≤ 5) (hh' : heightW w' ≤ 5)
    (hperm : ChildPermT (eraseT w) (eraseT w'))
    (items items' : List PrologItem) (hi : ∀ it ∈ items, it.Ok) (hi' : ∀ it ∈ items', it.Ok)
    (trail trail' : List Char) (ht : Ws cls trail) (ht' : Ws cls trail') (r : Response)
    (hr : responseFromXmlL cls sw gs (renderProlog items ++ renderW w ++ trail) = .done (.ok r)) :
    ∃ r', responseFromXmlL cls sw gs (renderProlog items' ++ renderW w' ++ trail') = .done (.ok r') ∧
      ResponseSame gs.sortsResponseBundles r r' ∧
      (gs.sortsResponseBundles = true →
        (r.bundles.Pairwise (fun a b => a.id ≠ b.id) ∨ r'.bundles.Pairwise (fun a b => a.id ≠ b.id)) →
        SameResponsePerm r r') ∧
      ∀ (verify : Verifier) (pol : ResponsePolicy),
        (validateResponse verify r pol = .ok () ↔ validateResponse verify r' pol = .ok ()) ∧
        (loadSkrGate verify r pol = .ok () ↔ loadSkrGate verify r' pol = .ok ()) := by
  have h := (C12_sibling_order cls hs sw gs w w' hn hn' hp hp' hh hh' hperm items items' hi hi' trail trail' ht ht').2
  rw [hr] at h
  cases hx : responseFromXmlL cls sw gs (renderProlog items' ++ renderW w' ++ trail') with
  | hang => rw [hx] at h; exact h.elim
  | done y =>
    rw [hx] at h
    cases y with
    | error e => exact (h : False).elim
    | ok r' =>
      have h0 : ResponseSame gs.sortsResponseBundles r r' := h
      refine ⟨r', rfl, h0, fun hgs hd => ?_, fun verify pol =>
        ⟨validateResponse_same verify pol h0.bundles.1, loadSkrGate_same verify pol h0.bundles.1⟩⟩
      have h' : ResponseSame true r r' := hgs ▸ h0
      exact h'.same hd

/-- one direction of `C12_sibling_order_load_ksr` -/
theorem load_ksr_sibling_mp (cls : Classes) (hs : Sane cls) (sw : Switches) (gs : GlueSwitches)
    (hgs : gs.sortsRequestBundlesByTriple = true) (w w' : WTree)
    (hn : w.name = "KSR".toList) (hn' : w'.name = "KSR".toList)
    (hp : PlainW cls w) (hp' : PlainW cls w') (hh : heightW w ≤ 5) (hh' : heightW w' ≤ 5)
    (hperm : ChildPermT (eraseT w) (eraseT w'))
    (items items' : List PrologItem) (hi : ∀ it ∈ items, it.Ok) (hi' : ∀ it ∈ items', it.Ok)
    (trail trail' : List Char) (ht : Ws cls trail) (ht' : Ws cls trail')
    (verify : Verifier) (now : Int) (pol : RequestPolicy) (ro : Bool) (f f' : FileOracle)
    (hsz : f.statSize ≤ KskmGen.maxKsrSize) (hsz' : f'.statSize ≤ KskmGen.maxKsrSize)
    (hd : f.decode (f.read KskmGen.maxKsrSize) = some (renderProlog items ++ renderW w ++ trail))
    (hd' : f'.decode (f'.read KskmGen.maxKsrSize) = some (renderProlog items' ++ renderW w' ++ trail'))
    (r : Request) (hl : (loadKsr cls sw gs verify now f pol ro).result = .done (.ok r)) :
    ∃ r', (loadKsr cls sw gs verify now f' pol ro).result = .done (.ok r') ∧ SameRequest r r' := by
  obtain ⟨hr, hv⟩ := (loadKsr_ok_iff cls sw gs verify now f pol ro hsz _ hd r).mp hl
  obtain ⟨r', hr', _, _, _⟩ := C12_sibling_order_request cls hs sw gs w w' hn hn' hp hp' hh hh' hperm
    items items' hi hi' trail trail' ht ht' r hr
  obtain ⟨hiff, hsame⟩ := C12_sibling_order_verdict cls hs sw gs hgs w w' hn hn' hp hp' hh hh' hperm
    items items' hi hi' trail trail' ht ht' r r' hr hr' verify now pol
  exact ⟨r', (loadKsr_ok_iff cls sw gs verify now f' pol ro hsz' _ hd' r').mpr ⟨hr', hiff.mp hv⟩, hsame hv⟩

/-- **`load_ksr` on two files that differ in the order of child elements** (size gate passed, the bytes decode
    to the two documents; the repaired sort): a `Request` comes back for both files or for neither, and the
    two are `SameRequest` — the same object for Python's `==`. -/
theorem C12_sibling_order_load_ksr (cls : Classes) (hs : Sane cls) (sw : Switches) (gs : GlueSwitches)
    (hgs : gs.sortsRequestBundlesByTriple = true) (w w' : WTree)
    (hn : w.name = "KSR".toList) (hn' : w'.name = "KSR".toList)
    (hp : PlainW cls w) (hp' : PlainW cls w') (hh : heightW w ≤ 5) (hh' : heightW w' ≤ 5)
    (hperm : ChildPermT (eraseT w) (eraseT w'))
    (items items' : List PrologItem) (hi : ∀ it ∈ items, it.Ok) (hi' : ∀ it ∈ items', it.Ok)
    (trail trail' : List Char) (ht : Ws cls trail) (ht' : Ws cls trail')
    (verify : Verifier) (now : Int) (pol : RequestPolicy) (ro : Bool) (f f' : FileOracle)
    (hsz : f.statSize ≤ KskmGen.maxKsrSize) (hsz' : f'.statSize ≤ KskmGen.maxKsrSize)
    (hd : f.decode (f.read KskmGen.maxKsrSize) = some (renderProlog items ++ renderW w ++ trail))
    (hd' : f'.decode (f'.read KskmGen.maxKsrSize) = some (renderProlog items' ++ renderW w' ++ trail')) :
    (∀ r, (loadKsr cls sw gs verify now f pol ro).result = .done (.ok r) →
      ∃ r', (loadKsr cls sw gs verify now f' pol ro).result = .done (.ok r') ∧ SameRequest r r') ∧
    (∀ r', (loadKsr cls sw gs verify now f' pol ro).result = .done (.ok r') →
      ∃ r, (loadKsr cls sw gs verify now f pol ro).result = .done (.ok r) ∧ SameRequest r r') := by
  refine ⟨fun r hl => load_ksr_sibling_mp cls hs sw gs hgs w w' hn hn' hp hp' hh hh' hperm items items' hi hi'
    trail trail' ht ht' verify now pol ro f f' hsz hsz' hd hd' r hl, fun r' hl' => ?_⟩
  obtain ⟨r, hl, hsame⟩ := load_ksr_sibling_mp cls hs sw gs hgs w' w hn' hn hp' hp hh' hh hperm.symm items' items hi' hi
    trail' trail ht' ht verify now pol ro f' f hsz' hsz hd' hd r' hl'
  exact ⟨r, hl, hsame.symm⟩

/-- **`load_skr`, likewise** — for every value of the switches: a `Response` comes back for both files or for
    neither; the same response up to `set` fields (and, without the sort or with repeated ids, bundle order). -/
theorem C12_sibling_order_load_skr (cls : Classes) (hs : Sane cls) (sw : Switches) (gs : GlueSwitches) (w w' : WTree)
    (hn : w.name = "KSR".toList) (hn' : w'.name = "KSR".toList)
    (hp : PlainW cls w) (hp' : PlainW cls w') (hh : heightW w ≤ 5) (hh' : heightW w' ≤ 5)
    (hperm : ChildPermT (eraseT w) (eraseT w'))
    (items items' : List PrologItem) (hi : ∀ it ∈ items, it.Ok) (hi' : ∀ it ∈ items', it.Ok)
    (trail trail' : List Char) (ht : Ws cls trail) (ht' : Ws cls trail')
    (verify : Verifier) (pol : ResponsePolicy) (f f' : FileOracle)
    (hsz : f.statSize ≤ KskmGen.maxSkrSize) (hsz' : f'.statSize ≤ KskmGen.maxSkrSize)
    (hd : f.decode (f.read KskmGen.maxSkrSize) = some (renderProlog items ++ renderW w ++ trail))
    (hd' : f'.decode (f'.read KskmGen.maxSkrSize) = some (renderProlog items' ++ renderW w' ++ trail'))
    (r : Response) (hl : (loadSkr cls sw gs verify f pol).result = .done (.ok r)) :
    ∃ r', (loadSkr cls sw gs verify f' pol).result = .done (.ok r') ∧ ResponseSame gs.sortsResponseBundles r r' := by
  obtain ⟨hr, hv⟩ := (loadSkr_ok_iff cls sw gs verify f pol hsz _ hd r).mp hl
  obtain ⟨r', hr', hsame, _, hverd⟩ := C12_sibling_order_response cls hs sw gs w w' hn hn' hp hp' hh hh' hperm
    items items' hi hi' trail trail' ht ht' r hr
  exact ⟨r', (loadSkr_ok_iff cls sw gs verify f' pol hsz' _ hd' r').mpr ⟨hr', (hverd verify pol).2.mp hv⟩, hsame⟩

/-- **When only differently named siblings change places** (`ChildMoveT`: same-named siblings keep their
    relative order — `Inception` after `Expiration`, `RequestPolicy` after the `RequestBundle`s, a `Signer` between
    two `Key`s): the reader's dicts are `==` and the loaders return the SAME object, or raise the same error. -/
theorem C12_child_order_distinct_names (cls : Classes) (hs : Sane cls) (sw : Switches) (gs : GlueSwitches) (w w' : WTree)
    (hn : w.name = "KSR".toList) (hn' : w'.name = "KSR".toList)
    (hp : PlainW cls w) (hp' : PlainW cls w') (hh : heightW w ≤ 5) (hh' : heightW w' ≤ 5)
    (hmove : ChildMoveT (eraseT w) (eraseT w'))
    (items items' : List PrologItem) (hi : ∀ it ∈ items, it.Ok) (hi' : ∀ it ∈ items', it.Ok)
    (trail trail' : List Char) (ht : Ws cls trail) (ht' : Ws cls trail') :
    requestFromXmlL cls sw gs (renderProlog items ++ renderW w ++ trail) =
      requestFromXmlL cls sw gs (renderProlog items' ++ renderW w' ++ trail') ∧
    responseFromXmlL cls sw gs (renderProlog items ++ renderW w ++ trail) =
      responseFromXmlL cls sw gs (renderProlog items' ++ renderW w' ++ trail') := by
  have h1 := C12_reader_prolog cls hs sw items hi w hn hp hh trail ht
  have h2 := C12_reader_prolog cls hs sw items' hi' w' hn' hp' hh' trail' ht'
  have he := dictOf_childMove _ _ hmove
  exact ⟨fromXmlWith_congr cls sw _ (fun _ _ => requestFromDict_congr gs) _ _ _ _ h1 h2 he,
    fromXmlWith_congr cls sw _ (fun _ _ => responseFromDict_congr gs) _ _ _ _ h1 h2 he⟩

/-! ### what is NOT invariant, and why the statements above have the form they have -/

/-- **The model's lists show the document order; the Python sets do not.**  Two `SignatureAlgorithm` siblings in
    the two orders load to the lists `[8, 10]` and `[10, 8]`: `=` on the model's `Request` would be false where
    Python's `==` is true — hence `SameRequest` (permutations of duplicate-free lists). -/
theorem sibling_order_set_witness (gs : GlueSwitches) :
    (requestFromDict gs (.dict (dictOf (eraseT SiblingExample.doc)))).map (·.zskPolicy.algorithms) =
      .ok [SiblingExample.p8, SiblingExample.p10] ∧
    (requestFromDict gs (.dict (dictOf (eraseT SiblingExample.docP)))).map (·.zskPolicy.algorithms) =
      .ok [SiblingExample.p10, SiblingExample.p8] ∧
    [SiblingExample.p8, SiblingExample.p10].Perm [SiblingExample.p10, SiblingExample.p8] ∧
    [SiblingExample.p8, SiblingExample.p10] ≠ [SiblingExample.p10, SiblingExample.p8] := by
  exact ⟨(SiblingExample.doc_algs gs).1, (SiblingExample.doc_algs gs).2, List.Perm.swap _ _ _, by decide⟩

/-- **Which exception comes out depends on the order when several siblings are faulty**: `_keys_from_list`
    raises at the first faulty `Key` in document order — a `KeyError` for an element without attributes, a
    `TypeError` for a text-only element.  Both orders raise (that is what `C12_sibling_order` states); the
    classes differ. -/
theorem sibling_order_error_class_witness :
    ListPerm [.dict [], .str []] [.str [], .dict []] ∧
    keysOf (.list [.dict [], .str []]) = err .key ∧ keysOf (.list [.str [], .dict []]) = err .type :=
  ⟨.swap _ _ _, by decide, by decide⟩

/-! ### non-vacuity of section 8 -/

/-- the hypotheses of `C12_sibling_order` hold of `SiblingExample.doc` / `docP` (KskmProofs/Lemmas/XmlChildPermExample.lean:
    a request policy with six durations and two signature algorithms, five levels deep; in `docP` the children of
    `ZSK` stand in another order, with other white space) behind `examplePrologItems` … -/
example : SiblingExample.doc.name = "KSR".toList ∧ SiblingExample.docP.name = "KSR".toList ∧
    PlainW pyClasses SiblingExample.doc ∧ PlainW pyClasses SiblingExample.docP ∧
    heightW SiblingExample.doc ≤ 5 ∧ heightW SiblingExample.docP ≤ 5 ∧
    ChildPermT (eraseT SiblingExample.doc) (eraseT SiblingExample.docP) ∧
    (∀ it ∈ examplePrologItems, it.Ok) ∧ Ws pyClasses "\n".toList :=
  ⟨SiblingExample.doc_names.1, SiblingExample.doc_names.2, SiblingExample.doc_plain.1, SiblingExample.docP_plain.1,
    SiblingExample.doc_plain.2, SiblingExample.docP_plain.2, SiblingExample.doc_perm, examplePrologItems_ok,
    by unfold Ws; decide +kernel⟩

/-- … so the theorem applies: its conclusion for the two texts (the type is the instance of `C12_sibling_order`) -/
example := C12_sibling_order pyClasses pyClasses_sane pySwitches pyGlueSwitches SiblingExample.doc SiblingExample.docP
  SiblingExample.doc_names.1 SiblingExample.doc_names.2 SiblingExample.doc_plain.1 SiblingExample.docP_plain.1
  SiblingExample.doc_plain.2 SiblingExample.docP_plain.2 SiblingExample.doc_perm examplePrologItems []
  examplePrologItems_ok (by intro it h; simp at h) "\n".toList [] (by unfold Ws; decide +kernel)
  (by intro c hc; simp at hc)

/-- … and the outcome is "both return" (not "both raise"): the first document loads, behind the prolog -/
example : ∃ r, requestFromXmlL pyClasses pySwitches pyGlueSwitches
      (renderProlog examplePrologItems ++ renderW SiblingExample.doc ++ "\n".toList) = .done (.ok r) ∧
    r.zskPolicy.algorithms = [SiblingExample.p8, SiblingExample.p10] := by
  obtain ⟨r, hr, ha⟩ := SiblingExample.doc_request pyGlueSwitches
  exact ⟨r, SiblingExample.fromXmlWith_ok (C12_reader_prolog pyClasses pyClasses_sane pySwitches examplePrologItems
    examplePrologItems_ok SiblingExample.doc SiblingExample.doc_names.1 SiblingExample.doc_plain.1
    SiblingExample.doc_plain.2 "\n".toList (by unfold Ws; decide +kernel)) hr, ha⟩

/-- `docM` (`RetireSafety` before `PublishSafety`) meets the hypotheses of `C12_child_order_distinct_names` -/
example : PlainW pyClasses SiblingExample.docM ∧ heightW SiblingExample.docM ≤ 5 ∧
    ChildMoveT (eraseT SiblingExample.doc) (eraseT SiblingExample.docM) :=
  ⟨SiblingExample.docM_plain.1, SiblingExample.docM_plain.2, SiblingExample.doc_move⟩

/-- the two readings differ as values — `DictPerm` is not `=` -/
example : dictOf (eraseT SiblingExample.docP) ≠ dictOf (eraseT SiblingExample.doc) := SiblingExample.doc_dict_ne

end Kskm.C12
