/-
  C12 — the KSR/SKR reader agrees with a standard XML parser, in any sibling order.

  What "a standards-conforming XML parser extracts" is fixed here by a specification written
  independently of the reader: `PlainXml` trees (KskmProofs/Lemmas/XmlRender.lean) with their rendering
  as text and the dict a standard reading of that text yields (`dictOf`: the element structure, with
  repeated siblings collected in document order).  That `t` IS the standard reading of `render t` is
  what harness/corr_C12.py checks against `xml.etree.ElementTree` on every generated document.

  Theorems in this file:

  * `storeElement_repetition` — n occurrences of a sibling name are stored as the value itself for
    n = 1 and as the list of the n values in document order for n ≥ 2, other names untouched.  This
    is the shape the glue has to cope with.
  * `C12_glue_*` — for Key / Signature / SignatureAlgorithm / RequestBundle the glue treats the single
    shape and the list shape alike (every repetition count ≥ 1 the grammar allows); for Signer and
    ResponseBundle it does so exactly when the behaviour switch tabulated from the code says the single
    value is wrapped (`wrapsSingleSigner`, `wrapsSingleResponseBundle`); with the switch off the
    counterexamples of findings F11 / F12 are proved (`…_counterexample`), and
    `C12_glue_current_tree` states whichever applies to the tree in /repo now.
  * `timestamp_placement_counterexample` — F13: the optional `timestamp` where the schema puts it (on
    `Request`) makes the glue fail with KeyError; on `KSR` (where the schema does not allow it) it is read.
  * `C12_order` — sorting request bundles by expiration gives the same list for every permutation of
    the input when expirations are pairwise distinct; `C12_order_bundles` lifts this through the glue;
    `C12_order_tie_counterexample` — F8: with equal expirations document order shows through.
  * `C12_reader_*` — reader correctness against `PlainXml` (see the section at the end for what is
    proved and what is still open).
-/
import Kskm.XmlGlue
import KskmProofs.Lemmas.XmlStore
namespace Kskm.C12
open Kskm.Xml

/-! ## 1. Repeated siblings -/

/-- the dict value `_store_element` leaves for the values `vs` of one name, in document order -/
def repeated : List XVal → XVal
  | [v] => v
  | vs => .list vs

/-- **Repetition.** Storing the values of `n` same-named siblings (none of which is itself a list —
    element values are strings or dicts) under a name not yet present yields: nothing for n = 0, the
    value itself for n = 1, the list of all n values in document order for n ≥ 2; and no other name
    is affected. -/
theorem storeElement_repetition (res : Dict) (name : List Char) (hfresh : res.lookup name = none)
    (vs : List XVal) (hnl : ∀ v ∈ vs, v.isList = false) :
    (storeAll res name vs).lookup name = (if vs = [] then none else some (repeated vs)) ∧
    ∀ k, k ≠ name → (storeAll res name vs).lookup k = res.lookup k := by
  refine ⟨?_, fun k hk => storeAll_other name k hk vs res⟩
  match vs, hnl with
  | [], _ => simpa [storeAll] using hfresh
  | [v], _ =>
    simp only [storeAll, List.foldl, repeated, List.cons_ne_nil, ↓reduceIte]
    exact storeElement_fresh _ _ _ hfresh
  | v₁ :: v₂ :: r, hnl =>
    have h1 := storeElement_fresh res name v₁ hfresh
    have h2 := storeElement_second _ name v₁ v₂ h1 (hnl v₁ (by simp))
    have := storeAll_list name r _ _ h2
    simpa [storeAll, repeated] using this

/-- what the glue's idiom `x if isinstance(x, list) else [x]` makes of a repeated element: the list of
    its occurrences, for every repetition count ≥ 1 -/
theorem asList_repeated (vs : List XVal) (hne : vs ≠ []) (hnl : ∀ v ∈ vs, v.isList = false) :
    (repeated vs).asList = vs := by
  match vs, hne, hnl with
  | [v], _, hnl =>
    have := hnl v (by simp)
    cases v <;> simp_all [repeated, XVal.asList, XVal.isList]
  | _ :: _ :: _, _, _ => simp [repeated, XVal.asList]

/-! ## 2. The glue copes with both shapes — where it does -/

/-- **Key, Signature, SignatureAlgorithm**: every repetition count ≥ 1, single or list shape, yields
    the set of the parsed occurrences. -/
theorem C12_glue_keys (vs : List XVal) (hne : vs ≠ []) (hnl : ∀ v ∈ vs, v.isList = false) :
    keysOf (repeated vs) = (do let l ← vs.mapM keyOf; pure (dedup l)) := by
  unfold keysOf; rw [asList_repeated vs hne hnl]

theorem C12_glue_signatures (vs : List XVal) (hne : vs ≠ []) (hnl : ∀ v ∈ vs, v.isList = false) :
    signaturesOf (repeated vs) = (do let l ← vs.mapM signatureOf; pure (dedup l)) := by
  unfold signaturesOf; rw [asList_repeated vs hne hnl]

theorem C12_glue_algorithms (vs : List XVal) (hne : vs ≠ []) (hnl : ∀ v ∈ vs, v.isList = false) :
    signatureAlgorithmsOf (repeated vs) = (do let l ← vs.mapM algPolicyOf; pure (dedup l)) := by
  unfold signatureAlgorithmsOf; rw [asList_repeated vs hne hnl]

/-- **RequestBundle**: `request_from_xml` hands `request_bundles_from_list_of_dicts` the list of the
    occurrences whatever their number (0 when the element is absent). -/
theorem C12_glue_request_bundles (gs : GlueSwitches) (vs : List XVal) (hne : vs ≠ [])
    (hnl : ∀ v ∈ vs, v.isList = false) :
    requestBundlesOf gs (repeated vs).asList = requestBundlesOf gs vs := by
  rw [asList_repeated vs hne hnl]

/-- one `Signer(…)` -/
def signerOf (this : XVal) : Res (Option String) := do
  let s ← strictStr (← (← this.getItem "attrs").getItem "keyIdentifier")
  pure (some s)

/-- **Signer**, repaired glue: every repetition count ≥ 1. -/
theorem C12_glue_signers (gs : GlueSwitches) (hgs : gs.wrapsSingleSigner = true) (vs : List XVal)
    (hne : vs ≠ []) (hnl : ∀ v ∈ vs, v.isList = false) (htr : ∀ v ∈ vs, v.truthy = true) :
    signersOf gs (repeated vs) = (do let l ← vs.mapM signerOf; pure (some (dedup l))) := by
  have ht : (repeated vs).truthy = true := by
    match vs, hne, htr with
    | [v], _, htr => simpa [repeated] using htr v (by simp)
    | _ :: _ :: _, _, _ => simp [repeated, XVal.truthy]
  unfold signersOf
  simp only [ht, Bool.not_true, Bool.false_eq_true, ↓reduceIte, hgs, asList_repeated vs hne hnl]
  rfl

/-- a `<Signer keyIdentifier="KC1"/>` as the reader stores it -/
def signerDict (kid : String) : XVal :=
  .dict [(kAttrs, .dict [("keyIdentifier".toList, .str kid.toList)]), (kValue, .str [])]

/-- **F11.** With the pinned glue exactly one Signer is a TypeError (the loop runs over the KEYS of the
    single dict), while 0 and 2 signers load. -/
theorem C12_glue_signers_counterexample (b : Bool) :
    signersOf ⟨false, b⟩ (repeated [signerDict "KC1"]) = err .type ∧
    signersOf ⟨false, b⟩ (.list []) = .ok none ∧
    signersOf ⟨false, b⟩ (repeated [signerDict "KC1", signerDict "KC2"]) = .ok (some [some "KC1", some "KC2"]) ∧
    signersOf ⟨true, b⟩ (repeated [signerDict "KC1"]) = .ok (some [some "KC1"]) := by
  cases b <;> decide

/-- **ResponseBundle**, repaired glue: every repetition count ≥ 1. -/
theorem C12_glue_response_bundles (gs : GlueSwitches) (hgs : gs.wrapsSingleResponseBundle = true)
    (vs : List XVal) (hne : vs ≠ []) (hnl : ∀ v ∈ vs, v.isList = false) :
    responseBundlesOf gs (repeated vs) = vs.mapM responseBundleOf := by
  unfold responseBundlesOf
  simp only [hgs, ↓reduceIte, asList_repeated vs hne hnl]

/-- **F12.** With the pinned glue exactly one ResponseBundle is a TypeError, whatever it contains. -/
theorem C12_glue_response_bundles_counterexample (a : Bool) (attrs value : XVal) :
    responseBundlesOf ⟨a, false⟩ (repeated [.dict [(kAttrs, attrs), (kValue, value)]]) = err .type := by
  simp [responseBundlesOf, repeated, XVal.iter, List.mapM_cons, responseBundleOf, XVal.getItem, bind,
    Except.bind, err]

/-- The tree in /repo now: for each of the two switches tabulated from the code, the statement that
    applies. -/
theorem C12_glue_current_tree :
    (if KskmGen.wrapsSingleSigner = true then
        ∀ vs, vs ≠ [] → (∀ v ∈ vs, v.isList = false) → (∀ v ∈ vs, v.truthy = true) →
          signersOf pyGlueSwitches (repeated vs) = (do let l ← vs.mapM signerOf; pure (some (dedup l)))
      else signersOf pyGlueSwitches (repeated [signerDict "KC1"]) = err .type) ∧
    (if KskmGen.wrapsSingleResponseBundle = true then
        ∀ vs, vs ≠ [] → (∀ v ∈ vs, v.isList = false) →
          responseBundlesOf pyGlueSwitches (repeated vs) = vs.mapM responseBundleOf
      else ∀ attrs value,
        responseBundlesOf pyGlueSwitches (repeated [.dict [(kAttrs, attrs), (kValue, value)]]) = err .type) := by
  constructor
  · cases h : KskmGen.wrapsSingleSigner with
    | true =>
      simp only [↓reduceIte]
      exact fun vs h1 h2 h3 => C12_glue_signers pyGlueSwitches h vs h1 h2 h3
    | false =>
      simp only [Bool.false_eq_true, ↓reduceIte]
      have : pyGlueSwitches = ⟨false, KskmGen.wrapsSingleResponseBundle⟩ := by
        simp [pyGlueSwitches, h]
      rw [this]
      exact (C12_glue_signers_counterexample _).1
  · cases h : KskmGen.wrapsSingleResponseBundle with
    | true =>
      simp only [↓reduceIte]
      exact fun vs h1 h2 => C12_glue_response_bundles pyGlueSwitches h vs h1 h2
    | false =>
      simp only [Bool.false_eq_true, ↓reduceIte]
      have : pyGlueSwitches = ⟨KskmGen.wrapsSingleSigner, false⟩ := by
        simp [pyGlueSwitches, h]
      rw [this]
      exact fun attrs value => C12_glue_response_bundles_counterexample _ attrs value

/-! ### F13: where the optional `timestamp` is looked for -/

def s (x : String) : XVal := .str x.toList
def d (kvs : List (String × XVal)) : XVal := .dict (kvs.map fun p => (p.1.toList, p.2))

/-- a minimal request body: policy with one RSA algorithm, no bundles -/
def minimalRequestBody : XVal :=
  d [("RequestPolicy", d [("ZSK", d [
      ("PublishSafety", s "P10D"), ("RetireSafety", s "P10D"), ("MaxSignatureValidity", s "P21D"),
      ("MinSignatureValidity", s "P21D"), ("MaxValidityOverlap", s "P12D"), ("MinValidityOverlap", s "P9D"),
      ("SignatureAlgorithm", d [("attrs", d [("algorithm", s "8")]),
        ("value", d [("RSA", d [("attrs", d [("size", s "2048"), ("exponent", s "65537")]), ("value", s "")])])])])])]

/-- `<KSR id domain serial [timestamp]><Request [timestamp]>…` as the reader stores it -/
def ksrDict (ksrTimestamp requestTimestamp : Option String) : XVal :=
  let ksrAttrs := [("id", s "4fe9bb10"), ("serial", s "99"), ("domain", s ".")]
    ++ (match ksrTimestamp with | some t => [("timestamp", s t)] | none => [])
  let request := match requestTimestamp with
    | some t => d [("attrs", d [("timestamp", s t)]), ("value", minimalRequestBody)]
    | none => minimalRequestBody
  d [("KSR", d [("attrs", d ksrAttrs), ("value", d [("Request", request)])])]

/-- **F13.** The schema puts the optional timestamp on `Request`; there it makes the glue fail
    (`KeyError: 'RequestPolicy'`, because an element with attributes is stored as `{attrs, value}`);
    the glue reads it from `KSR`, where the schema has no such attribute.  Without a timestamp the
    document loads. -/
theorem timestamp_placement_counterexample (gs : GlueSwitches) :
    requestFromDict gs (ksrDict none (some "2018-01-01T00:00:00Z")) = err .key ∧
    (requestFromDict gs (ksrDict (some "2018-01-01T00:00:00Z") none)).map (·.timestamp) =
      .ok (some 1514764800000000) ∧
    (requestFromDict gs (ksrDict none none)).map (·.timestamp) = .ok none := by
  obtain ⟨a, b⟩ := gs
  cases a <;> cases b <;> exact ⟨by decide +kernel, by decide +kernel, by decide +kernel⟩

/-! ## 3. Order of request bundles -/

theorem eq_of_mem_pairwise_ne {l : List Bundle}
    (hd : l.Pairwise (fun a b => a.expiration ≠ b.expiration)) :
    ∀ a ∈ l, ∀ b ∈ l, a.expiration = b.expiration → a = b := by
  induction l with
  | nil => intro a ha; simp at ha
  | cons x r ih =>
    rw [List.pairwise_cons] at hd
    intro a ha b hb he
    rcases List.mem_cons.mp ha with rfl | ha' <;> rcases List.mem_cons.mp hb with rfl | hb'
    · rfl
    · exact absurd he (hd.1 b hb')
    · exact absurd he.symm (hd.1 a ha')
    · exact ih hd.2 a ha' b hb' he

/-- **C12_order.** Sorting by expiration yields the same list for every permutation of the input when
    expirations are pairwise distinct. -/
theorem C12_order (l₁ l₂ : List Bundle) (hp : l₁.Perm l₂)
    (hd : l₁.Pairwise (fun a b => a.expiration ≠ b.expiration)) :
    sortByExpiration l₁ = sortByExpiration l₂ := by
  unfold sortByExpiration
  have htrans : ∀ a b c : Bundle, decide (a.expiration ≤ b.expiration) = true →
      decide (b.expiration ≤ c.expiration) = true → decide (a.expiration ≤ c.expiration) = true := by
    intro a b c h1 h2; simp only [decide_eq_true_eq] at *; omega
  have htotal : ∀ a b : Bundle,
      (decide (a.expiration ≤ b.expiration) || decide (b.expiration ≤ a.expiration)) = true := by
    intro a b; simp only [Bool.or_eq_true, decide_eq_true_eq]; omega
  apply List.Perm.eq_of_pairwise (le := fun a b => decide (a.expiration ≤ b.expiration) = true)
  · intro a b ha _ h1 h2
    simp only [decide_eq_true_eq] at h1 h2
    have ha' : a ∈ l₁ := (List.mergeSort_perm l₁ _).mem_iff.mp ha
    have hb' : b ∈ l₁ := by
      rename_i hb
      exact hp.mem_iff.mpr ((List.mergeSort_perm l₂ _).mem_iff.mp hb)
    exact eq_of_mem_pairwise_ne hd a ha' b hb' (by omega)
  · exact List.pairwise_mergeSort htrans htotal l₁
  · exact List.pairwise_mergeSort htrans htotal l₂
  · exact (List.mergeSort_perm l₁ _).trans (hp.trans (List.mergeSort_perm l₂ _).symm)

/-- the result is in chronological order and contains exactly the bundles it was given -/
theorem sortByExpiration_sorted (l : List Bundle) :
    (sortByExpiration l).Pairwise (fun a b => a.expiration ≤ b.expiration) ∧ (sortByExpiration l).Perm l := by
  refine ⟨?_, List.mergeSort_perm l _⟩
  have := List.pairwise_mergeSort (le := fun a b : Bundle => decide (a.expiration ≤ b.expiration))
    (by intro a b c h1 h2; simp only [decide_eq_true_eq] at *; omega)
    (by intro a b; simp only [Bool.or_eq_true, decide_eq_true_eq]; omega) l
  exact this.imp (by intro a b h; simpa using h)

/-- a monadic map over a permuted list succeeds iff it did, with permuted results -/
theorem mapM_perm {α β} (f : α → Res β) {l₁ l₂ : List α} (hp : l₁.Perm l₂) :
    ∀ r₁, l₁.mapM f = .ok r₁ → ∃ r₂, l₂.mapM f = .ok r₂ ∧ r₁.Perm r₂ := by
  induction hp with
  | nil => intro r₁ h; exact ⟨r₁, h, List.Perm.refl _⟩
  | cons x _ ih =>
    intro r₁ h
    rw [List.mapM_cons] at h ⊢
    cases hx : f x with
    | error e => simp [hx, bind, Except.bind] at h
    | ok y =>
      simp only [hx, bind, Except.bind] at h ⊢
      rename_i la lb _
      cases hl : la.mapM f with
      | error e => simp [hl] at h
      | ok ys =>
        simp only [hl, pure, Except.pure, Except.ok.injEq] at h
        obtain ⟨r₂, h2, hp2⟩ := ih ys hl
        subst h
        exact ⟨y :: r₂, by simp [h2, pure, Except.pure], hp2.cons y⟩
  | swap x y l =>
    intro r₁ h
    simp only [List.mapM_cons, bind, Except.bind] at h ⊢
    cases hy : f y with
    | error e => simp [hy] at h
    | ok y' =>
      cases hx : f x with
      | error e => simp [hy, hx] at h
      | ok x' =>
        cases hl : l.mapM f with
        | error e => simp [hy, hx, hl] at h
        | ok ys =>
          simp only [hy, hx, hl, pure, Except.pure, Except.ok.injEq] at h
          subst h
          exact ⟨x' :: y' :: ys, rfl, List.Perm.swap _ _ _⟩
  | trans _ _ ih1 ih2 =>
    intro r₁ h
    obtain ⟨r₂, h2, hp2⟩ := ih1 r₁ h
    obtain ⟨r₃, h3, hp3⟩ := ih2 r₂ h2
    exact ⟨r₃, h3, hp2.trans hp3⟩

/-- **Order independence through the glue.** If a list of bundle dicts loads, every permutation of it
    loads too, and to the same bundle list when the expirations are pairwise distinct. -/
theorem C12_order_bundles (gs : GlueSwitches) (bs₁ bs₂ : List XVal) (hp : bs₁.Perm bs₂) (r₁ : List Bundle)
    (h : requestBundlesOf gs bs₁ = .ok r₁) :
    ∃ r₂, requestBundlesOf gs bs₂ = .ok r₂ ∧ r₁.Perm r₂ ∧
      (r₁.Pairwise (fun a b => a.expiration ≠ b.expiration) → r₂ = r₁) := by
  unfold requestBundlesOf at h ⊢
  cases hm : bs₁.mapM (requestBundleOf gs) with
  | error e => simp [hm, bind, Except.bind] at h
  | ok l₁ =>
    simp only [hm, bind, Except.bind, pure, Except.pure, Except.ok.injEq] at h
    obtain ⟨l₂, h2, hp2⟩ := mapM_perm (requestBundleOf gs) hp l₁ hm
    refine ⟨sortByExpiration l₂, by simp [h2, bind, Except.bind, pure, Except.pure], ?_, ?_⟩
    · rw [← h]
      exact (sortByExpiration_sorted l₁).2.trans (hp2.trans (sortByExpiration_sorted l₂).2.symm)
    · intro hd
      rw [← h] at hd ⊢
      have hd1 : l₁.Pairwise (fun a b => a.expiration ≠ b.expiration) :=
        ((sortByExpiration_sorted l₁).2.pairwise_iff (fun h => fun h' => h h'.symm)).mp hd
      exact (C12_order l₁ l₂ hp2 hd1).symm

/-- two bundles that differ only in their id -/
def tieA : Bundle := { id := "a", inception := 0, expiration := 10, keys := [], signatures := [] }
def tieB : Bundle := { id := "b", inception := 0, expiration := 10, keys := [], signatures := [] }

/-- **F8.** With equal expirations the sort is stable: document order shows through, so the result
    does depend on the order of the bundles in the file. -/
theorem C12_order_tie_counterexample :
    sortByExpiration [tieA, tieB] = [tieA, tieB] ∧ sortByExpiration [tieB, tieA] = [tieB, tieA] ∧
    sortByExpiration [tieA, tieB] ≠ sortByExpiration [tieB, tieA] := by
  have h1 : sortByExpiration [tieA, tieB] = [tieA, tieB] :=
    List.mergeSort_of_pairwise (by decide)
  have h2 : sortByExpiration [tieB, tieA] = [tieB, tieA] :=
    List.mergeSort_of_pairwise (by decide)
  refine ⟨h1, h2, ?_⟩
  rw [h1, h2]
  decide

/-! ## Non-vacuity -/

example : storeAll [] "Key".toList [s "1", s "2", s "3"] = [("Key".toList, .list [s "1", s "2", s "3"])] := by
  decide
example : storeAll [] "Key".toList [s "1"] = [("Key".toList, s "1")] := by decide
/-- distinct expirations: either document order sorts to the same list -/
example : sortByExpiration [tieA, { tieB with expiration := 5 }] = sortByExpiration [{ tieB with expiration := 5 }, tieA] :=
  C12_order _ _ (List.Perm.swap _ _ _) (by decide)

end Kskm.C12
