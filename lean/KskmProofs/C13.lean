/-
  C13 — loading any file terminates promptly: a fully validated object or a clean error.

  The reader of /repo has two `while` loops that advance only when a regular expression matches; the
  model (Kskm/Xml.lean) gives each loop explicit fuel and answers `outOfFuel` when it is used up.
  The theorems below say, for EVERY input string and ANY character classes:

  * each iteration of either loop hands a strictly shorter string to the next one, or ends the loop —
    with ONE exception: on the pinned tree an attribute string the expression does not match is looked
    at again, unchanged (`parseAttrs_progress`, second alternative);
  * hence with the repaired attribute loop (`attrsLoopFailsOnNoMatch = true`) `len + 1` units of fuel
    are never used up anywhere (`no_fuel_exhaustion`), the loops run at most `len` times, every index
    lies inside the input and every slice is a slice of the input (`iteration_bounds`);
  * with the pinned attribute loop (`= false`) the model answers `outOfFuel` for every amount of fuel on
    the concrete witness `id='foo'` (`parseAttrs_diverges`) — the real code hangs on it (finding F1,
    replayed under a watchdog by harness/corr_C13.py);
  * `C13_current_tree` instantiates whichever of the two applies to the switch value that
    harness/extract_tables.py has just tabulated from the code (`KskmGen.attrsLoopFailsOnNoMatch`);
  * `load_all_or_nothing`: `load_ksr` / `load_skr` return an object only after the whole document was
    read into it AND `validate_request` / `validate_response` accepted it; `size_gate`: a file larger than
    the cap is refused without `read` being consulted.

  Not proved (cannot be, in a functional model): wall-clock time inside the `re` engine — the
  quadratic start-tag expression (F5) is observed by the watchdog of the correspondence run.
-/
import Kskm.XmlGlue
import KskmProofs.Lemmas.XmlFuel
namespace Kskm.C13
open Kskm.Xml

/-! ## 1. Progress of the two loops -/

/-- **Attribute loop.** One iteration on a non-empty string either
    (1) matches and goes on with a remainder that is at least five characters shorter and is a piece
        of the string it was given, or
    (2) does not match — then it returns / raises, or, with the pinned code
        (`attrsLoopFailsOnNoMatch = false`), goes round again with the SAME (stripped) string. -/
theorem parseAttrs_progress (cls : Classes) (sw : Switches) (fuel : Nat) (a : List Char) (acc : Attrs)
    (ha : a ≠ []) :
    (∃ n v rest, rest.length + 5 ≤ a.length ∧ rest <:+: a ∧
        parseAttrs cls sw (fuel + 1) a acc = parseAttrs cls sw fuel rest (dictSet acc n v)) ∨
    (matchAttr cls (strip cls.isStrip a) = none ∧
        parseAttrs cls sw (fuel + 1) a acc =
          if (strip cls.isStrip a).isEmpty then
            (if sw.attrsBlankFails then .err .value else .ok acc)
          else if sw.attrsLoopFailsOnNoMatch then .err .value
          else parseAttrs cls sw fuel (strip cls.isStrip a) acc) := by
  have hne : a.isEmpty = false := by cases a <;> simp_all
  cases hm : matchAttr cls (strip cls.isStrip a) with
  | some t =>
    obtain ⟨n, v, rest⟩ := t
    left
    refine ⟨n, v, rest, ?_, ?_, ?_⟩
    · have := matchAttr_consumes cls _ n v rest hm
      have := strip_length_le cls.isStrip a
      omega
    · exact (matchAttr_infix cls _ n v rest hm).2.2.trans (strip_infix _ _)
    · rw [parseAttrs]; simp [hne, hm]
  | none =>
    right
    refine ⟨rfl, ?_⟩
    rw [parseAttrs]
    simp only [hne, Bool.false_eq_true, ↓reduceIte, hm]
    split
    · rename_i hs
      have : strip cls.isStrip a = [] := by simpa using hs
      split
      · rfl
      · rw [this, parseAttrs_nil]
    · rfl

/-- **Element loop.** An iteration that goes round again hands over a string that is at least three
    characters shorter and is a piece of the one it was given. -/
theorem parseRecursively_progress (cls : Classes) (sw : Switches) (inner : List Char → Out Dict)
    (xml xml' : List Char) (res res' : Dict) (h : parseStep cls sw inner xml res = .next xml' res') :
    xml'.length + 3 ≤ xml.length ∧ xml' <:+: xml :=
  parseStep_progress cls sw inner xml xml' res res' h

/-! ## 2. With the repaired attribute loop, fuel never runs out -/

/-- **No fuel exhaustion**, for every input, any character classes, any recursion bound. -/
theorem no_fuel_exhaustion (cls : Classes) (sw : Switches) (hsw : sw.attrsLoopFailsOnNoMatch = true) :
    (∀ a, parseAttrs cls sw (a.length + 1) a [] ≠ .outOfFuel) ∧
    (∀ d xml, parseRec cls sw d xml ≠ .outOfFuel) ∧
    (∀ xml, parse cls sw xml ≠ .outOfFuel) ∧
    (∀ xml, parseKsr cls sw xml ≠ .outOfFuel) := by
  refine ⟨fun a => parseAttrs_ne_outOfFuel cls sw hsw _ a [] (by omega),
    parseRec_ne_outOfFuel cls sw hsw, fun xml => parseRec_ne_outOfFuel cls sw hsw 5 xml, ?_⟩
  intro xml
  unfold parseKsr
  split
  · simp
  · exact parseRec_ne_outOfFuel cls sw hsw 5 _

/-- the loaders never hang either -/
theorem loaders_terminate (cls : Classes) (sw : Switches) (gs : GlueSwitches)
    (hsw : sw.attrsLoopFailsOnNoMatch = true) (xml : List Char) :
    requestFromXmlL cls sw gs xml ≠ .hang ∧ responseFromXmlL cls sw gs xml ≠ .hang := by
  have h := (no_fuel_exhaustion cls sw hsw).2.2.2 xml
  unfold requestFromXmlL responseFromXmlL fromXmlWith
  constructor
  · split
    · simp
    · simp
    · rename_i hh; exact absurd hh h
  · split
    · simp
    · simp
    · rename_i hh; exact absurd hh h

/-! ## 3. With the pinned attribute loop, a concrete input diverges (finding F1) -/

/-- a non-empty string that `strip` leaves alone and the expression does not match is looked at
    again and again: no amount of fuel suffices -/
theorem parseAttrs_diverges_of (cls : Classes) (sw : Switches) (hsw : sw.attrsLoopFailsOnNoMatch = false)
    (a : List Char) (ha : a ≠ []) (hstrip : strip cls.isStrip a = a) (hm : matchAttr cls a = none) :
    ∀ (fuel : Nat) (acc : Attrs), parseAttrs cls sw fuel a acc = .outOfFuel := by
  have hne : a.isEmpty = false := by cases a <;> simp_all
  intro fuel
  induction fuel with
  | zero => intro acc; simp [parseAttrs, hne]
  | succ f ih =>
    intro acc
    rw [parseAttrs]
    simp only [hne, Bool.false_eq_true, ↓reduceIte, hstrip, hm, hsw]
    exact ih acc

/-- **The witness** `id='foo'` (single quotes): for ANY word/space classes, provided `i` and `'` are
    not whitespace for `strip`, and for EVERY amount of fuel. -/
theorem parseAttrs_diverges (cls : Classes) (sw : Switches) (hsw : sw.attrsLoopFailsOnNoMatch = false)
    (h1 : cls.isStrip 'i' = false) (h2 : cls.isStrip '\'' = false) :
    ∀ (fuel : Nat) (acc : Attrs), parseAttrs cls sw fuel "id='foo'".toList acc = .outOfFuel := by
  apply parseAttrs_diverges_of cls sw hsw
  · decide
  · have : "id='foo'".toList = ['i', 'd', '=', '\'', 'f', 'o', 'o', '\''] := by decide
    rw [this]
    simp [strip, lstrip, rstrip, List.dropWhile, h1, h2]
  · exact matchAttr_none_of_no_quote cls _ (by decide)

/-- the same under the character classes of the running Python -/
theorem parseAttrs_diverges_py (sw : Switches) (hsw : sw.attrsLoopFailsOnNoMatch = false) :
    ∀ (fuel : Nat) (acc : Attrs), parseAttrs pyClasses sw fuel "id='foo'".toList acc = .outOfFuel :=
  parseAttrs_diverges pyClasses sw hsw (by decide +kernel) (by decide +kernel)

/-- … and so the whole document `<KSR id='foo'></KSR>` of DESIGN §5 F1 never loads -/
theorem parse_diverges_py (sw : Switches) (gs : GlueSwitches) (hsw : sw.attrsLoopFailsOnNoMatch = false) :
    parseKsr pyClasses sw "<KSR id='foo'></KSR>".toList = .outOfFuel ∧
    requestFromXmlL pyClasses sw gs "<KSR id='foo'></KSR>".toList = .hang := by
  have key : parseKsr pyClasses sw "<KSR id='foo'></KSR>".toList = .outOfFuel := by
    obtain ⟨a, b⟩ := sw
    simp only at hsw
    subst hsw
    cases b <;> decide +kernel
  refine ⟨key, ?_⟩
  unfold requestFromXmlL fromXmlWith
  rw [key]

/-! ## 4. Iteration bounds, index bounds, slices -/

/-- **Bounds.** With the repaired attribute loop:
    * the attribute loop runs at most `|attrs|` times, the element loop at most `|xml|` times
      (any fuel beyond `len + 1` gives the same answer as `len + 1`, and that answer is not `outOfFuel`);
    * the recursion is at most `recurse + 1 = 6` levels deep: level 0 does not descend;
    * every element consumes ≥ 3 characters, every index lies inside the input, and the name, the value
      and the attribute text of every element are contiguous pieces of the input. -/
theorem iteration_bounds (cls : Classes) (sw : Switches) (hsw : sw.attrsLoopFailsOnNoMatch = true) :
    (∀ (a : List Char) (acc : Attrs) (n : Nat), a.length + 1 ≤ n →
        parseAttrs cls sw n a acc = parseAttrs cls sw (a.length + 1) a acc) ∧
    (∀ (inner : List Char → Out Dict), (∀ v, inner v ≠ .outOfFuel) →
        ∀ (xml : List Char) (res : Dict) (n : Nat), xml.length + 1 ≤ n →
          parseLoop cls sw inner n xml res = parseLoop cls sw inner (xml.length + 1) xml res) ∧
    (∀ xml, parse cls sw xml = parseRec cls sw 5 xml) ∧
    (∀ xml, parseRec cls sw 0 xml = parseLoop cls sw (fun _ => .err .value) (xml.length + 1) xml []) ∧
    (∀ d xml, parseRec cls sw (d + 1) xml = parseLoop cls sw (parseRec cls sw d) (xml.length + 1) xml []) ∧
    (∀ (xml : List Char) (el : Element) (e : Nat), parseFirstElement cls sw xml = .ok (el, e) →
        3 ≤ e ∧ e ≤ xml.length ∧ el.value <:+: xml ∧ el.name <:+: xml) ∧
    (∀ (xml n ws a s : List Char), matchTag1 cls xml = some (n, ws, a, s) → a <:+: xml) := by
  refine ⟨?_, ?_, fun _ => rfl, fun _ => rfl, fun _ _ => rfl, parseFirstElement_bounds cls sw, ?_⟩
  · intro a acc n hn
    exact parseAttrs_fuel_stable cls sw _ a acc (parseAttrs_ne_outOfFuel cls sw hsw _ a acc (by omega)) n hn
  · intro inner hinner xml res n hn
    exact parseLoop_fuel_stable cls sw inner _ xml res
      (parseLoop_ne_outOfFuel cls sw hsw inner hinner _ xml res (by omega)) n hn
  · intro xml n ws a s h
    obtain ⟨rest, hx, _⟩ := matchTag1_decomp cls xml n ws a s h
    rw [hx]
    exact ⟨'<' :: (n ++ ws), s ++ '>' :: rest, by simp [List.append_assoc]⟩

/-- the recursion bound bites: six levels of nesting load, seven do not (the repo's
    `test_too_much_recursion`, at the default bound) -/
theorem recursion_bound_witness (sw : Switches) :
    parse pyClasses sw "<a><b><c><d><e><f>x</f></e></d></c></b></a>".toList =
      .ok [("a".toList, .dict [("b".toList, .dict [("c".toList, .dict [("d".toList, .dict [("e".toList,
        .dict [("f".toList, .str "x".toList)])])])])])] ∧
    parse pyClasses sw "<a><b><c><d><e><f><g>x</g></f></e></d></c></b></a>".toList = .err .value := by
  obtain ⟨a, b⟩ := sw
  cases a <;> cases b <;> exact ⟨by decide +kernel, by decide +kernel⟩

/-! ## 5. What the tree in /repo does now -/

/-- The behaviour switch tabulated from the code decides which statement holds of the current tree:
    repaired ⇒ nothing ever runs out of fuel; pinned ⇒ the F1 witness diverges. -/
theorem C13_current_tree :
    if KskmGen.attrsLoopFailsOnNoMatch = true then
      (∀ xml, parseKsr pyClasses pySwitches xml ≠ .outOfFuel) ∧
      (∀ xml, requestFromXmlL pyClasses pySwitches pyGlueSwitches xml ≠ .hang ∧
        responseFromXmlL pyClasses pySwitches pyGlueSwitches xml ≠ .hang)
    else
      (∀ fuel, parseAttrs pyClasses pySwitches fuel "id='foo'".toList [] = .outOfFuel) ∧
      requestFromXmlL pyClasses pySwitches pyGlueSwitches "<KSR id='foo'></KSR>".toList = .hang := by
  cases h : KskmGen.attrsLoopFailsOnNoMatch with
  | true =>
    have hsw : pySwitches.attrsLoopFailsOnNoMatch = true := h
    simp only [↓reduceIte]
    exact ⟨(no_fuel_exhaustion pyClasses pySwitches hsw).2.2.2, loaders_terminate pyClasses pySwitches pyGlueSwitches hsw⟩
  | false =>
    have hsw : pySwitches.attrsLoopFailsOnNoMatch = false := h
    simp only [Bool.false_eq_true, ↓reduceIte]
    exact ⟨fun fuel => parseAttrs_diverges_py pySwitches hsw fuel [], (parse_diverges_py pySwitches pyGlueSwitches hsw).2⟩

/-! ## 6. Load → validate composition, size gate -/

/-- **All or nothing (KSR).** `load_ksr` hands back a `Request` only if the file was within the cap,
    decoded, was parsed completely into exactly that request, and `validate_request` accepted it. -/
theorem load_all_or_nothing (cls : Classes) (sw : Switches) (gs : GlueSwitches) (verify : Verifier) (now : Int)
    (f : FileOracle) (pol : RequestPolicy) (ro : Bool) (req : Request)
    (h : (loadKsr cls sw gs verify now f pol ro).result = .done (.ok req)) :
    f.statSize ≤ KskmGen.maxKsrSize ∧
    ∃ xml, f.decode (f.read KskmGen.maxKsrSize) = some xml ∧
      requestFromXmlL cls sw gs xml = .done (.ok req) ∧
      validateRequest verify now req pol = .ok () := by
  unfold loadKsr at h
  split at h
  · simp [err] at h
  · rename_i hsz
    refine ⟨by omega, ?_⟩
    simp only at h
    split at h
    · simp [err] at h
    · rename_i xml hd
      refine ⟨xml, hd, ?_⟩
      split at h
      · simp at h
      · simp at h
      · rename_i req' hr
        split at h
        · rename_i hv
          simp only [pure, Except.pure, Load.done.injEq, Except.ok.injEq] at h
          subst h
          exact ⟨hr, hv⟩
        · split at h <;> simp [violation, err] at h
        · simp at h

/-- **All or nothing (SKR)**, with `validate_response` (bundle count and every signature). -/
theorem load_skr_all_or_nothing (cls : Classes) (sw : Switches) (gs : GlueSwitches) (verify : Verifier)
    (f : FileOracle) (pol : ResponsePolicy) (resp : Response)
    (h : (loadSkr cls sw gs verify f pol).result = .done (.ok resp)) :
    f.statSize ≤ KskmGen.maxSkrSize ∧
    ∃ xml, f.decode (f.read KskmGen.maxSkrSize) = some xml ∧
      responseFromXmlL cls sw gs xml = .done (.ok resp) ∧
      validateResponse verify resp pol = .ok () := by
  unfold loadSkr at h
  split at h
  · simp [err] at h
  · rename_i hsz
    refine ⟨by omega, ?_⟩
    simp only at h
    split at h
    · simp [err] at h
    · rename_i xml hd
      refine ⟨xml, hd, ?_⟩
      split at h
      · simp at h
      · simp at h
      · rename_i resp' hr
        split at h
        · rename_i hv
          simp only [pure, Except.pure, Load.done.injEq, Except.ok.injEq] at h
          subst h
          refine ⟨hr, ?_⟩
          unfold loadSkrGate at hv
          split at hv
          · simp [err] at hv
          · exact hv
        · simp at h

/-- **Size gate.** A file that `fstat` reports larger than the cap is refused with `RuntimeError`, and
    `read` is not consulted: the outcome does not mention the file's content at all. -/
theorem size_gate (cls : Classes) (sw : Switches) (gs : GlueSwitches) (verify : Verifier) (now : Int)
    (f : FileOracle) (pol : RequestPolicy) (ro : Bool) (h : KskmGen.maxKsrSize < f.statSize) :
    loadKsr cls sw gs verify now f pol ro = { result := .done (err .runtime), readCalled := false } := by
  unfold loadKsr
  simp [h]

theorem size_gate_skr (cls : Classes) (sw : Switches) (gs : GlueSwitches) (verify : Verifier)
    (f : FileOracle) (pol : ResponsePolicy) (h : KskmGen.maxSkrSize < f.statSize) :
    loadSkr cls sw gs verify f pol = { result := .done (err .runtime), readCalled := false } := by
  unfold loadSkr
  simp [h]

/-- conversely, `read` is called once the size is within the cap, and asks for at most the cap -/
theorem size_gate_reads_within_cap (cls : Classes) (sw : Switches) (gs : GlueSwitches) (verify : Verifier)
    (now : Int) (f : FileOracle) (pol : RequestPolicy) (ro : Bool) (h : f.statSize ≤ KskmGen.maxKsrSize) :
    (loadKsr cls sw gs verify now f pol ro).readCalled = true := by
  unfold loadKsr
  have : ¬ f.statSize > KskmGen.maxKsrSize := by omega
  simp [this]

/-- the caps regenerated from the code are the documented 1 MiB -/
theorem size_caps : KskmGen.maxKsrSize = 2 ^ 20 ∧ KskmGen.maxSkrSize = 2 ^ 20 := by decide

/-! ## 7. The tables the executable instance is built from -/

/-- the three expressions the matchers were derived from are the ones in the source now -/
theorem regex_literals_pinned :
    KskmGen.regexLiterals.lookup "src/kskm/common/xml_parser.py:re.match#1" = some "<(\\w+?)(\\s+?)(.+?)(/*)>" ∧
    KskmGen.regexLiterals.lookup "src/kskm/common/xml_parser.py:re.match#2" = some "<(\\w+)>" ∧
    KskmGen.regexLiterals.lookup "src/kskm/common/xml_parser.py:re.match#3" = some "^(\\w+)=\"(.+?)\"\\s*(.*)" := by
  decide

/-- **Sanity of the running Python's classes**, on which the deterministic reading of the lazy / greedy
    quantifiers rests: no character is both `\w` and `\s`; none of `< > = " /` is a word character;
    `\s` and `str.strip()` agree on the characters that matter here. -/
theorem classes_sane :
    (∀ c, ¬ (pyClasses.isWord c = true ∧ pyClasses.isSpace c = true)) ∧
    pyClasses.isWord '<' = false ∧ pyClasses.isWord '>' = false ∧ pyClasses.isWord '=' = false ∧
    pyClasses.isWord '"' = false ∧ pyClasses.isWord '/' = false ∧ pyClasses.isWord '_' = true ∧
    pyClasses.isSpace ' ' = true ∧ pyClasses.isSpace '\n' = true ∧ pyClasses.isSpace '\t' = true ∧
    pyClasses.isStrip ' ' = true ∧ pyClasses.isStrip '\n' = true ∧ pyClasses.isStrip '<' = false ∧
    KskmGen.spaceRanges = KskmGen.stripRanges := by
  refine ⟨inRanges_disjoint _ _ (by decide +kernel), ?_⟩
  decide +kernel

/-! ## Non-vacuity -/

/-- the repo's own `test_shortest_possible`, under both switch settings -/
example (sw : Switches) : parse pyClasses sw "\n        <KSR id=\"foo\">hello</KSR>\n        ".toList =
    .ok [("KSR".toList, .dict [(kAttrs, .dict [("id".toList, .str "foo".toList)]), (kValue, .str "hello".toList)])] := by
  obtain ⟨a, b⟩ := sw
  cases a <;> cases b <;> decide +kernel

/-- an input meeting the hypotheses of `parseAttrs_progress` alternative (1): two attributes -/
example : parseAttrs pyClasses ⟨true, true⟩ 20 "id=\"foo\" domain=\".\"".toList [] =
    .ok [("id".toList, "foo".toList), ("domain".toList, ".".toList)] := by decide +kernel

/-- the repaired loop on the F1 witness: a clean ValueError -/
example : parseAttrs pyClasses ⟨true, true⟩ 9 "id='foo'".toList [] = .err .value := by decide +kernel

/-- a file oracle over the cap -/
example : (loadKsr pyClasses ⟨true, true⟩ ⟨true, true, true, true⟩ (fun _ _ _ _ => .unknown) 0
    { statSize := 2 ^ 20 + 1, read := fun _ => [], decode := fun _ => none } KskmGen.requestPolicyDefaults).readCalled
    = false := by
  rw [size_gate _ _ _ _ _ _ _ _ (by decide)]

end Kskm.C13
