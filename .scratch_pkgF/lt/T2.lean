inductive CVal where
  | null
  | bool (b : Bool)
  | int (i : Int)
  | float (trunc : Option Int) (integral : Bool)
  | str (s : String)
  | td (us : Int)
  | ts (us : Int) (offset : Option Int)
  | date (days : Int)
  | list (xs : List CVal)
  | map (kvs : List (CVal × CVal))
  deriving Repr, Inhabited, DecidableEq, BEq

example : CVal.list [.int 3, .map [(.str "a", .null)]] = CVal.list [.int 3, .map [(.str "a", .null)]] := by decide
example : CVal.list [.int 3, .map [(.str "a", .null)]] ≠ CVal.list [.int 3, .map [(.str "b", .null)]] := by decide
