example : ("abc" == "abc") = true := by decide
example : "abc" ≠ "abd" := by decide
example : [("a", 1), ("bc", 2)].lookup "bc" = some 2 := by decide
example : ([("a", 1), ("bc", 2)].find? (·.1 = "bc")).map (·.2) = some 2 := by decide
example : "abc".toList = ['a','b','c'] := by decide
example : "abc".toList = ['a','b','c'] := by simp
example : "a\nb".toList = ['a','\n','b'] := by decide +kernel
inductive CVal where
  | null | bool (b : Bool) | int (i : Int) | str (s : String)
  | list (xs : List CVal) | map (kvs : List (CVal × CVal))
  deriving Repr, Inhabited
#check @CVal.rec
def CVal.size : CVal → Nat
  | .list xs => 1 + sizeList xs
  | .map kvs => 1 + sizeMap kvs
  | _ => 1
where sizeList : List CVal → Nat
  | [] => 0
  | x :: r => x.size + sizeList r
  sizeMap : List (CVal × CVal) → Nat
  | [] => 0
  | (k, v) :: r => k.size + v.size + sizeMap r
example : (CVal.list [.null, .int 3]).size = 3 := by decide
instance : DecidableEq CVal := by
  intro a b; exact sorry
