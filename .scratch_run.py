import sys, time, json
sys.path.insert(0, "/verif/harness")
import importlib, lib
mod = importlib.import_module("corr_" + sys.argv[1])
t0 = time.time()
res = mod.run(sys.argv[2] if len(sys.argv) > 2 else "quick", True)
print("wall", round(time.time() - t0, 1), "cases", res.evaluations, "viol", len(res.violations), "dis", len(res.disagreements), "unsupported", res.unsupported)
from collections import Counter
print(Counter((v["what"], v.get("key")) for v in res.violations).most_common(40))
for d in res.disagreements[:5]:
    print("DIS", json.dumps(d, default=str)[:1500])
print(json.dumps({k: v for k, v in res.stats.items() if any(x in k for x in sys.argv[3:])}, indent=0, default=str) if len(sys.argv) > 3 else "")
print(res.notes[-5:])
if len(sys.argv) > 3 and sys.argv[-1].startswith("show="):
    k = sys.argv[-1][5:]
    for v in res.violations:
        if k in str(v.get("key")):
            print(json.dumps({a: b for a, b in v.items() if a not in ("unpermuted_text",)}, default=str)[:6000])
            break
