#!/venv/bin/python
"""Seeded property-breaking changes (produced by independent agents that saw only the property text).

  tools/seeded.py confirm <src_dir> <PROP> <name>   confirm a candidate in a scratch worktree and, if it holds up,
                                                  keep it as /verif/seeded/<PROP>_<name>/ (patch.diff, demo.py, README.md, meta.json)
  tools/seeded.py run <seeded_dir> [--props C01,C02] [--tier quick]
                                                  apply the patch to /repo, run the checks, undo, record the outcome in meta.json
  tools/seeded.py matrix                          print which checks catch which seeded changes

A candidate is confirmed when, in a fresh worktree of /repo's HEAD: demo.py passes; the patch applies; the existing test
suite is unchanged with it (147 passed, the 24 SoftHSM errors); demo.py fails with it.
"""

from __future__ import annotations

import json
import os
import re
import shutil
import subprocess
import sys
import time
from pathlib import Path

VERIF = Path(__file__).resolve().parent.parent
REPO = Path("/repo")
PY = "/venv/bin/python"


def sh(cmd: list[str] | str, cwd: Path | None = None, env: dict[str, str] | None = None, timeout: int = 3600) -> tuple[int, str]:
    import os

    e = dict(os.environ)
    if env:
        e.update(env)
    p = subprocess.run(cmd, cwd=cwd, env=e, shell=isinstance(cmd, str), stdout=subprocess.PIPE, stderr=subprocess.STDOUT, timeout=timeout)
    return p.returncode, p.stdout.decode(errors="replace")


def confirm(src: Path, prop: str, name: str) -> int:
    wt = Path(f"/tmp/confirm_{prop}_{name}")
    if wt.exists():
        sh(["git", "-C", str(REPO), "worktree", "remove", "--force", str(wt)])
    rc, out = sh(["git", "-C", str(REPO), "worktree", "add", "-q", "--detach", str(wt), "HEAD"])
    if rc:
        print(out)
        return 2
    env = {"PYTHONPATH": str(wt / "src")}
    rec: dict[str, object] = {"property": prop, "name": name, "source": str(src), "repo_head": sh(["git", "-C", str(REPO), "rev-parse", "--short", "HEAD"])[1].strip()}
    try:
        demo = src / "demo.py"
        patch = src / "patch.diff"
        rc0, out0 = sh([PY, str(demo)], cwd=wt, env=env, timeout=900)
        rec["demo_clean"] = {"rc": rc0, "tail": out0[-400:]}
        rca, outa = sh(["git", "apply", str(patch)], cwd=wt)
        rec["apply"] = {"rc": rca, "out": outa[-400:]}
        rcs, outs = sh([PY, "-m", "pytest", "-q", "-p", "no:cacheprovider", "--timeout=900", "src"], cwd=wt, env=env, timeout=1800)
        m = re.search(r"(\d+) passed", outs)
        failed = re.search(r"(\d+) failed", outs)
        rec["suite_with_patch"] = {"passed": int(m.group(1)) if m else None, "failed": int(failed.group(1)) if failed else 0, "tail": outs.strip().splitlines()[-1] if outs.strip() else ""}
        rc1, out1 = sh([PY, str(demo)], cwd=wt, env=env, timeout=900)
        rec["demo_patched"] = {"rc": rc1, "tail": out1[-600:]}
        ok = rc0 == 0 and rca == 0 and rec["suite_with_patch"]["passed"] == 147 and rec["suite_with_patch"]["failed"] == 0 and rc1 != 0  # type: ignore[index]
        rec["confirmed"] = ok
        print(json.dumps(rec, indent=1)[:2500])
        if ok:
            dst = VERIF / "seeded" / f"{prop}_{name}"
            dst.mkdir(parents=True, exist_ok=True)
            for f in ("patch.diff", "demo.py", "README.md"):
                if (src / f).exists():
                    shutil.copy(src / f, dst / f)
            meta = {
                "property": prop,
                "breaks": f"{prop} (see README.md)",
                "needs_to_manifest": first_line_after(src / "README.md", ("trigger", "needs", "manifest")),
                "confirmed": rec,
                "confirmed_with": "tools/seeded.py confirm: fresh worktree of /repo HEAD; demo passes clean; patch applies; pytest 147 passed with patch; demo fails with patch",
                "checks": {},
            }
            (dst / "meta.json").write_text(json.dumps(meta, indent=1))
            print("kept as", dst)
        return 0 if ok else 1
    finally:
        sh(["git", "-C", str(REPO), "worktree", "remove", "--force", str(wt)])


def first_line_after(readme: Path, words: tuple[str, ...]) -> str:
    if not readme.exists():
        return ""
    lines = readme.read_text().splitlines()
    for i, l in enumerate(lines):
        if any(w in l.lower() for w in words) and (l.startswith("#") or l.startswith("**")):
            body = " ".join(x.strip() for x in lines[i + 1 : i + 6] if x.strip())
            return body[:600]
    return " ".join(lines[:4])[:600]


def run(d: Path, props: list[str] | None, tier: str, worktree: bool = False) -> int:
    """worktree=False: patch /repo itself (the registered way).  worktree=True: patch a scratch worktree and point the
    checks at it with KSKM_REPO (used while other people run checks against /repo, so as not to disturb them)."""
    meta = json.loads((d / "meta.json").read_text())
    props = props or [meta["property"]]
    target = REPO
    env = None
    if worktree:
        target = Path(f"/tmp/seedrun_{d.name}_{os.getpid()}")  # unique: several people may run the same change
        if target.exists():
            sh(["git", "-C", str(REPO), "worktree", "remove", "--force", str(target)])
        rc, out = sh(["git", "-C", str(REPO), "worktree", "add", "-q", "--detach", str(target), "HEAD"])
        if rc:
            print(out)
            return 2
        env = {"KSKM_REPO": str(target)}
    else:
        rc, out = sh(["git", "-C", str(REPO), "status", "--porcelain", "--untracked-files=no"])
        if out.strip():
            print("refusing: /repo has uncommitted changes\n", out)
            return 2
    rc, out = sh(["git", "-C", str(target), "apply", str(d / "patch.diff")])
    if rc:  # the tree has moved on since the change was made (fix: commits): fall back to a three-way merge
        rc, out = sh(["git", "-C", str(target), "apply", "--3way", str(d / "patch.diff")])
        sh(["git", "-C", str(target), "reset", "-q"])
    if rc:
        print("patch does not apply:", out)
        if worktree:
            sh(["git", "-C", str(REPO), "worktree", "remove", "--force", str(target)])
        return 2
    try:
        for p in props:
            t0 = time.time()
            rc, out = sh([str(VERIF / "check"), p, "--tier", tier], cwd=VERIF, env=env, timeout=7200)
            lines = [l for l in out.splitlines() if l.startswith(("VIOLATION", "KNOWN-FINDING", "check "))]
            viol = [l for l in lines if l.startswith("VIOLATION")]
            detail = None
            if viol:
                m = re.search(r"replay=(\S+)", viol[0])
                if m and Path(m.group(1)).exists():
                    try:
                        r = json.loads(Path(m.group(1)).read_text())
                        v = r.get("violation") or r.get("disagreement") or {}
                        detail = {"failing_input": r.get("failing_input"), "what": v.get("what") or r.get("unchecked"), "key": v.get("key")}
                    except Exception:  # noqa: BLE001
                        pass
            meta["checks"][f"{p}:{tier}"] = {"exit": rc, "caught": rc == 1 and bool(viol), "line": viol[0] if viol else (lines[-1] if lines else out[-200:]), "detail": detail, "wall_s": round(time.time() - t0, 1)}
            print(d.name, p, tier, "->", "CAUGHT" if rc == 1 else f"exit {rc}", (detail or {}).get("what"))
    finally:
        if worktree:
            sh(["git", "-C", str(REPO), "worktree", "remove", "--force", str(target)])
            # tables were regenerated from the patched tree: put the real tree's back
            sh([PY, str(VERIF / "harness" / "extract_tables.py")], cwd=VERIF)
        else:
            sh(["git", "-C", str(REPO), "checkout", "--", "."])
    (d / "meta.json").write_text(json.dumps(meta, indent=1))
    return 0


def matrix() -> int:
    rows = []
    for d in sorted((VERIF / "seeded").glob("*/meta.json")):
        m = json.loads(d.read_text())
        rows.append((d.parent.name, m["property"], {k: ("caught" if v["caught"] else f"missed(exit {v['exit']})") for k, v in m.get("checks", {}).items()}))
    for r in rows:
        print(f"{r[0]:40s} {r[1]:4s} {r[2]}")
    return 0


def matrix_md() -> int:
    """Markdown table for DESIGN.md §9 (generated; do not edit by hand)."""
    print("| change | what it does (from its README) | caught by | at first? |")
    print("|---|---|---|---|")
    for d in sorted((VERIF / "seeded").glob("*/meta.json")):
        m = json.loads(d.read_text())
        readme = d.parent / "README.md"
        title = readme.read_text().splitlines()[0].lstrip("# ").strip() if readme.exists() else ""
        title = re.sub(r"^C\d\d_\w+\s*[-–—:]+\s*", "", title).replace("|", "\\|")
        got = []
        for k, v in sorted(m.get("checks", {}).items()):
            prop = k.split(":")[0]
            if v.get("caught"):
                what = ((v.get("detail") or {}).get("what") or "")
                if isinstance(what, list):
                    what = "; ".join(what)
                tail = " *(correspondence only: no-failing-input-found)*" if "no-failing-input-found" in (v.get("line") or "") else ""
                got.append(f"{prop}: {what[:110]}{tail}")
            else:
                got.append(f"{prop}: **not caught** (exit {v.get('exit')})")
        first = "yes" if not m.get("missed_at_first") else ("**missed** → " + (m.get("closed_by") or "see text"))
        print(f"| {d.parent.name} | {title[:150]} | {'<br>'.join(got) or 'not run'} | {first} |".replace("\n", " "))
    return 0


if __name__ == "__main__":
    a = sys.argv[1:]
    if a and a[0] == "confirm":
        sys.exit(confirm(Path(a[1]), a[2], a[3]))
    if a and a[0] == "run":
        props = None
        tier = "quick"
        wt = "--worktree" in a
        for i, x in enumerate(a):
            if x == "--props":
                props = a[i + 1].split(",")
            if x == "--tier":
                tier = a[i + 1]
        sys.exit(run(Path(a[1]).resolve(), props, tier, wt))
    if a and a[0] == "matrix":
        sys.exit(matrix_md() if "--md" in a else matrix())
    print(__doc__)
    sys.exit(2)
