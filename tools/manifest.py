#!/usr/bin/env python3
"""Regenerate MANIFEST.json from the claims below (one entry per property that has a check)."""
import json
from pathlib import Path

V = Path(__file__).resolve().parent.parent
props = [json.loads(l) for l in (V / "properties.jsonl").read_text().splitlines() if l.strip()]

TB = "trusted: Lean 4.33 kernel, axioms ⊆ {propext, Classical.choice, Quot.sound}, the table translator and the correspondence harness (generators, canonicalisation), CPython/pydantic/cryptography as installed; "

CLAIMS = {
    "C14": dict(
        text="Lean 4 theorems: model = RFC specification for every octet string (key tag = RFC 4034 App. B, RDATA layout, DS input, RFC 3110 encode/decode round trip incl. the 3-octet length form, ECDSA prefix/size laws, revocation sets only the REVOKE bit and retags, RRSIG to-be-signed octets in the unique canonical order, order independence); the hand-written model is tied to the code by a three-way correspondence run (implementation / model driver / dnspython) on ~13k generated cases per run",
        note=TB + "dnspython as independent RFC oracle; SHA-256 not modelled (model yields the digest input); RFC 4034 App. B.1 (obsolete algorithm 1, refused by the tools) outside the domain",
        technique="Lean 4 proof (induction, omega, sorted-permutation uniqueness) + differential correspondence",
    ),
    "C05": dict(
        text="Lean 4 theorems: each timing rule of the model accepts exactly its documented clause (↔, bounds inclusive) for every timeline length, policy and clock value; the composite verdict is the conjunction over enabled rules (a switched-off rule never rejects, never masks); the model is tied to validate_request() by a boundary-lattice correspondence run (every bound × position × {-1d,-1s,0,+1s,+1d} × flag sets, n=1..9) that also evaluates the documented region on the implementation's verdicts",
        note=TB + "the clock is pinned by replacing verify_policy's module-level datetime name (plus a real-clock stream with 1 h margins); horizon theorem needs H ≥ 1 (enforced at configuration load, C16); chronological sorting of bundles by the loader is C12's subject",
        technique="Lean 4 proof (decision logic as ↔, omega) + boundary-lattice differential correspondence",
    ),
}

NA_DEFAULT = "check under construction in this round (model/theorems/correspondence not yet committed); will be claimed once its check runs clean on the unchanged tree"
NA = {}

m = {
    "version": 1,
    "setup_cmd": "/venv/bin/python harness/extract_tables.py && cd lean && lake build",
    "hooks": {
        "guard": "KSKM_VERIF",
        "enable": "no source hooks are needed: the harness replaces PyKCS11.PyKCS11Lib, builtins.open/input and module-level names (datetime, KSKM_PublicKey) from outside the repository",
        "baseline_off_cmd": "cd /repo && /venv/bin/python -m pytest -ra -q -p no:cacheprovider --timeout=900 --continue-on-collection-errors",
        "source_commits": [],
        "add_only": True,
    },
    "engines": [
        {"name": "lean-model", "path": "lean/", "serves_properties": sorted(CLAIMS), "kind_free_text": "Lean 4 executable model (lean/Kskm), regenerated tables (lean/KskmGen), property theorems (lean/KskmProofs), compiled JSON-lines driver"},
        {"name": "correspondence", "path": "harness/", "serves_properties": sorted(CLAIMS), "kind_free_text": "Python differential harness run against /repo's working tree: implementation vs model driver vs independent oracles / executable specifications"},
    ],
    "checks": [],
    "notes": "./check Cxx [--tier quick|thorough] [--replay FILE]; DESIGN.md describes the decision procedure; known_findings.json lists recorded and fixed defects",
    "not_applicable": [],
}
for p in props:
    pid = p["id"]
    if pid in CLAIMS:
        c = CLAIMS[pid]
        m["checks"].append(
            {
                "property_id": pid,
                "quick_cmd": f"./check {pid} --tier quick",
                "thorough_cmd": f"./check {pid} --tier thorough",
                "evidence_file": f"evidence/{pid}.json",
                "replay_cmd_template": f"./check {pid} --replay {{path}}",
                "engine": "lean-model",
                "level_claimed": {"category": "proof", "text": c["text"], "design_ref": f"DESIGN.md §4 {pid}"},
                "level_note": c["note"],
                "technique": c["technique"],
            }
        )
    else:
        m["not_applicable"].append({"property_id": pid, "reason": NA.get(pid, NA_DEFAULT)})
(V / "MANIFEST.json").write_text(json.dumps(m, indent=1, ensure_ascii=False) + "\n")
print("claimed:", sorted(CLAIMS), "not claimed:", [x["property_id"] for x in m["not_applicable"]])
