#!/venv/bin/python
"""Regenerate the seeded-change table of DESIGN.md §9 between its markers from seeded/*/meta.json."""
import re
import subprocess
from pathlib import Path

V = Path(__file__).resolve().parent.parent
table = subprocess.check_output([str(V / "tools" / "seeded.py"), "matrix", "--md"]).decode().strip()
d = V / "DESIGN.md"
s = d.read_text()
block = "<!-- seeded-table:begin -->\n" + table + "\n<!-- seeded-table:end -->"
if "@@SEEDED_TABLE@@" in s:
    s = s.replace("@@SEEDED_TABLE@@", block)
else:
    s = re.sub(r"<!-- seeded-table:begin -->.*?<!-- seeded-table:end -->", lambda m: block, s, flags=re.S)
d.write_text(s)
print("rows:", table.count("\n") - 1)
