#!/venv/bin/python
"""Generate fixtures/special.json: TEST-ONLY RSA keys with particular key-tag properties, found by search:
  carry     keys whose RFC 4034 App. B accumulator satisfies (ac & 0xFFFF) + (ac >> 16) >= 0x10000 for the DNSKEY
            (flags 257, algorithm 8) — the rare case where folding twice differs from the RFC's single fold;
  revcarry  keys whose accumulator has low 16 bits >= 0xFF80 (revoked tag = tag + 129, not + 128);
  twins     pairs of different keys with the same key tag as KSK (flags 257, algorithm 8).
Run once; the result is committed."""
import json, sys, math
from pathlib import Path
from cryptography.hazmat.primitives.asymmetric import rsa

def rdata(flags, alg, n_bytes, e=65537):
    eb = e.to_bytes((e.bit_length() + 7) // 8, "big")
    return flags.to_bytes(2, "big") + bytes([3, alg]) + bytes([len(eb)]) + eb + n_bytes

def acc(rd):
    s = 0
    for i, b in enumerate(rd):
        s += b if i & 1 else b << 8
    return s

def tag(rd):
    s = acc(rd)
    return ((s & 0xFFFF) + (s >> 16)) & 0xFFFF

def entry(priv):
    nums = priv.private_numbers()
    p, q = nums.p, nums.q
    lam = math.lcm(p - 1, q - 1)
    return dict(kind="rsa", bits=priv.key_size, e=hex(65537), n=hex(p * q), d=hex(pow(65537, -1, lam)), p=hex(p), q=hex(q))

out = {"carry": [], "revcarry": [], "twins": []}
by_tag = {}
count = 0
while (len(out["carry"]) < 2 or len(out["twins"]) < 2 or len(out["revcarry"]) < 2) and count < 6000:
    count += 1
    priv = rsa.generate_private_key(public_exponent=65537, key_size=1024)
    n = priv.public_key().public_numbers().n
    nb = n.to_bytes(128, "big")
    rd = rdata(257, 8, nb)
    s = acc(rd)
    t = tag(rd)
    e = entry(priv)
    e["tag257_alg8"] = t
    if (s & 0xFFFF) + (s >> 16) >= 0x10000 and len(out["carry"]) < 2:
        out["carry"].append(e)
    if (s & 0xFFFF) >= 0xFF80 and len(out["revcarry"]) < 2:
        out["revcarry"].append(e)
    if t in by_tag and len(out["twins"]) < 2:
        out["twins"].append([by_tag[t], e])
    by_tag.setdefault(t, e)
print(count, {k: len(v) for k, v in out.items()})
Path(__file__).resolve().parent.parent.joinpath("fixtures", "special.json").write_text(json.dumps(out, indent=0))
