#!/venv/bin/python
"""Behaviour-preserving refactorings of /repo (made by independent agents): the checks must stay quiet on them.

  tools/harmless.py run <dir>      apply <dir>/patch.diff to a scratch worktree of /repo's HEAD, run the quick check of every
                                   property anchored in a file the patch touches (KSKM_REPO), record the outcome in <dir>/meta.json
  tools/harmless.py table          markdown table for DESIGN.md
An alarm here is a FALSE alarm unless the refactoring turns out not to preserve behaviour (then the replay says where).
"""
from __future__ import annotations

import json
import os
import re
import subprocess
import sys
import time
from pathlib import Path

VERIF = Path(__file__).resolve().parent.parent
REPO = Path("/repo")


def sh(cmd, cwd=None, env=None, timeout=7200):
    e = dict(os.environ)
    if env:
        e.update(env)
    p = subprocess.run(cmd, cwd=cwd, env=e, stdout=subprocess.PIPE, stderr=subprocess.STDOUT, timeout=timeout)
    return p.returncode, p.stdout.decode(errors="replace")


def props_for(files: list[str]) -> list[str]:
    out = []
    for line in (VERIF / "properties.jsonl").read_text().splitlines():
        if line.strip():
            p = json.loads(line)
            if set(p["anchors"]["files"]) & set(files):
                out.append(p["id"])
    return out


def run(d: Path) -> int:
    patch = d / "patch.diff"
    files = re.findall(r"^\+\+\+ b/(\S+)", patch.read_text(), re.M)
    props = props_for(files)
    wt = Path(f"/tmp/harmless_{d.name}_{os.getpid()}")
    sh(["git", "-C", str(REPO), "worktree", "add", "-q", "--detach", str(wt), "HEAD"])
    meta = {"files": files, "properties_anchored_there": props, "repo_head": sh(["git", "-C", str(REPO), "rev-parse", "--short", "HEAD"])[1].strip(), "checks": {}}
    try:
        rc, out = sh(["git", "-C", str(wt), "apply", str(patch)])
        if rc:
            meta["apply"] = out[-300:]
            print(d.name, "patch does not apply")
            (d / "meta.json").write_text(json.dumps(meta, indent=1))
            return 2
        rc, out = sh(["/venv/bin/python", "-m", "pytest", "-q", "-p", "no:cacheprovider", "--timeout=900", "src"], cwd=wt, env={"PYTHONPATH": str(wt / "src")})
        m = re.search(r"(\d+) passed", out)
        meta["suite_passed"] = int(m.group(1)) if m else None
        for p in props:
            t0 = time.time()
            rc, out = sh([str(VERIF / "check"), p, "--tier", "quick"], cwd=VERIF, env={"KSKM_REPO": str(wt)})
            lines = [l for l in out.splitlines() if l.startswith(("VIOLATION", "check "))]
            viol = [l for l in lines if l.startswith("VIOLATION")]
            detail = None
            if viol:
                mm = re.search(r"replay=(\S+)", viol[0])
                if mm and Path(mm.group(1)).exists():
                    r = json.loads(Path(mm.group(1)).read_text())
                    v = r.get("violation") or r.get("disagreement") or {}
                    detail = {"what": v.get("what") or r.get("unchecked"), "key": v.get("key")}
            meta["checks"][p] = {"exit": rc, "quiet": rc == 0 and not viol, "line": viol[0] if viol else (lines[-1] if lines else out[-200:]), "detail": detail, "wall_s": round(time.time() - t0, 1)}
            print(d.name, p, "quiet" if rc == 0 and not viol else f"ALARM exit {rc}", (detail or {}).get("what") or "")
    finally:
        sh(["git", "-C", str(REPO), "worktree", "remove", "--force", str(wt)])
        sh(["/venv/bin/python", str(VERIF / "harness" / "extract_tables.py")], cwd=VERIF)
    (d / "meta.json").write_text(json.dumps(meta, indent=1))
    return 0


def table() -> int:
    print("| refactoring | files | suite | checks run (all must be quiet) | result |")
    print("|---|---|---|---|---|")
    for f in sorted((VERIF / "harmless").glob("*/meta.json")):
        m = json.loads(f.read_text())
        readme = f.parent / "README.md"
        title = readme.read_text().splitlines()[0].lstrip("# ").strip()[:110].replace("|", "/") if readme.exists() else ""
        res = "; ".join(f"{p}: {'quiet' if c['quiet'] else '**ALARM** ' + str((c.get('detail') or {}).get('what'))[:80]}" for p, c in m.get("checks", {}).items()) or m.get("apply", "not run")
        print(f"| {f.parent.name}: {title} | {', '.join(Path(x).name for x in m['files'])} | {m.get('suite_passed')} | {', '.join(m.get('checks', {}))} | {res} |")
    return 0


if __name__ == "__main__":
    a = sys.argv[1:]
    if a and a[0] == "run":
        sys.exit(run(Path(a[1]).resolve()))
    if a and a[0] == "table":
        sys.exit(table())
    print(__doc__)
    sys.exit(2)
