#!/venv/bin/python
"""Generate fixtures/keys.json: TEST-ONLY private keys used by the correspondence harness
(RSA 1024/2048/3072/4096 with exponents 3, 65537, 2^32+1 and odd multi-octet exponents; EC P-256/P-384).
Deterministic content is not needed; the file is committed so that checks do not spend time on key generation."""
import json, math, random, sys
from pathlib import Path
from cryptography.hazmat.primitives.asymmetric import ec, rsa

out = []
rnd = random.Random(20260926)

def rsa_with_exponent(priv, e):
    nums = priv.private_numbers()
    p, q = nums.p, nums.q
    lam = math.lcm(p - 1, q - 1)
    if math.gcd(e, lam) != 1:
        return None
    d = pow(e, -1, lam)
    return dict(kind="rsa", bits=priv.key_size, e=hex(e), n=hex(p * q), d=hex(d), p=hex(p), q=hex(q))

plan = {1024: 8, 2048: 5, 3072: 2, 4096: 2}
for bits, count in plan.items():
    for i in range(count):
        priv = rsa.generate_private_key(public_exponent=65537, key_size=bits)
        out.append(rsa_with_exponent(priv, 65537))
        # alternative exponents on the same primes
        cands = [3, 17, 2**32 + 1, 2**16 + 3, (rnd.getrandbits(8 * rnd.choice([2, 3, 5, 8])) | 1)]
        for e in cands[: 5 if bits <= 2048 else 2]:
            k = rsa_with_exponent(priv, e)
            if k:
                out.append(k)
for bits, count in {1024: 3, 2048: 3, 3072: 1, 4096: 1}.items():
    for i in range(count):
        priv = rsa.generate_private_key(public_exponent=3, key_size=bits)
        out.append(rsa_with_exponent(priv, 3))
for curve, name in ((ec.SECP256R1(), "P-256"), (ec.SECP384R1(), "P-384")):
    for i in range(6):
        priv = ec.generate_private_key(curve)
        n = priv.private_numbers()
        out.append(dict(kind="ec", curve=name, d=hex(n.private_value), x=hex(n.public_numbers.x), y=hex(n.public_numbers.y)))
Path(__file__).resolve().parent.parent.joinpath("fixtures", "keys.json").write_text(json.dumps(out, indent=0))
print(len(out), "keys")
